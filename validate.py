#!/usr/bin/env python3-vt
import json, sys, glob, jsonschema
ms = json.load(open('/root/.vp/MANIFEST.schema.json'))
es = json.load(open('/root/.vp/EVIDENCE.schema.json'))
m = json.load(open('/verif/MANIFEST.json'))
jsonschema.validate(m, ms)
ids = [json.loads(l)['id'] for l in open('/verif/properties.jsonl')]
claimed = [c['property_id'] for c in m['checks']]
na = [n['property_id'] for n in m.get('not_applicable', [])]
assert sorted(claimed + na) == sorted(ids), (sorted(claimed + na), ids)
print('manifest valid; claimed', claimed, 'n/a', na)
for c in m['checks']:
    p = c['evidence_file']
    try:
        e = json.load(open(p))
        jsonschema.validate(e, es)
        assert e['property_id'] == c['property_id'] and e['level'] == c['level_claimed']['category']
        print(' evidence ok', p, e['coverage'].get('evaluations'), e['coverage'].get('distinct_nontrivial'))
    except Exception as ex:
        print(' EVIDENCE PROBLEM', p, str(ex)[:300])
