use i_tree::ExpiredKey;
use i_tree::key::tree::KeyExpTree;
use i_tree::key::exp::KeyExpCollection;

#[derive(Clone, Copy, PartialEq, Eq, PartialOrd, Ord)]
struct Named { name: &'static str, exp: i32 }
impl ExpiredKey<i32> for Named { fn expiration(&self) -> i32 { self.exp } }

#[test]
fn key_with_a_reference_builds() {
    let mut t: KeyExpTree<Named, i32, u32> = KeyExpTree::new(8);
    t.insert(Named { name: "a", exp: 10 }, 1, 0);
    assert_eq!(t.get_value(0, Named { name: "a", exp: 10 }), Some(1));
}
