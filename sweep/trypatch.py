#!/usr/bin/env python3
"""Evaluate a candidate seeded change:  trypatch.py <patch.diff> [--demo demo.rs] [--props C08,C13] [--verify]
 - applies the patch to a scratch copy of /repo's current tree (never to /repo),
 - with --verify: checks that it builds, that the existing test-suite still passes, that the demo passes without
   the patch and fails with it,
 - runs every rule on the patched tree and prints the violations (all, and those attributed to --props)."""
import sys, os, subprocess, argparse, importlib, json, shutil
sys.path.insert(0, '/verif/sta'); sys.path.insert(0, '/verif/sweep')
from scratch import scratch_copy
from mirlib import extract
from program import Program
from engine import Ctx
import catalog

def sh(cmd, cwd, timeout=900):
    env = dict(os.environ); env['CARGO_NET_OFFLINE'] = 'true'; env['CARGO_TARGET_DIR'] = os.path.join(os.path.dirname(cwd), 'target')
    import signal
    p = subprocess.Popen(cmd, cwd=cwd, shell=True, stdout=subprocess.PIPE, stderr=subprocess.STDOUT, text=True, env=env, start_new_session=True)
    try:
        out, _ = p.communicate(timeout=timeout)
        return p.returncode, out
    except subprocess.TimeoutExpired:
        return 124, 'timeout'
    finally:
        try:
            os.killpg(p.pid, signal.SIGKILL)      # a demo that hangs must not outlive this tool
        except Exception:
            pass

def run_rules(root):
    prog = Program(*extract(root))
    ctx = Ctx(prog)
    for name in catalog.RULE_MODULES:
        importlib.import_module('rules.' + name).run(ctx)
    return ctx

def main():
    ap = argparse.ArgumentParser()
    ap.add_argument('patch'); ap.add_argument('--demo'); ap.add_argument('--props', default=''); ap.add_argument('--verify', action='store_true')
    ap.add_argument('--json')
    a = ap.parse_args()
    props = [p for p in a.props.split(',') if p]
    out = {'patch': a.patch, 'props': props}
    with scratch_copy() as root:
        if a.verify and a.demo:
            shutil.copy(a.demo, os.path.join(root, 'tests', 'zz_demo.rs'))
            rc, o = sh('cargo test --offline --test zz_demo 2>&1 | tail -5', root)
            out['demo_without_patch'] = 'pass' if 'test result: ok' in o else 'FAIL'
            os.remove(os.path.join(root, 'tests', 'zz_demo.rs'))
        rc, o = sh('patch -p1 --no-backup-if-mismatch < %s' % os.path.abspath(a.patch), root)
        if rc != 0:
            print('PATCH DOES NOT APPLY', o); out['applies'] = False
            if a.json: json.dump(out, open(a.json, 'w'), indent=1)
            return 2
        out['applies'] = True
        if a.verify:
            rc, o = sh('cargo build --offline 2>&1 | tail -3', root)
            out['builds'] = (rc == 0 and 'error' not in o)
            rc, o = sh('cargo test --offline --no-fail-fast 2>&1 | grep -E "^test result|FAILED|failed" ', root)
            res = [l for l in o.split('\n') if l.startswith('test result')]
            out['suite'] = 'pass' if res and all('ok.' in l for l in res) else 'FAIL'
            out['suite_lines'] = res
            if a.demo:
                shutil.copy(a.demo, os.path.join(root, 'tests', 'zz_demo.rs'))
                rc, o = sh('cargo test --offline --test zz_demo 2>&1 | tail -15', root)
                out['demo_with_patch'] = 'pass' if 'test result: ok' in o else 'FAIL'
                out['demo_tail'] = o[-600:]
                os.remove(os.path.join(root, 'tests', 'zz_demo.rs'))
        try:
            ctx = run_rules(root)
        except Exception as e:
            print('EXTRACTION FAILED', str(e)[-500:]); out['extraction'] = str(e)[-500:]
            if a.json: json.dump(out, open(a.json, 'w'), indent=1)
            return 3
        import stages as _st; _st.mark_known(ctx)
        v = [i for i in ctx.instances if i.verdict == 'violation']
        hit = [i for i in v if set(props) & i.props] if props else v
        out['violations'] = [{'key': i.key, 'props': sorted(i.props), 'msg': i.msg[:300]} for i in v]
        out['detected'] = bool(hit)
        out['detected_by'] = sorted({i.rule for i in hit})
        print(json.dumps({k: out[k] for k in out if k not in ('violations', 'demo_tail')}, indent=1))
        for i in v:
            print('  %s %s\n      %s' % ('*' if i in hit else ' ', i.key, i.msg[:260]))
    if a.json: json.dump(out, open(a.json, 'w'), indent=1)
    return 0

if __name__ == '__main__':
    sys.exit(main())
