#!/usr/bin/env python3
"""import_seed.py <out_dir> <i> <seed-id> <prop>  : verify an independently written seeded change and keep it under /verif/seeded/<seed-id>/"""
import sys, os, json, shutil, subprocess
out, i, sid, prop = sys.argv[1:5]
patch = os.path.join(out, 'patch%s.diff' % i); demo = os.path.join(out, 'demo%s.rs' % i); meta = os.path.join(out, 'meta%s.json' % i)
tmpj = '/tmp/trypatch_%s.json' % sid
subprocess.run([sys.executable, '/verif/sweep/trypatch.py', patch, '--demo', demo, '--props', prop, '--verify', '--json', tmpj])
r = json.load(open(tmpj)); os.remove(tmpj)
ok = r.get('applies') and r.get('builds') and r.get('suite') == 'pass' and r.get('demo_without_patch') == 'pass' and r.get('demo_with_patch') == 'FAIL'
print('CONFIRMED' if ok else 'NOT CONFIRMED', sid, 'detected' if r.get('detected') else 'MISSED', r.get('detected_by'))
if ok:
    d = '/verif/seeded/%s' % sid
    os.makedirs(d, exist_ok=True)
    shutil.copy(patch, os.path.join(d, 'patch.diff')); shutil.copy(demo, os.path.join(d, 'demo.rs'))
    m = {}
    try: m = json.load(open(meta))
    except Exception: pass
    m.update({'id': sid, 'property': prop, 'origin': 'independent sub-agent (given only the property text and a scratch worktree)',
              'confirmed': {'applies': True, 'builds': True, 'existing_suite_passes_with_patch': True, 'demo_passes_without_patch': True, 'demo_fails_with_patch': True,
                            'how': 'sweep/trypatch.py --verify on a scratch copy of /repo (patch -p1; cargo build/test --offline; demo as tests/zz_demo.rs)'},
              'detected_at_import': r.get('detected'), 'detected_by_at_import': r.get('detected_by')})
    json.dump(m, open(os.path.join(d, 'meta.json'), 'w'), indent=1)
