#!/usr/bin/env python3
"""Mutation explorer for the checker (development tool, not a registered check).

Generates single-site token mutants of the library source (outside #[cfg(test)] modules), pushes every mutant that still
type-checks through the driver and all rules, and - for the mutants no rule reports - runs the existing test-suite to
separate "killed by the tests anyway" from "survives tests and checker" (the interesting list: equivalent mutants or
blind spots, to be triaged by hand in sweep/mutant_triage.json).

    mutate.py [--files src/set/tree.rs,...] [--limit N] [--tests] [--out sweep/MUTANTS.json]
"""
import sys, os, re, json, argparse, tempfile, shutil, subprocess, importlib, hashlib
from concurrent.futures import ProcessPoolExecutor
sys.path.insert(0, '/verif/sta'); sys.path.insert(0, '/verif/sweep')

REPO = '/repo'
EXPECTED_RESULT_LINES = 6      # test binaries of the crate (lib unit tests, 4 integration files) + doc tests

OPS = [
    ('lr', re.compile(r'\.left\b'), '.right'), ('lr', re.compile(r'\.right\b'), '.left'),
    ('cmp', re.compile(r' < '), ' <= '), ('cmp', re.compile(r' <= '), ' < '), ('cmp', re.compile(r' > '), ' >= '), ('cmp', re.compile(r' >= '), ' > '),
    ('eq', re.compile(r' == '), ' != '), ('eq', re.compile(r' != '), ' == '),
    ('pm', re.compile(r' \+ 1\b'), ' - 1'), ('pm', re.compile(r' - 1\b'), ' + 1'), ('pm0', re.compile(r' \+ 1\b'), ''), ('pm0', re.compile(r' - 1\b'), ''),
    ('color', re.compile(r'Color::Red\b'), 'Color::Black'), ('color', re.compile(r'Color::Black\b'), 'Color::Red'),
    ('ord', re.compile(r'Ordering::Less\b'), 'Ordering::Greater'), ('ord', re.compile(r'Ordering::Greater\b'), 'Ordering::Less'),
    ('bool', re.compile(r'\btrue\b'), 'false'), ('bool', re.compile(r'\bfalse\b'), 'true'),
    ('logic', re.compile(r' && '), ' || '), ('logic', re.compile(r' \|\| '), ' && '),
    ('const', re.compile(r'\bEMPTY_REF\b'), 'NIL_INDEX'), ('const', re.compile(r'\bNIL_INDEX\b'), 'EMPTY_REF'),
    ('neg', re.compile(r'if !'), 'if '),
    ('parent', re.compile(r'\.parent\b'), '.left'),
]
STMT = re.compile(r'^\s+[A-Za-z_][A-Za-z0-9_\.\(\)\[\]\* ]*(=|\+=|-=)[^=].*;\s*$|^\s+self\.[a-z_\.]+\(.*\);\s*$|^\s+[a-z_]+\.[a-z_]+\(.*\);\s*$')


def source_files():
    out = []
    for d, _, fs in os.walk(os.path.join(REPO, 'src')):
        for f in fs:
            if f.endswith('.rs'):
                out.append(os.path.relpath(os.path.join(d, f), REPO))
    return sorted(out)


def test_region_start(lines):
    for i, l in enumerate(lines):
        if '#[cfg(test)]' in l:
            return i
    return len(lines)


def mutants_of(rel):
    text = open(os.path.join(REPO, rel)).read()
    lines = text.split('\n')
    end = test_region_start(lines)
    out = []
    for i in range(end):
        l = lines[i]
        s = l.strip()
        if not s or s.startswith('//') or s.startswith('#[') or 'debug_assert' in l or s.startswith('use ') or s.startswith('const ') or s.startswith('pub const '):
            continue
        for (op, rx, rep) in OPS:
            for m in rx.finditer(l):
                nl = l[:m.start()] + rep + l[m.end():]
                out.append({'file': rel, 'line': i + 1, 'op': op, 'old': l, 'new': nl})
        if STMT.match(l) and not s.startswith('let ') and not s.startswith('return'):
            out.append({'file': rel, 'line': i + 1, 'op': 'del', 'old': l, 'new': l[:len(l) - len(l.lstrip())] + '// (statement deleted)'})
    for m in out:
        m['id'] = '%s:%d:%s:%s' % (m['file'], m['line'], m['op'], hashlib.md5((m['old'] + '->' + m['new']).encode()).hexdigest()[:6])
    return out


def copy_repo(dst):
    os.makedirs(dst)
    for n in ('src', 'tests', 'Cargo.toml', 'Cargo.lock'):
        s = os.path.join(REPO, n)
        if os.path.isdir(s):
            shutil.copytree(s, os.path.join(dst, n))
        elif os.path.exists(s):
            shutil.copy2(s, os.path.join(dst, n))


def apply(root, m):
    p = os.path.join(root, m['file'])
    lines = open(p).read().split('\n')
    assert lines[m['line'] - 1] == m['old']
    lines[m['line'] - 1] = m['new']
    open(p, 'w').write('\n'.join(lines))


def one(args):
    m, run_tests = args
    from mirlib import extract, ExtractError
    from program import Program
    from engine import Ctx
    import catalog
    tmp = tempfile.mkdtemp(prefix='itree-mut-')
    res = dict(m)
    try:
        root = os.path.join(tmp, 'r')
        copy_repo(root)
        apply(root, m)
        try:
            prog = Program(*extract(root))
        except Exception as e:
            res['status'] = 'does-not-compile'
            return res
        try:
            ctx = Ctx(prog)
            for name in catalog.RULE_MODULES:
                importlib.import_module('rules.' + name).run(ctx)
        except Exception as e:
            res['status'] = 'checker-crash'
            res['error'] = repr(e)[:300]
            return res
        import stages as _st; _st.mark_known(ctx)
        v = [i for i in ctx.instances if i.verdict == 'violation']
        if v:
            res['status'] = 'reported'
            res['rules'] = sorted({i.rule for i in v})
            res['props'] = sorted(set().union(*[i.props for i in v]))
            res['keys'] = [i.key for i in v][:4]
            if run_tests != 'all':
                return res
        res.setdefault('status', 'silent')
        if run_tests:
            env = dict(os.environ)
            env['CARGO_NET_OFFLINE'] = 'true'
            env['CARGO_TARGET_DIR'] = os.path.join(tmp, 'target')
            import signal
            # own process group, killed as a whole on timeout: a mutant that makes a test loop forever must not
            # leave the test binary running after this explorer is gone
            pr = subprocess.Popen('cargo test --offline --no-fail-fast 2>&1 | grep -E "^test result|panicked|FAILED|error" | head -20', shell=True, cwd=root, env=env, stdout=subprocess.PIPE, stderr=subprocess.DEVNULL, text=True, start_new_session=True)
            try:
                o, _ = pr.communicate(timeout=600)
                lines = [l for l in o.split('\n') if l.startswith('test result')]
                res['tests'] = 'pass' if len(lines) >= EXPECTED_RESULT_LINES and all(' ok.' in l for l in lines) and 'FAILED' not in o else 'fail'
            except subprocess.TimeoutExpired:
                res['tests'] = 'timeout'
            finally:
                try:
                    os.killpg(pr.pid, signal.SIGKILL)
                except Exception:
                    pass
        return res
    finally:
        shutil.rmtree(tmp, ignore_errors=True)


def main():
    ap = argparse.ArgumentParser()
    ap.add_argument('--files', default='')
    ap.add_argument('--limit', type=int, default=0)
    ap.add_argument('--tests', action='store_true')
    ap.add_argument('--out', default='/verif/sweep/MUTANTS.json')
    ap.add_argument('--workers', type=int, default=14)
    ap.add_argument('--tests-on-reported', action='store_true', help='also run the test-suite on mutants some rule reports (to find reports on equivalent mutants)')
    ap.add_argument('--rerun-silent', action='store_true', help='re-run the checker only on the mutants recorded as silent in --out')
    a = ap.parse_args()
    files = [f for f in a.files.split(',') if f] or source_files()
    ms = []
    for f in files:
        ms += mutants_of(f)
    if a.limit:
        ms = ms[:a.limit]
    prev = None
    if a.rerun_silent:
        prev = json.load(open(a.out))
        keep = {r['id'] for r in prev['results'] if r['status'] == 'silent'}
        ms = [m for m in ms if m['id'] in keep]
    print('%d mutants over %d files' % (len(ms), len(files)), flush=True)
    results = []
    with ProcessPoolExecutor(max_workers=a.workers) as ex:
        for n, r in enumerate(ex.map(one, [(m, 'all' if a.tests_on_reported else a.tests) for m in ms], chunksize=2)):
            results.append(r)
            if (n + 1) % 100 == 0:
                print('  %d done' % (n + 1), flush=True)
    if prev is not None:
        old = {r['id']: r for r in prev['results']}
        for r in results:
            if r['status'] == 'silent' and 'tests' not in r and old.get(r['id'], {}).get('tests'):
                r['tests'] = old[r['id']]['tests']
            old[r['id']] = r
        results = list(old.values())
    summ = {}
    for r in results:
        k = r['status'] + ('/' + r['tests'] if r.get('tests') else '')
        summ[k] = summ.get(k, 0) + 1
    json.dump({'summary': summ, 'results': results}, open(a.out, 'w'), indent=0)
    print(summ)


if __name__ == '__main__':
    main()
