#!/usr/bin/env python3
"""Behaviour-preserving edits (/verif/refactors/*/patch.diff): every rule must stay SILENT on each of them."""
import sys, os, subprocess, importlib
sys.path.insert(0, '/verif/sta'); sys.path.insert(0, '/verif/sweep')
import stages
from concurrent.futures import ProcessPoolExecutor
import tempfile, shutil

def one(d):
    rid = os.path.basename(d)
    tmp = tempfile.mkdtemp(prefix='itree-rf-')
    try:
        root = os.path.join(tmp, 'repo')
        stages.copy_tree('/repo', root)
        p = subprocess.run('patch -p1 --no-backup-if-mismatch < %s' % os.path.join(d, 'patch.diff'), shell=True, cwd=root, capture_output=True, text=True)
        if p.returncode != 0:
            return rid, 'not-applicable', []
        try:
            ctx = stages.run_rules_on(root)
        except Exception as e:
            return rid, 'does-not-build', [str(e)[-200:]]
        v = [i for i in ctx.instances if i.verdict == 'violation']
        return rid, 'silent' if not v else 'FALSE-ALARM', ['%s %s :: %s' % (sorted(i.props), i.key, i.msg[:200]) for i in v]
    finally:
        shutil.rmtree(tmp, ignore_errors=True)

def main():
    base = '/verif/refactors'
    dirs = sorted(os.path.join(base, d) for d in os.listdir(base) if os.path.exists(os.path.join(base, d, 'patch.diff')))
    with ProcessPoolExecutor(max_workers=12) as ex:
        res = list(ex.map(one, dirs))
    bad = 0
    for rid, st, v in res:
        print('%-45s %s' % (rid, st))
        for x in v[:6]:
            print('      ' + x[:330])
        bad += st == 'FALSE-ALARM'
    print('%d refactors, %d false alarms' % (len(res), bad))

if __name__ == '__main__':
    main()
