#!/usr/bin/env python3
"""Runs every kept seeded change (/verif/seeded/*/patch.diff) through the rules on a scratch copy; prints the matrix."""
import sys, os, json, subprocess, importlib
sys.path.insert(0, '/verif/sta'); sys.path.insert(0, '/verif/sweep')
from scratch import scratch_copy
from mirlib import extract
from program import Program
from engine import Ctx
import catalog
from concurrent.futures import ProcessPoolExecutor

def one(d):
    sid = os.path.basename(d)
    meta = json.load(open(os.path.join(d, 'meta.json')))
    prop = meta['property']
    props = prop if isinstance(prop, list) else [prop]
    with scratch_copy() as root:
        p = subprocess.run('patch -p1 --no-backup-if-mismatch < %s' % os.path.join(d, 'patch.diff'), shell=True, cwd=root, capture_output=True, text=True)
        if p.returncode != 0:
            return sid, props, 'not-applicable', [], []
        try:
            prog = Program(*extract(root))
        except Exception as e:
            return sid, props, 'build-fail', [], []
        ctx = Ctx(prog)
        for name in catalog.RULE_MODULES:
            importlib.import_module('rules.' + name).run(ctx)
        import stages as _st; _st.mark_known(ctx)
        v = [i for i in ctx.instances if i.verdict == 'violation']
        hit = [i for i in v if set(props) & i.props]
        return sid, props, 'detected' if hit else 'MISSED', sorted({i.rule for i in hit}), sorted({i.rule for i in v})

def main():
    dirs = sorted(os.path.join('/verif/seeded', d) for d in os.listdir('/verif/seeded') if os.path.exists(os.path.join('/verif/seeded', d, 'patch.diff')))
    with ProcessPoolExecutor(max_workers=12) as ex:
        res = list(ex.map(one, dirs))
    for sid, props, st, rules, allr in res:
        print('%-28s %-10s %-14s %s%s' % (sid, ','.join(props), st, ','.join(rules), (' (other props: %s)' % ','.join(allr)) if st == 'MISSED' and allr else ''))
    return res

if __name__ == '__main__':
    main()
