"""Seeded single-site faults (textual edits on a scratch copy of /repo's current tree).
Each: id, property it breaks, file, old, new, [count], note.  `old` must occur exactly `count` times (default 1);
if it does not, the seed is reported as not-applicable (the tree has changed) and is never an alarm."""

SEEDS = [
    # --- reverse of the genuine defects that were repaired (D1..D7) ---------------------------
    dict(id='D1-search-value-arms', props=['C06'], file='src/key/tree.rs',
         old="""                Ordering::Less => index = self.expire_right(index, time),
                Ordering::Greater => index = self.expire_left(index, time),
            }
        }

        None""",
         new="""                Ordering::Less => index = self.expire_left(index, time),
                Ordering::Greater => index = self.expire_right(index, time),
            }
        }

        None""", note='exact lookup descends into the wrong subtree'),

    dict(id='D6-set-index-after-unguarded', props=['C09', 'C10'], file='src/set/tree.rs',
         old="""            let mut parent_index = node.parent;
            while parent_index != EMPTY_REF {
                let parent = self.node(parent_index);
                if parent.right != index {
                    break;
                }
                index = parent_index;
                parent_index = parent.parent;
            }
            parent_index""",
         new="""            let mut parent_index = node.parent;
            let mut parent = self.node(parent_index);
            while parent.right == index {
                index = parent_index;
                parent_index = parent.parent;
                parent = self.node(parent_index);
            }
            parent_index""", note='successor step dereferences the empty parent link of the root'),
    dict(id='N1-map-delete-unguarded', props=['C04', 'C10'], file='src/map/tree.rs',
         old="""        let index = self.find_index(key);
        if index != EMPTY_REF {
            self.delete_index(index);
        }""",
         new="""        let index = self.find_index(key);
        self.delete_index(index);""", note='deleting an absent key dereferences EMPTY_REF'),
    dict(id='N2-set-rotate-drop-guard', props=['C10'], file='src/set/tree.rs',
         old="""        if lt_right != EMPTY_REF {
            self.node_mut(lt_right).parent = index;
        }""",
         new="""        self.node_mut(lt_right).parent = index;""", note='rotation writes the parent of an absent inner grandchild'),
    dict(id='N3-key-uncle-red-check', props=['C10'], file='src/key/tree.rs',
         old="""        if u_index != EMPTY_REF && self.node(u_index).color == Color::Red {""",
         new="""        if self.node(u_index).color == Color::Red {""", note='absent uncle dereferenced'),
    dict(id='N4-map-is-black-guard', props=['C10'], file='src/map/tree.rs',
         old="""        index == EMPTY_REF || self.node(index).color == Color::Black""",
         new="""        self.node(index).color == Color::Black""", note='is_black dereferences absent nephews'),
    dict(id='N5-key-expire-left-guard', props=['C10'], file='src/key/tree.rs',
         old="""        let mut index = self.node(n_index).left;

        while index != EMPTY_REF {
            let node = self.node(index);
            if node.is_not_expired(time) {
                return index;
            }
            self.delete_index(index);
            index = self.node(n_index).left;
        }
        index""",
         new="""        let mut index = self.node(n_index).left;

        loop {
            let node = self.node(index);
            if node.is_not_expired(time) {
                return index;
            }
            self.delete_index(index);
            index = self.node(n_index).left;
        }""", note='gate loops without the emptiness guard'),
    dict(id='N6-set-find-left-minimum', props=['C09', 'C10'], file='src/set/tree.rs',
         old="""        if node.right != EMPTY_REF {
            self.find_left_minimum(node.right)
        } else {""",
         new="""        if node.left != EMPTY_REF {
            self.find_left_minimum(node.right)
        } else {""", note='successor step tests the wrong link'),
]
