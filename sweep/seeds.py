"""Seeded single-site faults (textual edits on a scratch copy of /repo's current tree).
Each: id, property it breaks, file, old, new, [count], note.  `old` must occur exactly `count` times (default 1);
if it does not, the seed is reported as not-applicable (the tree has changed) and is never an alarm."""

SEEDS = [
    # --- reverse of the genuine defects that were repaired (D1..D7) ---------------------------
    dict(id='D1-search-value-arms', props=['C06'], file='src/key/tree.rs',
         old="""                Ordering::Less => index = self.expire_right(index, time),
                Ordering::Greater => index = self.expire_left(index, time),
            }
        }

        None""",
         new="""                Ordering::Less => index = self.expire_left(index, time),
                Ordering::Greater => index = self.expire_right(index, time),
            }
        }

        None""", note='exact lookup descends into the wrong subtree'),

    dict(id='D6-set-index-after-unguarded', props=['C09', 'C10'], file='src/set/tree.rs',
         old="""            let mut parent_index = node.parent;
            while parent_index != EMPTY_REF {
                let parent = self.node(parent_index);
                if parent.right != index {
                    break;
                }
                index = parent_index;
                parent_index = parent.parent;
            }
            parent_index""",
         new="""            let mut parent_index = node.parent;
            let mut parent = self.node(parent_index);
            while parent.right == index {
                index = parent_index;
                parent_index = parent.parent;
                parent = self.node(parent_index);
            }
            parent_index""", note='successor step dereferences the empty parent link of the root'),
    dict(id='N1-map-delete-unguarded', props=['C04', 'C10'], file='src/map/tree.rs',
         old="""        let index = self.find_index(key);
        if index != EMPTY_REF {
            self.delete_index(index);
        }""",
         new="""        let index = self.find_index(key);
        self.delete_index(index);""", note='deleting an absent key dereferences EMPTY_REF'),
    dict(id='N2-set-rotate-drop-guard', props=['C10'], file='src/set/tree.rs',
         old="""        if lt_right != EMPTY_REF {
            self.node_mut(lt_right).parent = index;
        }""",
         new="""        self.node_mut(lt_right).parent = index;""", note='rotation writes the parent of an absent inner grandchild'),
    dict(id='N3-key-uncle-red-check', props=['C10'], file='src/key/tree.rs',
         old="""        if u_index != EMPTY_REF && self.node(u_index).color == Color::Red {""",
         new="""        if self.node(u_index).color == Color::Red {""", note='absent uncle dereferenced'),
    dict(id='N4-map-is-black-guard', props=['C10'], file='src/map/tree.rs',
         old="""        index == EMPTY_REF || self.node(index).color == Color::Black""",
         new="""        self.node(index).color == Color::Black""", note='is_black dereferences absent nephews'),
    dict(id='N5-key-expire-left-guard', props=['C10'], file='src/key/tree.rs',
         old="""        let mut index = self.node(n_index).left;

        while index != EMPTY_REF {
            let node = self.node(index);
            if node.is_not_expired(time) {
                return index;
            }
            self.delete_index(index);
            index = self.node(n_index).left;
        }
        index""",
         new="""        let mut index = self.node(n_index).left;

        loop {
            let node = self.node(index);
            if node.is_not_expired(time) {
                return index;
            }
            self.delete_index(index);
            index = self.node(n_index).left;
        }""", note='gate loops without the emptiness guard'),
    dict(id='N6-set-find-left-minimum', props=['C09', 'C10'], file='src/set/tree.rs',
         old="""        if node.right != EMPTY_REF {
            self.find_left_minimum(node.right)
        } else {""",
         new="""        if node.left != EMPTY_REF {
            self.find_left_minimum(node.right)
        } else {""", note='successor step tests the wrong link'),

    dict(id='L1-node-live-ge', props=['C01', 'C06', 'C20'], file='src/key/node.rs',
         old="self.entity.key.expiration() > time", new="self.entity.key.expiration() >= time",
         note='tree treats expiration == time as live'),
    dict(id='L2-list-retain-ge', props=['C13', 'C20'], file='src/key/list.rs',
         old="let keep = exp > time;", new="let keep = exp >= time;", note='list purge keeps expiration == time'),
    dict(id='L3-list-guard-ge', props=['C13', 'C20'], file='src/key/list.rs',
         old="if self.min_exp > time {", new="if self.min_exp >= time {", note='purge skipped when min_exp == time'),
    dict(id='L4-seg-expiry-le', props=['C03', 'C16'], file='src/seg/tree.rs',
         old="if item.val.expiration() < self.time {", new="if item.val.expiration() <= self.time {", note='seg drops values expiring exactly at t'),
    dict(id='L5-export-not-filtered', props=['C07'], file='src/key/array.rs',
         old="""                    if node.is_not_expired(time) {
                        list.push(node.entity.val);
                    }""",
         new="""                    list.push(node.entity.val);""", note='export emits expired entries'),
    dict(id='L6-export-own-predicate', props=['C07'], file='src/key/array.rs',
         old="if node.is_not_expired(time) {", new="if node.entity.key.expiration() >= time {", note='export uses a different predicate (D2 shape)'),
    dict(id='L7-gate-inverted', props=['C01', 'C06', 'C20'], file='src/key/tree.rs', count=3,
         old="            if node.is_not_expired(time) {\n                return index;\n            }\n            self.delete_index(index);",
         new="            if !node.is_not_expired(time) {\n                return index;\n            }\n            self.delete_index(index);", note='gates return expired and delete live'),

    dict(id='G1-key-search-raw-left', props=['C20', 'C01'], file='src/key/tree.rs',
         old="""                    index = self.expire_right(index, time);
                },
                _ => index = self.expire_left(index, time),""",
         new="""                    index = self.expire_right(index, time);
                },
                _ => index = self.node(index).left,""", note='first_less follows the raw left link: expired keys reach Ord::cmp'),
    dict(id='G2-key-search-raw-root', props=['C20', 'C01'], file='src/key/tree.rs',
         old="""    fn search_first_less_or_equal(&mut self, time: E, default: V, key: K) -> V {
        let mut index = self.expire_root(time);""",
         new="""    fn search_first_less_or_equal(&mut self, time: E, default: V, key: K) -> V {
        let mut index = self.root;""", note='search starts at an ungated root'),
    dict(id='G3-list-get-no-purge', props=['C13', 'C20'], file='src/key/list.rs',
         old="""    fn get_value(&mut self, time: E, key: K) -> Option<V> {
        self.clear_expired(time);""",
         new="""    fn get_value(&mut self, time: E, key: K) -> Option<V> {""", note='list lookup without purge'),
    dict(id='G4-list-insert-no-minexp', props=['C13', 'C20'], file='src/key/list.rs',
         old="""        self.min_exp = self.min_exp.min(key.expiration());
""", new="", note='cached minimum not lowered on insert: later purge skipped'),
    dict(id='G5-list-purge-minexp-max', props=['C13', 'C20'], file='src/key/list.rs',
         old="""                new_min_exp = new_min_exp.min(exp);""",
         new="""                new_min_exp = new_min_exp.max(exp);""", note='cache holds the maximum instead of the minimum after a purge'),
    dict(id='G6-key-insert-raw-descent', props=['C20', 'C01'], file='src/key/tree.rs',
         old="""            if key < self.node(index).entity.key {
                index = self.expire_left(index, time);""",
         new="""            if key < self.node(index).entity.key {
                index = self.node(index).left;""", note='insert descent left branch skips the gate'),
    dict(id='G7-gate-returns-after-delete', props=['C20', 'C01', 'C06'], file='src/key/tree.rs',
         old="""        let mut index = self.root;

        while index != EMPTY_REF {
            let node = self.node(index);
            if node.is_not_expired(time) {
                return index;
            }
            self.delete_index(index);
            index = self.root;
        }
        index""",
         new="""        let mut index = self.root;

        while index != EMPTY_REF {
            let node = self.node(index);
            if node.is_not_expired(time) {
                return index;
            }
            self.delete_index(index);
            index = self.root;
            return index;
        }
        index""", note='root gate removes only one expired root, then returns the next root untested'),

    dict(id='D5-export-capacity-shift', props=['C19'], file='src/key/array.rs',
         old="Vec::with_capacity(self.store.buffer.len() - self.store.unused.len())", new="Vec::with_capacity(8 << height)",
         note='result capacity exponential in the black height'),
    dict(id='A1-export-capacity-peak', props=['C19'], file='src/key/array.rs',
         old="Vec::with_capacity(self.store.buffer.len() - self.store.unused.len())", new="Vec::with_capacity(self.store.buffer.len())",
         note='result capacity proportional to the peak, not the current population'),
    dict(id='A2-export-capacity-square', props=['C19'], file='src/key/array.rs',
         old="Vec::with_capacity(self.store.buffer.len() - self.store.unused.len())", new="Vec::with_capacity((self.store.buffer.len() - self.store.unused.len()) * height)",
         note='n * height'),

    dict(id='R1-set-clear-keeps-root', props=['C12'], file='src/set/tree.rs',
         old="""        self.store.put_back(self.root);
        self.root = EMPTY_REF;

        let mut n = 1;""",
         new="""        self.store.put_back(self.root);

        let mut n = 1;""", note='clear releases slots but keeps root'),
    dict(id='R2-seg-clear-skips-first', props=['C12'], file='src/seg/tree.rs',
         old="for chunk in self.chunks.iter_mut() {", new="for chunk in self.chunks.iter_mut().skip(1) {", note='root bucket list survives clear'),
    dict(id='R3-maplist-clear-noop', props=['C12'], file='src/map/list.rs',
         old="""    fn clear(&mut self) {
        self.buffer.clear();""",
         new="""    fn clear(&mut self) {
        if self.buffer.len() > 64 { self.buffer.clear(); }""", note='small lists are not cleared'),
    dict(id='R4-chunk-clear-noop', props=['C12'], file='src/seg/chunk.rs',
         old="""        // self.min_exp = E::max_expiration();
        self.buffer.clear();""",
         new="""        // self.min_exp = E::max_expiration();
        self.buffer.truncate(1);""", note='bucket clear leaves one copy'),
    dict(id='I1-map-insert-swaps-payload', props=['C17'], file='src/map/tree.rs',
         old="""            // Case 5a: Uncle is black and node is left->left "outer child" of its grandparent
            self.rotate_right(g_index);""",
         new="""            // Case 5a: Uncle is black and node is left->left "outer child" of its grandparent
            let tmp = self.node(g_index).entity.clone();
            self.node_mut(g_index).entity = self.node(p_index).entity.clone();
            self.node_mut(p_index).entity = tmp;
            self.rotate_right(g_index);""", note='insert repair exchanges payloads between slots'),
    dict(id='I2-set-insert-moves-root', props=['C17'], file='src/set/tree.rs',
         old="""    fn insert_as_left(&mut self, value: V, p_index: u32) {
        let new_index = self.insert_new(value, p_index);
""",
         new="""    fn insert_as_left(&mut self, value: V, p_index: u32) {
        let new_index = self.insert_new(value, p_index);
        if p_index == self.root {
            let v = self.node(new_index).value.clone();
            let r = self.node(p_index).value.clone();
            self.node_mut(new_index).value = r;
            self.node_mut(p_index).value = v;
        }
""", note='payload swapped with the root on a special path'),

    dict(id='D3-export-slot-scan', props=['C07', 'C10', 'C11'], file='src/key/array.rs',
         old="""    fn create_ordered_list(&mut self, time: E) -> Vec<V> {
        let height""",
         new="""    fn create_ordered_list(&mut self, time: E) -> Vec<V> {
        let n = self.store.buffer.len() as u32;
        for i in 1..n {
            if self.node(i).parent != EMPTY_REF && !self.node(i).is_not_expired(time) {
                self.delete_index(i);
            }
        }
        let height""", note='purge by raw slot scan: acts on freed slots (D3 shape)'),
    dict(id='P1-map-delete-no-putback', props=['C11'], file='src/map/tree.rs',
         old="""            } else {
                self.remove_parents_child(nd_parent, delete_index);
            }
        }

        self.store.put_back(delete_index);""",
         new="""            } else {
                self.remove_parents_child(nd_parent, delete_index);
                return;
            }
        }

        self.store.put_back(delete_index);""", note='red leaf removal leaks its slot'),
    dict(id='P2-set-delete-release-wrong-slot', props=['C11'], file='src/set/tree.rs',
         old="        self.store.put_back(delete_index);", new="        self.store.put_back(index);", note='two-children removal frees the slot that now holds the successor payload'),
    dict(id='P3-key-double-putback', props=['C11'], file='src/key/tree.rs',
         old="""        } else if nd_parent == EMPTY_REF {
            self.root = EMPTY_REF;""",
         new="""        } else if nd_parent == EMPTY_REF {
            self.store.put_back(delete_index);
            self.root = EMPTY_REF;""", note='removing the last node releases its slot twice'),
    dict(id='P4-pool-grow-always', props=['C11'], file='src/map/pool.rs',
         old="""        if self.unused.is_empty() {
            self.reserve(self.unused.capacity());
        }""",
         new="""        if self.unused.len() < 2 {
            self.reserve(self.unused.capacity());
        }""", note='arena grows while a free slot exists'),
    dict(id='P5-pool-grow-range-off', props=['C11'], file='src/set/pool.rs',
         old="self.unused.extend((n..n + l).rev());", new="self.unused.extend((n..n + l - 1).rev());", note='one slot per growth step is never handed out'),
    dict(id='P6-clear-skips-right', props=['C11', 'C12'], file='src/key/tree.rs',
         old="""                if right != EMPTY_REF {
                    self.store.put_back(right);
                    n += 1;
                }
            }
        }
    }
}""",
         new="""                if right != EMPTY_REF && left == EMPTY_REF {
                    self.store.put_back(right);
                    n += 1;
                }
            }
        }
    }
}""", note='clear leaks right subtrees of nodes with two children'),
    dict(id='P7-insert-new-stale-left', props=['C11', 'C10'], file='src/map/tree.rs',
         old="""        new_node.parent = p_index;
        new_node.left = EMPTY_REF;
        new_node.right = EMPTY_REF;
        new_node.color = Color::Red;""",
         new="""        new_node.parent = p_index;
        new_node.right = EMPTY_REF;
        new_node.color = Color::Red;""", note='reused slot keeps its stale left link'),
    dict(id='P8-clear-counter', props=['C11'], file='src/set/tree.rs',
         old="""                if left != EMPTY_REF {
                    self.store.put_back(left);
                    n += 1;
                }""",
         new="""                if left != EMPTY_REF {
                    self.store.put_back(left);
                }""", note='left children released but not counted: their subtrees are never visited'),

    dict(id='S1-expire-left-uses-removed', props=['C10', 'C11', 'C01'], file='src/key/tree.rs',
         old="""            self.delete_index(index);
            index = self.node(n_index).left;""",
         new="""            self.delete_index(index);
            index = self.node(index).left;""", note='gate follows the left link of the slot it just removed'),
    dict(id='S2-expire-root-no-reread', props=['C10', 'C11', 'C01'], file='src/key/tree.rs',
         old="""            self.delete_index(index);
            index = self.root;
        }""",
         new="""            self.delete_index(index);
        }""", note='root gate keeps using the removed index'),
    dict(id='S3-search-caches-child', props=['C10', 'C11', 'C06', 'C20'], file='src/key/tree.rs',
         old="""                Ordering::Equal => return Some(entity.val),
                Ordering::Less => index = self.expire_right(index, time),""",
         new="""                Ordering::Equal => return Some(entity.val),
                Ordering::Less => {
                    let next = self.node(index).right;
                    let gated = self.expire_right(index, time);
                    index = if gated == EMPTY_REF { gated } else { next };
                },""", note='exact lookup continues with a child index read before the lazy removal'),
    dict(id='S4-insert-anchor-cached-grandchild', props=['C10', 'C11', 'C01'], file='src/key/tree.rs',
         old="""            if key < self.node(index).entity.key {
                index = self.expire_left(index, time);
                if index == EMPTY_REF {
                    self.insert_as_left(entity, p_index);
                    return;
                }""",
         new="""            if key < self.node(index).entity.key {
                let anchor = self.node(index).left;
                index = self.expire_left(index, time);
                if index == EMPTY_REF {
                    self.insert_as_left(entity, if anchor == EMPTY_REF { p_index } else { anchor });
                    return;
                }""", note='links the new node under a child that the gate has just removed'),

    dict(id='Y1-map-insert-allocates-before-descent', props=['C18'], file='src/map/tree.rs',
         old="""        let key = entity.key;

        loop {
            let p_index = index;
            let node = self.node(index);
            if key < node.entity.key {
                index = node.left;
                if index == EMPTY_REF {
                    self.insert_as_left(entity, p_index);
                    return;
                }""",
         new="""        let key = entity.key;
        let spare = self.store.get_free_index();
        self.store.put_back(spare);

        loop {
            let p_index = index;
            let node = self.node(index);
            if key < node.entity.key {
                index = node.left;
                if index == EMPTY_REF {
                    self.insert_as_left(entity, p_index);
                    return;
                }""", note='slot taken from the pool before the comparisons of the descent'),
    dict(id='Y2-set-insert-key-after-link', props=['C18'], file='src/set/tree.rs',
         old="""        let parent = self.node_mut(p_index);
        parent.right = new_index;

        if parent.color == Color::Red {
            self.fix_red_black_properties_after_insert(new_index, p_index);
        }""",
         new="""        let parent = self.node_mut(p_index);
        parent.right = new_index;

        if parent.color == Color::Red && self.node(new_index).value.key() >= self.node(p_index).value.key() {
            self.fix_red_black_properties_after_insert(new_index, p_index);
        }""", note='user comparison between linking and repair'),
    dict(id='Y3-seg-insert-expiration-in-loop', props=['C18'], file='src/seg/tree.rs',
         old="""        for index in BitIter::new(mask) {
            self.chunk_mut(index).insert(entity);
        }""",
         new="""        for index in BitIter::new(mask) {
            if entity.val.expiration() == E::max_expiration() {
                continue;
            }
            self.chunk_mut(index).insert(entity);
        }""", note='expiration accessor called between the pushes of one insert'),
    dict(id='Y4-keylist-insert-push-sort', props=['C18'], file='src/key/list.rs',
         old="""        let index = self
            .buffer
            .binary_search_by_key(&key, |e| e.key)
            .unwrap_or_else(|index| index);
        self.buffer.insert(index, Entity::new(key, val));
    }

    #[inline]
    fn get_value""",
         new="""        self.buffer.push(Entity::new(key, val));
        self.buffer.sort_by(|a, b| a.key.cmp(&b.key));
    }

    #[inline]
    fn get_value""", note='push then sort_by with the user ordering: a panicking cmp leaves the new entry at the wrong place'),
    dict(id='Y5-key-delete-compare-in-removal', props=['C18'], file='src/key/tree.rs',
         old="""            self.node_mut(index).entity = entity;

            delete_index = successor_index;""",
         new="""            self.node_mut(index).entity = entity;
            debug_assert!(self.node(index).entity.key <= entity.key);

            delete_index = successor_index;""", note='key comparison after the payload move inside the removal (debug builds)'),

    dict(id='T1-set-case5-recolor', props=['C02'], file='src/set/tree.rs',
         old="""            if sibling_right != EMPTY_REF {
                self.node_mut(sibling_right).color = Color::Black;
            }
            self.node_mut(s_index).color = Color::Red;
            self.rotate_left(s_index);""",
         new="""            if sibling_right != EMPTY_REF {
                self.node_mut(sibling_right).color = Color::Black;
            }
            self.node_mut(s_index).color = Color::Black;
            self.rotate_left(s_index);""", note='delete repair case 5 (right-hand mirror) recolours the sibling black'),
    dict(id='T2-map-rotate-left-parent', props=['C02'], file='src/map/tree.rs',
         old="""        let node = self.node_mut(index);
        node.right = rt_left;
        node.parent = rt_index;""",
         new="""        let node = self.node_mut(index);
        node.right = rt_left;""", note='rotate_left does not re-parent the rotated node'),
    dict(id='T3-key-insert-case5b-colour', props=['C02'], file='src/key/tree.rs',
         old="""            // Case 5b: Uncle is black and node is right->right "outer child" of its grandparent
            self.rotate_left(g_index);

            // Recolor original parent and grandparent
            self.node_mut(p_index).color = Color::Black;
            self.node_mut(g_index).color = Color::Red;""",
         new="""            // Case 5b: Uncle is black and node is right->right "outer child" of its grandparent
            self.rotate_left(g_index);

            // Recolor original parent and grandparent
            self.node_mut(p_index).color = Color::Black;
            self.node_mut(g_index).color = Color::Black;""", note='insert repair 5b leaves the grandparent black'),
    dict(id='T4-set-red-sibling-rotation', props=['C02'], file='src/set/tree.rs',
         old="""        if n_index == parent.left {
            self.rotate_left(p_index)
        } else {
            self.rotate_right(p_index)
        }""",
         new="""        if n_index == parent.left {
            self.rotate_left(p_index)
        } else {
            self.rotate_left(p_index)
        }""", note='red-sibling case rotates left in both mirrors'),
    dict(id='T5-map-delete-colour-of-successor', props=['C02'], file='src/map/tree.rs',
         old="""            nd_right = successor.right;
            nd_color = successor.color;
""",
         new="""            nd_right = successor.right;
""", note='two-children removal judges by the colour of the removed node instead of the successor'),
    dict(id='T6-set-get-sibling', props=['C02'], file='src/set/tree.rs',
         old="""        if n_index == parent.left {
            parent.right
        } else {
            parent.left
        }""",
         new="""        if n_index == parent.left {
            parent.right
        } else {
            parent.right
        }""", note='sibling of a right child is computed wrongly'),
    dict(id='T7-key-case6-nephew', props=['C02'], file='src/key/tree.rs',
         old="""        } else {
            if sibling_left != EMPTY_REF {
                self.node_mut(sibling_left).color = Color::Black;
            }
            self.rotate_right(p_index)
        }""",
         new="""        } else {
            self.rotate_right(p_index)
        }""", note='case 6 (right-hand mirror) forgets to blacken the outer nephew'),
    dict(id='T8-map-uncle', props=['C02'], file='src/map/tree.rs',
         old="""        if grandparent.left == p_index {
            grandparent.right
        } else {
            grandparent.left
        }""",
         new="""        if grandparent.left == p_index {
            grandparent.right
        } else {
            grandparent.right
        }""", note='uncle of a right-hand parent is the parent itself'),
    dict(id='T9-set-insert-fix-recursion', props=['C02'], file='src/set/tree.rs',
         old="""            if gg_index != EMPTY_REF && self.node(gg_index).color == Color::Red {
                self.fix_red_black_properties_after_insert(g_index, gg_index);
            }""",
         new="""            if gg_index != EMPTY_REF && self.node(gg_index).color == Color::Black {
                self.fix_red_black_properties_after_insert(g_index, gg_index);
            }""", note='red-uncle recursion continues on the wrong colour'),

    dict(id='LS1-maplist-pred-err-no-minus', props=['C13'], file='src/map/list.rs',
         old="""    fn first_index_less(&self, key: K) -> u32 {
        match self.buffer.binary_search_by(|e| e.key.cmp(&key)) {
            Ok(index) => index as u32,
            Err(index) => {
                if index > 0 {
                    (index - 1) as u32""",
         new="""    fn first_index_less(&self, key: K) -> u32 {
        match self.buffer.binary_search_by(|e| e.key.cmp(&key)) {
            Ok(index) => index as u32,
            Err(index) => {
                if index > 0 {
                    index as u32""", note='predecessor of a probe in a gap is the successor position'),
    dict(id='LS2-keylist-first-less-reversed', props=['C13'], file='src/key/list.rs',
         old="""        let index = self.buffer
            .binary_search_by(|e| e.key.cmp(&key))
            .unwrap_or_else(|index| index);""",
         new="""        let index = self.buffer
            .binary_search_by(|e| key.cmp(&e.key))
            .unwrap_or_else(|index| index);""", note='comparator orientation reversed'),
    dict(id='LS3-keylist-first-less-gt1', props=['C13'], file='src/key/list.rs',
         old="""        if index > 0 {
            unsafe { self.buffer.get_unchecked(index - 1) }.val
        } else {
            default
        }
    }

    #[inline]
    fn first_less_or_equal(""",
         new="""        if index > 1 {
            unsafe { self.buffer.get_unchecked(index - 1) }.val
        } else {
            default
        }
    }

    #[inline]
    fn first_less_or_equal(""", note='first_less ignores the smallest entry'),
    dict(id='LS4-setlist-delete-swap-remove', props=['C13'], file='src/set/list.rs',
         old="""        if let Ok(index) = self.buffer.binary_search_by_key(key, |v| *v.key()) {
            self.buffer.remove(index);
        }""",
         new="""        if let Ok(index) = self.buffer.binary_search_by_key(key, |v| *v.key()) {
            self.buffer.swap_remove(index);
        }""", note='delete breaks the sort order'),
    dict(id='LS5-maplist-insert-after-equal', props=['C13'], file='src/map/list.rs',
         old="""            .binary_search_by_key(&key, |e| e.key)
            .unwrap_or_else(|index| index);
        self.buffer.insert(index, Entity::new(key, val));""",
         new="""            .binary_search_by_key(&key, |e| e.key)
            .unwrap_or_else(|index| index.saturating_sub(1));
        self.buffer.insert(index, Entity::new(key, val));""", note='insert position off by one'),
    dict(id='LS6-setlist-pred-ok-minus', props=['C13', 'C08'], file='src/set/list.rs',
         old="""        match self.buffer.binary_search_by(|v| f(v.key())) {
            Ok(index) => index as u32,""",
         new="""        match self.buffer.binary_search_by(|v| f(v.key())) {
            Ok(index) => if index > 0 { (index - 1) as u32 } else { EMPTY_REF },""", note='comparator form returns the strict predecessor on equality'),

    dict(id='D7-setlist-steps-bare', props=['C13', 'C10'], file='src/set/list.rs',
         old="""        if (index as usize) + 1 < self.buffer.len() {
            index + 1
        } else {
            EMPTY_REF
        }""",
         new="""        index + 1""", note='step past the last position returns a non-existent position (D7)'),
    dict(id='E1-setlist-after-le', props=['C13'], file='src/set/list.rs',
         old="if (index as usize) + 1 < self.buffer.len() {", new="if (index as usize) + 1 <= self.buffer.len() {", note='off by one at the last position'),
    dict(id='E2-setlist-before-ge1', props=['C13'], file='src/set/list.rs',
         old="""        if index > 0 {
            index - 1
        } else {
            EMPTY_REF
        }""",
         new="""        if index > 1 {
            index - 1
        } else {
            EMPTY_REF
        }""", note='predecessor of position 1 is reported as none'),
    dict(id='NB1-set-after-climb-wrong-side', props=['C09'], file='src/set/tree.rs',
         old="""                let parent = self.node(parent_index);
                if parent.right != index {
                    break;
                }""",
         new="""                let parent = self.node(parent_index);
                if parent.left != index {
                    break;
                }""", note='successor climb continues while arriving from the left'),
    dict(id='CL1-set-after-climb-node-is-new-parent', props=['C09', 'C02'], file='src/set/tree.rs',
         old="""                if parent.right != index {
                    break;
                }
                index = parent_index;
                parent_index = parent.parent;""",
         new="""                if parent.right != index {
                    break;
                }
                parent_index = parent.parent;
                index = parent_index;""", note='node cursor advanced to the new parent (order of the two updates swapped)'),
    dict(id='SZ1-seg-count-half-open', props=['C10'], file='src/seg/layout.rs',
         old="""        let order = self.index(self.max);""",
         new="""        let order = self.index(self.max - 1);""", note='number of lists computed for a half-open domain: the bucket of the maximum has no list when it is alone in its bucket'),
    dict(id='SZ3-seg-ctor-one-list-short', props=['C10'], file='src/seg/tree.rs',
         old="""            chunks: vec![Chunk::new(); count],""",
         new="""            chunks: vec![Chunk::new(); count - 1],""", note='the constructor allocates one list fewer than the layout counts (the tests never touch the last bucket of a domain)'),
    dict(id='FR1-map-insert-new-keeps-left', props=['C02', 'C04'], file='src/map/tree.rs',
         old="""        new_node.parent = p_index;
        new_node.left = EMPTY_REF;
        new_node.right = EMPTY_REF;
        new_node.color = Color::Red;""",
         new="""        new_node.parent = p_index;
        new_node.right = EMPTY_REF;
        new_node.color = Color::Red;""", note='a recycled slot keeps the left link of its previous life (the map tests only delete the entry inserted last, whose links are empty)'),
    dict(id='DR1-key-expire-root-drops-last-node', props=['C11'], file='src/key/tree.rs',
         old="""                return index;
            }
            self.delete_index(index);
            index = self.root;""",
         new="""                return index;
            }
            if node.left == EMPTY_REF && node.right == EMPTY_REF {
                self.root = EMPTY_REF;
                return EMPTY_REF;
            }
            self.delete_index(index);
            index = self.root;""", note='the last expired entry is cut off without being released: one slot lost each time the tree runs empty through expiry'),
    dict(id='RT1-set-delete-repair-root-parent-test', props=['C02'], file='src/set/tree.rs',
         old="""        // Case 1: Examined node is root, end of recursion
        if n_index == self.root {
            // do not color root to black
            return;
        }

        let mut s_index = self.get_sibling(n_index);""",
         new="""        // Case 1: Examined node is root, end of recursion
        if self.node(self.root).parent == EMPTY_REF {
            // do not color root to black
            return;
        }

        let mut s_index = self.get_sibling(n_index);""", note='"is the root" written as a test of the root\'s own parent link: always true, the removal repair never runs (the tests never need it)'),
    dict(id='PG1-key-expire-root-no-removal', props=['C10'], file='src/key/tree.rs',
         old="""                return index;
            }
            self.delete_index(index);
            index = self.root;""",
         new="""                return index;
            }
            index = self.root;""", note='purge loop of the root no longer removes the expired node: the loop re-reads the same root forever'),
    dict(id='PG2-key-height-cursor-not-advanced', props=['C10'], file='src/key/array.rs',
         old="""            node = self.node(node.left);
            if node.color == Color::Black {""",
         new="""            if node.color == Color::Black {""", note='height(): the cursor is no longer advanced, the walk down the left spine never ends'),
    dict(id='NB2-set-after-right-minimum', props=['C09'], file='src/set/tree.rs',
         old="""        if node.right != EMPTY_REF {
            self.find_left_minimum(node.right)""",
         new="""        if node.right != EMPTY_REF {
            self.find_right_minimum(node.right)""", note='successor is the maximum of the right subtree'),
    dict(id='NB3-set-before-returns-index', props=['C09'], file='src/set/tree.rs',
         old="""                if parent.left != index {
                    break;
                }
                index = parent_index;
                parent_index = parent.parent;
            }
            parent_index""",
         new="""                if parent.left != index {
                    break;
                }
                index = parent_index;
                parent_index = parent.parent;
            }
            if parent_index == EMPTY_REF { parent_index } else { index }""", note='predecessor climb returns the last child instead of the parent'),
    dict(id='H1-map-value-by-index-root', props=['C08'], file='src/map/tree.rs',
         old="""    fn value_by_index(&self, index: u32) -> &V {
        &self.node(index).entity.val""",
         new="""    fn value_by_index(&self, index: u32) -> &V {
        &self.node(if index == NIL_INDEX { self.root } else { index }).entity.val""", note='handle 0 silently redirected'),
    dict(id='H2-setlist-delete-by-index-swap', props=['C08', 'C13'], file='src/set/list.rs',
         old="""    fn delete_by_index(&mut self, index: u32) {
        self.buffer.remove(index as usize);""",
         new="""    fn delete_by_index(&mut self, index: u32) {
        self.buffer.swap_remove(index as usize);""", note='delete by handle breaks order'),
    dict(id='H3-set-delete-by-index-successor', props=['C08'], file='src/set/tree.rs',
         old="""    fn delete_by_index(&mut self, index: u32) {
        self.delete_index(index);""",
         new="""    fn delete_by_index(&mut self, index: u32) {
        let n = self.node(index);
        let target = if n.left != EMPTY_REF && n.right == EMPTY_REF { n.left } else { index };
        self.delete_index(target);""", note='deleting by handle removes the left child in one shape'),

    dict(id='SF1-seg-next-advance-after-remove', props=['C03', 'C16'], file='src/seg/tree.rs',
         old="""                if item.val.expiration() < self.time {
                    chunk.buffer.swap_remove(i);
                    continue
                }
                i += 1;""",
         new="""                if item.val.expiration() < self.time {
                    chunk.buffer.swap_remove(i);
                    i += 1;
                    continue
                }
                i += 1;""", note='cursor advanced after swap_remove: the swapped-in element is skipped'),
    dict(id='SF2-seg-dedupe-self-mask', props=['C03'], file='src/seg/tree.rs',
         old="let mask_int = item.mask & self.mask;", new="let mask_int = item.mask;", note='de-duplication ignores the query mask: values stored above the visited places are lost'),
    dict(id='SF3-seg-insert-intersect-mask', props=['C03'], file='src/seg/tree.rs',
         old="let mask = self.layout.insert_mask(range.min.into(), range.max.into());", new="let mask = self.layout.intersect_mask(range.min.into(), range.max.into());",
         note='insert stores at the visit places (ancestors) instead of the tiling places'),
    dict(id='SF4-seg-position-not-advanced', props=['C03'], file='src/seg/tree.rs',
         old="""                if first_index == self.i0 {
                    self.i1 = i;""",
         new="""                if first_index == self.i0 {
                    self.i1 = i - 1;""", note='resumed iterator reports the same copy again'),
    dict(id='SF5-seg-swapped-range-args', props=['C03'], file='src/seg/tree.rs',
         old="let mask = self.layout.intersect_mask(range.min.into(), range.max.into());", new="let mask = self.layout.intersect_mask(range.max.into(), range.min.into());",
         note='query range passed as (max, min)'),
    dict(id='U1-keylist-err-unguarded', props=['C10', 'C13'], file='src/key/list.rs',
         old="""            Err(index) => {
                if index > 0 {
                    unsafe { self.buffer.get_unchecked(index - 1) }.val
                } else {
                    default
                }
            }
        }
    }

    #[inline]
    fn first_less_or_equal_by""",
         new="""            Err(index) => {
                if index < self.buffer.len() {
                    unsafe { self.buffer.get_unchecked(index) }.val
                } else {
                    default
                }
            }
        }
    }

    #[inline]
    fn first_less_or_equal_by""", note='Err(i) read at i: wrong element and, combined with later edits, out of bounds'),
    dict(id='U2-seg-entity-stale-len', props=['C10'], file='src/seg/tree.rs',
         old="""            let mut i = self.i1;
            while i < chunk.buffer.len() {""",
         new="""            let mut i = self.i1;
            let n = chunk.buffer.len();
            while i < n {""", note='length read once before the scan: after a swap_remove the scan reads past the end'),
    dict(id='E3-setlist-before-unguarded', props=['C10', 'C13'], file='src/set/list.rs',
         old="""        if index > 0 {
            index - 1
        } else {
            EMPTY_REF
        }""",
         new="""        index - 1""", note='0 - 1 overflows in debug builds (D7 second half)'),

    dict(id='K1-all-rotate-right-grandchild-parent', props=['C02'], file='src/map/tree.rs',
         old="""        if lt_right != EMPTY_REF {
            self.node_mut(lt_right).parent = index;
        }
""", new="", note='rotate_right forgets to re-parent the inner grandchild (map copy)'),
    dict(id='K2-key-insert-new-black', props=['C02'], file='src/key/tree.rs',
         old="""        new_node.right = EMPTY_REF;
        new_node.color = Color::Red;
        new_node.entity = entity;

        new_index""",
         new="""        new_node.right = EMPTY_REF;
        new_node.color = Color::Black;
        new_node.entity = entity;

        new_index""", note='new non-root nodes are black'),
    dict(id='K3-set-nil-not-unlinked-on-red-parent', props=['C02', 'C11'], file='src/set/tree.rs',
         old="""                self.fix_red_black_properties_after_delete(NIL_INDEX);
                self.fix_parents_nil_child();""",
         new="""                self.fix_red_black_properties_after_delete(NIL_INDEX);
                if self.node(nd_parent).color == Color::Black {
                    self.fix_parents_nil_child();
                }""", note='sentinel stays linked when the parent ends up red'),
    dict(id='K4-map-replace-child-no-parent', props=['C02'], file='src/map/tree.rs',
         old="""    fn replace_parents_child(&mut self, parent: u32, old_child: u32, new_child: u32) {
        self.node_mut(new_child).parent = parent;""",
         new="""    fn replace_parents_child(&mut self, parent: u32, old_child: u32, new_child: u32) {""", note='replacement child keeps its old parent link'),

    dict(id='IO2-export-swapped-children', props=['C07'], file='src/key/array.rs',
         old="""        Self {
            index,
            left: node.left,
            right: node.right,
        }""",
         new="""        Self {
            index,
            left: node.right,
            right: node.left,
        }""", note='frames swap the children: export in descending order'),
    dict(id='IO3-export-emit-before-left', props=['C07'], file='src/key/array.rs',
         old="""            if s.left != EMPTY_REF {
                // go down left
                let index = s.left;
                // to skip next time
                s.left = EMPTY_REF;

                stack.push(StackNode::new(index, self.node(index)));
            } else {
                if s.index != EMPTY_REF {
                    let index = s.index;
                    // to skip next time
                    s.index = EMPTY_REF;

                    let node = self.node(index);

                    if node.is_not_expired(time) {
                        list.push(node.entity.val);
                    }
                }
""",
         new="""            if s.index != EMPTY_REF {
                let index = s.index;
                // to skip next time
                s.index = EMPTY_REF;

                let node = self.node(index);

                if node.is_not_expired(time) {
                    list.push(node.entity.val);
                }
            }
            if s.left != EMPTY_REF {
                // go down left
                let index = s.left;
                // to skip next time
                s.left = EMPTY_REF;

                stack.push(StackNode::new(index, self.node(index)));
            } else {
""", note='pre-order instead of in-order'),
    dict(id='IO4-export-left-not-cleared', props=['C07', 'C10'], file='src/key/array.rs',
         old="""                let index = s.left;
                // to skip next time
                s.left = EMPTY_REF;
""",
         new="""                let index = s.left;
""", note='left child pushed again and again (hang)'),

    dict(id='EN1-map-delete-split-entity', props=['C04'], file='src/map/tree.rs',
         old="""            self.node_mut(index).entity = entity;
""",
         new="""            self.node_mut(index).entity.key = entity.key;
            self.node_mut(index).entity.val = self.node(nd_right).entity.val.clone();
""", note='two-children removal takes the key from the successor and the value from the right child'),

    # --- BYPASS: answers given in front of the search (round 6) -------------------------------------------------
    dict(id='BP1-maplist-pred-fast-path-equal', props=['C13'], file='src/map/list.rs',
         old="""    fn first_index_less(&self, key: K) -> u32 {
        match self.buffer.binary_search_by(|e| e.key.cmp(&key)) {""",
         new="""    fn first_index_less(&self, key: K) -> u32 {
        match self.buffer.first() {
            Some(first) if first.key < key => {}
            _ => return EMPTY_REF,
        }
        match self.buffer.binary_search_by(|e| e.key.cmp(&key)) {""", note='early-out also taken when the probe equals the first key'),
    dict(id='BP2-maptree-pred-fast-path-equal', props=['C08'], file='src/map/tree.rs',
         old="""    fn search_first_less(&self, key: K) -> u32 {
        let mut index = self.root;
        let mut result = EMPTY_REF;
""",
         new="""    fn search_first_less(&self, key: K) -> u32 {
        let mut index = self.root;
        let mut result = EMPTY_REF;
        if index != EMPTY_REF {
            let root = self.node(index);
            if root.left == EMPTY_REF && key <= root.entity.key {
                return EMPTY_REF;
            }
        }
""", note='fast path before the descent answers "none" for a probe equal to the root key'),
    dict(id='BP3-keytree-get-value-time-shortcut', props=['C06'], file='src/key/tree.rs',
         old="""    fn search_value(&mut self, time: E, key: K) -> Option<V> {
""",
         new="""    fn search_value(&mut self, time: E, key: K) -> Option<V> {
        if key.expiration() <= time {
            return None;
        }
""", note='lookup answers from the probe alone (a probe with an earlier expiration than the stored equal key)'),
    dict(id='BP4-setlist-get-value-last-shortcut', props=['C13'], file='src/set/list.rs',
         old="""    fn get_value(&self, key: &K) -> Option<&V> {
""",
         new="""    fn get_value(&self, key: &K) -> Option<&V> {
        if let Some(last) = self.buffer.last() {
            if last.key() <= key {
                return None;
            }
        }
""", note='early-out "probe above the last key" also taken when equal'),

    # --- DEFICIT: the climb of the removal repair (round 6/7) ---------------------------------------------------
    dict(id='DF1-set-case4-no-handover', props=['C02', 'C10'], file='src/set/tree.rs',
         old="""                // Case 4: Black sibling with two black children + black parent
                self.fix_red_black_properties_after_delete(p_index);""",
         new="""                // Case 4: Black sibling with two black children + black parent""", note='the deficit is not handed to a black parent'),
    dict(id='DF2-key-case4-wrong-node', props=['C02', 'C10'], file='src/key/tree.rs',
         old="""                // Case 4: Black sibling with two black children + black parent
                self.fix_red_black_properties_after_delete(p_index);""",
         new="""                // Case 4: Black sibling with two black children + black parent
                self.fix_red_black_properties_after_delete(s_index);""", note='the repair continues with the sibling instead of the parent'),
    dict(id='DF3-map-case3-unconditional-black', props=['C02', 'C10'], file='src/map/tree.rs',
         old="""            if parent.color == Color::Red {
                parent.color = Color::Black;
            } else {
                // Case 4: Black sibling with two black children + black parent
                self.fix_red_black_properties_after_delete(p_index);
            }""",
         new="""            parent.color = Color::Black;""", note='parent painted black unconditionally, no climb'),

    # --- C14: skeleton of the layout arithmetic (round 8) ----------------------------------------------------------
    dict(id='LY1-layout-refuses-up-to-31-points', props=['C14'], file='src/seg/layout.rs',
         old="""        if len < Heap32::POWER as usize {""",
         new="""        if len < 32 {""", note='domains of 17..31 points are refused'),
    dict(id='LY2-layout-threshold-le', props=['C14'], file='src/seg/layout.rs',
         old="""        if p < Heap32::POWER {""",
         new="""        if p + 1 < Heap32::POWER {""", note='8..16 points get a degenerate layout (and the shift underflows)'),
    dict(id='LY3-layout-exponent-from-len', props=['C14'], file='src/seg/layout.rs',
         old="""        let p = (len - 1).ilog2() + 1;""",
         new="""        let p = len.ilog2() + 1;""", note='bucket width twice the minimum for lengths that are a power of two'),
    dict(id='LY4-layout-index-from-max', props=['C14'], file='src/seg/layout.rs',
         old="""        ((value - self.min) >> self.scale) as u32""",
         new="""        ((self.max - value) >> self.scale) as u32""", note='position counted from the maximum: not monotone'),
    dict(id='LY5-layout-exponent-short', props=['C14', 'C10'], file='src/seg/layout.rs',
         old="""        let p = (len - 1).ilog2() + 1;""",
         new="""        let p = (len - 2).ilog2() + 1;""", note='hi can map to bucket 32'),

    # --- REDRED: the insert repair follows the red node it pushes up ------------------------------------------------
    dict(id='RR1-set-insert-repair-no-climb', props=['C02'], file='src/set/tree.rs',
         old="""            if gg_index != EMPTY_REF && self.node(gg_index).color == Color::Red {
                self.fix_red_black_properties_after_insert(g_index, gg_index);
            }""",
         new="""            let _ = gg_index;""", note='the red grandparent is left under a red great-grandparent'),
    dict(id='RR2-key-insert-repair-climb-on-black', props=['C02'], file='src/key/tree.rs',
         old="""            if gg_index != EMPTY_REF && self.node(gg_index).color == Color::Red {""",
         new="""            if gg_index != EMPTY_REF && self.node(gg_index).color == Color::Black {""", note='continues only when nothing is wrong, stops when two reds meet'),

    dict(id='SF9-seg-iter-literal-start-place', props=['C03'], file='src/seg/tree.rs',
         old="""        iter.i0 = iter.find_next_not_empty_chunk();
""",
         new="""""", note='the iterator starts at place 0 without consuming its bit: the root list is scanned twice'),

    # --- clause probes written in the last round: one seed per clause of section 4 that had none -------------------------
    dict(id='PB1-seg-insert-stores-other-mask', props=['C03'], file='src/seg/tree.rs',
         old="""        let entity = Entity::new(val, mask);""",
         new="""        let entity = Entity::new(val, mask | 1);""", note='the copies carry a mask that is not the mask whose bits select the lists'),
    dict(id='PB2-seg-iter-mask-field-differs', props=['C03'], file='src/seg/tree.rs',
         old="""            mask,
            bit_iter: BitIter::new(mask),""",
         new="""            mask: mask | 1,
            bit_iter: BitIter::new(mask),""", note='de-duplication mask differs from the mask that drives the scan'),
    dict(id='PB3-seg-dedupe-against-position', props=['C03'], file='src/seg/tree.rs',
         old="""                if first_index == self.i0 {""",
         new="""                if first_index == self.i1 {""", note='first common place compared with the position instead of the place'),
    dict(id='PB4-seg-query-time-not-passed', props=['C03', 'C16'], file='src/seg/tree.rs',
         old="""        SegExpTreeIterator::new(mask, time, self)""",
         new="""        let _ = time;
        SegExpTreeIterator::new(mask, E::max_expiration(), self)""", note='the query does not scan with its own time'),
    dict(id='PB5-chunk-insert-twice', props=['C03', 'C16'], file='src/seg/chunk.rs',
         old="""        self.buffer.push(entity);""",
         new="""        self.buffer.push(entity.clone());
        self.buffer.push(entity);""", count=1, note='two copies per selected list'),
    dict(id='PB6-map-is-empty-inverted', props=['C04'], file='src/map/tree.rs',
         old="""        self.root == EMPTY_REF
    }""",
         new="""        self.root != EMPTY_REF
    }""", note='emptiness inverted'),
    dict(id='PB7-set-pool-put-back-conditional', props=['C11'], file='src/set/pool.rs',
         old="""        self.unused.push(index)""",
         new="""        if index != 0 { self.unused.push(index) }""", note='release function that does not always release'),
    dict(id='PB8-key-search-recolours', props=['C18', 'C02'], file='src/key/tree.rs',
         old="""    fn search_value(&mut self, time: E, key: K) -> Option<V> {
        let mut index = self.expire_root(time);
""",
         new="""    fn search_value(&mut self, time: E, key: K) -> Option<V> {
        let mut index = self.expire_root(time);
        if index != EMPTY_REF {
            self.node_mut(index).color = Color::Black;
        }
""", note='a searcher writes the arena directly'),
    dict(id='PB9-keylist-clear-keeps-buffer', props=['C12'], file='src/key/list.rs',
         old="""        self.buffer.clear();""",
         new="""        self.buffer.truncate(1);""", note='clear leaves an entry behind'),
    dict(id='PB10-map-value-by-index-mut-other-slot', props=['C08'], file='src/map/tree.rs',
         old="""    fn value_by_index_mut(&mut self, index: u32) -> &mut V {
        &mut self.node_mut(index).entity.val""",
         new="""    fn value_by_index_mut(&mut self, index: u32) -> &mut V {
        let index = self.root.max(index);
        &mut self.node_mut(index).entity.val""", note='writes through a handle land in another slot'),

    dict(id='PB11-set-successor-from-left-subtree', props=['C05'], file='src/set/tree.rs',
         old="""            let successor_index = self.find_left_minimum(nd_right);""",
         new="""            let successor_index = self.find_left_minimum(nd_left);""", note='the entry moved up is not the in-order successor'),
    dict(id='PB12-chunk-is-empty-off-by-one', props=['C03', 'C16'], file='src/seg/chunk.rs',
         old="""        self.buffer.is_empty()""",
         new="""        self.buffer.len() <= 1""", note='a list with one entry counts as empty and is skipped'),
    dict(id='PB13-map-find-left-minimum-walks-right', props=['C04'], file='src/map/tree.rs',
         old="""        while self.node(i).left != EMPTY_REF {
            i = self.node(i).left;
        }
        i""",
         new="""        while self.node(i).right != EMPTY_REF {
            i = self.node(i).right;
        }
        i""", note='the successor search walks the wrong way'),

    dict(id='PB14-map-replace-child-no-parent-write', props=['C02'], file='src/map/tree.rs',
         old="""        self.node_mut(new_child).parent = parent;
        if parent == EMPTY_REF {""",
         new="""        if parent == EMPTY_REF {""", note='the moved-up child keeps its old parent link'),
    dict(id='PB15-map-rotate-right-no-parent-of-node', props=['C02'], file='src/map/tree.rs',
         old="""        node.left = lt_right;
        node.parent = lt_index;""",
         new="""        node.left = lt_right;""", note='the rotated node keeps its old parent link'),
    dict(id='PB16-map-insert-as-left-links-right', props=['C04'], file='src/map/tree.rs',
         old="""        parent.left = new_index;""",
         new="""        parent.right = new_index;""", note='a key below its parent is linked as right child'),
    dict(id='PB17-map-delete-successor-payload-not-moved', props=['C04'], file='src/map/tree.rs',
         old="""            self.node_mut(index).entity = entity;
""",
         new="""            let _ = entity;
""", note='two-children removal frees the successor without moving its entry: the removed key stays, the successor key is lost'),
    dict(id='PB19-map-nil-not-unlinked', props=['C02'], file='src/map/tree.rs',
         old="""                self.fix_red_black_properties_after_delete(NIL_INDEX);
                self.fix_parents_nil_child();""",
         new="""                self.fix_red_black_properties_after_delete(NIL_INDEX);""", note='the sentinel stays linked'),

    dict(id='PB20-list-export-reversed', props=['C07', 'C13'], file='src/key/array.rs',
         old="""        self.buffer.iter().map(|e|e.val).collect()""",
         new="""        self.buffer.iter().rev().map(|e|e.val).collect()""", note='the list exports in decreasing key order'),
    dict(id='PB21-list-export-skips-first', props=['C07', 'C13'], file='src/key/array.rs',
         old="""        self.buffer.iter().map(|e|e.val).collect()""",
         new="""        self.buffer.iter().skip(1).map(|e|e.val).collect()""", note='the list export drops the smallest entry'),
    dict(id='PB22-tree-export-takes-time-zero', props=['C07'], file='src/key/array.rs',
         old="""        self.create_ordered_list(time)""",
         new="""        let _ = time;
        self.create_ordered_list(E::max_expiration())""", note='the tree export filters with another time than the caller gave'),
    dict(id='PB23-keylist-get-value-other-time', props=['C13', 'C20'], file='src/key/list.rs',
         old="""    fn get_value(&mut self, time: E, key: K) -> Option<V> {
        self.clear_expired(time);""",
         new="""    fn get_value(&mut self, time: E, key: K) -> Option<V> {
        self.clear_expired(key.expiration().min(time));""", note='the purge runs with a time that can lie before the query time'),

    dict(id='PB24-set-lookup-returns-root-value', props=['C05'], file='src/set/tree.rs',
         old="""                Ordering::Equal => return Some(&node.value),
                Ordering::Less => index = node.left,
                Ordering::Greater => index = node.right,
            }
        }

        None""",
         new="""                Ordering::Equal => return Some(&self.node(self.root).value),
                Ordering::Less => index = node.left,
                Ordering::Greater => index = node.right,
            }
        }

        None""", note='a found key yields the value stored at the root'),
    dict(id='PB25-set-value-by-index-parent', props=['C08'], file='src/set/tree.rs',
         old="""    fn value_by_index(&self, index: u32) -> &V {
        &self.node(index).value""",
         new="""    fn value_by_index(&self, index: u32) -> &V {
        let index = self.node(index).left.min(index);
        &self.node(index).value""", note='reading through a handle yields a neighbouring entry'),
    dict(id='PB26-map-get-value-wrapper-other-key', props=['C04'], file='src/map/tree.rs',
         old="""    fn get_value(&self, key: K) -> Option<&V> {""",
         new="""    fn get_value(&self, key: K) -> Option<&V> {
        let key = if self.root != EMPTY_REF { self.node(self.root).entity.key.max(key) } else { key };""", note='the wrapper looks up another key than it was asked for'),

    # ---- HEAPMASK (C15): the two mask walks over the implicit bucket heap ----
    dict(id='HM1-visit-and-instead-of-or', props=['C15'], file='src/seg/heap.rs', old="""                let pt_bit = lt_bit | rt_bit;""", new="""                let pt_bit = lt_bit & rt_bit;""", note='a node is visited only when both children are'),
    dict(id='HM2-place-or-instead-of-and', props=['C15'], file='src/seg/heap.rs', old="""                let pt_bit = lt_bit & rt_bit;""", new="""                let pt_bit = lt_bit | rt_bit;""", note='a parent absorbs a single selected child: the value is stored above its range'),
    dict(id='HM3-place-right-emitted-at-left', props=['C15'], file='src/seg/heap.rs', old="""                m |= (rt_bit ^ pt_bit) << rt;""", new="""                m |= (rt_bit ^ pt_bit) << lt;""", note='an unabsorbed right child is emitted at its left sibling'),
    dict(id='HM4-visit-stops-two-levels-early', props=['C15'], file='src/seg/heap.rs', old="""        let mut shift = 32;
        for _ in 0..6 {
            let mut lt = shift - 1;
            shift >>= 1; // 16
            for _ in 0..shift {
                let rt = lt + 1;
                let pt = lt >> 1;

                let lt_bit = (w >> lt) & 1;
                let rt_bit = (w >> rt) & 1;
                let pt_bit = lt_bit | rt_bit;""", new="""        let mut shift = 32;
        for _ in 0..3 {
            let mut lt = shift - 1;
            shift >>= 1; // 16
            for _ in 0..shift {
                let rt = lt + 1;
                let pt = lt >> 1;

                let lt_bit = (w >> lt) & 1;
                let rt_bit = (w >> rt) & 1;
                let pt_bit = lt_bit | rt_bit;""", note='the closure never reaches the upper nodes: values stored there are not visited'),
    dict(id='HM5-place-parent-index', props=['C15'], file='src/seg/heap.rs', old="""                let pt = lt >> 1;

                let lt_bit = (w >> lt) & 1;
                let rt_bit = (w >> rt) & 1;
                let pt_bit = lt_bit & rt_bit;""", new="""                let pt = (lt + 1) >> 1;

                let lt_bit = (w >> lt) & 1;
                let rt_bit = (w >> rt) & 1;
                let pt_bit = lt_bit & rt_bit;""", note='the place walk climbs to the wrong parent'),
    dict(id='HM6-shortcut-too-wide', props=['C15'], file='src/seg/heap.rs', old="""        if end - start == 31 {""", new="""        if end - start >= 30 {""", note='ranges of 31 buckets are stored at the root: found by queries outside them'),
    dict(id='HM7-shortcut-answer', props=['C15'], file='src/seg/heap.rs', old="""            return 1
        }""", new="""            return 2
        }""", note='the whole domain is stored at the left half'),
    dict(id='HM8-leaf-offset', props=['C15'], file='src/seg/heap.rs', old="""        order + Self::SUB_CAPACITY""", new="""        order + Self::POWER * 6""", note='the leaves start one position early'),
    dict(id='HM9-fill-one-short', props=['C15'], file='src/seg/bit.rs', old="""        ((1u64 << (end - start + 1)) - 1) << start""", new="""        ((1u64 << (end - start)) - 1) << start""", note='the last bucket of the range is not filled'),
    dict(id='HM10-fill-args-swapped', props=['C15'], file='src/seg/heap.rs', old="""        let i0 = Self::order_to_heap_index(start);
        let i1 = Self::order_to_heap_index(end);""", new="""        let i0 = Self::order_to_heap_index(end);
        let i1 = Self::order_to_heap_index(start);""", note='the leaf word is built from (end, start)'),
    dict(id='HM11-place-step', props=['C15'], file='src/seg/heap.rs', old="""                m |= (rt_bit ^ pt_bit) << rt;

                lt += 2;""", new="""                m |= (rt_bit ^ pt_bit) << rt;

                lt += 4;""", note='every other pair of a level is skipped'),
    dict(id='HM12-place-emits-absorbed', props=['C15'], file='src/seg/heap.rs', old="""                m |= (lt_bit ^ pt_bit) << lt;""", new="""                m |= lt_bit << lt;""", note='an absorbed left child is emitted too: the value is stored twice over the same buckets'),
    dict(id='HM13-visit-level-start', props=['C15'], file='src/seg/heap.rs', old="""        let mut w = Self::range_to_fill_mask(start, end);

        let mut shift = 32;
        for _ in 0..6 {
            let mut lt = shift - 1;""", new="""        let mut w = Self::range_to_fill_mask(start, end);

        let mut shift = 32;
        for _ in 0..6 {
            let mut lt = shift + 1;""", note='the first pair of every level is left out of the closure'),

    dict(id='HM14-bititer-keeps-bit', props=['C15', 'C03'], file='src/seg/heap.rs', old="""        self.value &= self.value - 1;""", new="""        self.value &= self.value.wrapping_sub(2);""", note='the place just returned is not taken off the mask when it is bit 0'),
    dict(id='HM15-bititer-highest-first', props=['C15', 'C03'], file='src/seg/heap.rs', old="""        let pos = self.value.trailing_zeros() as usize;""", new="""        let pos = (63 - self.value.leading_zeros()) as usize;""", note='the place returned is not the one removed'),
    dict(id='HM16-bititer-stops-early', props=['C15', 'C03'], file='src/seg/heap.rs', old="""        if self.value == 0 {
            return None;""", new="""        if self.value <= 1 {
            return None;""", note='the root place is never visited'),

    # ---- clause probes for the clauses of DESIGN 10.18 ----
    dict(id='SC1-repair-reads-sentinel-colour', props=['C02'], file='src/map/tree.rs', old="""    fn fix_red_black_properties_after_delete(&mut self, n_index: u32) {
        // Case 1: Examined node is root, end of recursion""", new="""    fn fix_red_black_properties_after_delete(&mut self, n_index: u32) {
        if self.node(n_index).color == Color::Red {
            self.node_mut(n_index).color = Color::Black;
            return;
        }
        // Case 1: Examined node is root, end of recursion""", note='the red sentinel standing for a removed black leaf absorbs the deficit'),
    dict(id='SC2-colour-of-the-entry-not-the-spliced-node', props=['C02'], file='src/map/tree.rs', old="""            nd_color = successor.color;
""", new="""""", note='the colour that decides the repair is the deleted entry\'s, not its in-order neighbour\'s'),
    dict(id='MC1-end-bucket-from-width', props=['C03', 'C15'], file='src/seg/layout.rs', old="""    pub(super) fn insert_mask(&self, min: i64, max: i64) -> u64 {
        let start = self.index(min);
        let end = self.index(max);""", new="""    pub(super) fn insert_mask(&self, min: i64, max: i64) -> u64 {
        let start = self.index(min);
        let end = start + ((max - min) >> self.scale) as u32;""", note='the end bucket is one short when the remainders carry'),
    dict(id='MC2-visit-mask-bounds-swapped', props=['C03', 'C15'], file='src/seg/layout.rs', old="""    pub(super) fn intersect_mask(&self, min: i64, max: i64) -> u64 {
        let start = self.index(min);
        let end = self.index(max);""", new="""    pub(super) fn intersect_mask(&self, min: i64, max: i64) -> u64 {
        let start = self.index(max);
        let end = self.index(min);""", note='the visit mask is built from (max, min)'),

    # ---- UNCHECKED unsafe-surface ----
    dict(id='US1-pool-grows-by-set-len', props=['C10', 'C11'], file='src/map/pool.rs', old="""        self.buffer.resize(self.buffer.len() + length, Node::default());""", new="""        unsafe { self.buffer.set_len(self.buffer.len() + length); }""", note='the new slots are uninitialised memory: the first clear or drop reads garbage links'),
    dict(id='US2-removal-moves-payload-by-raw-read', props=['C04', 'C10'], file='src/map/tree.rs', old="""            let entity = successor.entity.clone();""", new="""            let entity = unsafe { std::ptr::read(&successor.entity) };""", note='the value of the in-order neighbour is duplicated bitwise: dropped twice when it owns something'),
]
