"""Seeded single-site faults (textual edits on a scratch copy of /repo's current tree).
Each: id, property it breaks, file, old, new, [count], note.  `old` must occur exactly `count` times (default 1);
if it does not, the seed is reported as not-applicable (the tree has changed) and is never an alarm."""

SEEDS = [
    # --- reverse of the genuine defects that were repaired (D1..D7) ---------------------------
    dict(id='D1-search-value-arms', props=['C06'], file='src/key/tree.rs',
         old="""                Ordering::Less => index = self.expire_right(index, time),
                Ordering::Greater => index = self.expire_left(index, time),
            }
        }

        None""",
         new="""                Ordering::Less => index = self.expire_left(index, time),
                Ordering::Greater => index = self.expire_right(index, time),
            }
        }

        None""", note='exact lookup descends into the wrong subtree'),
]
