//! Compile-fail witnesses (type-level part of C03 / C18 / C17): nothing here is ever executed.
//! Run with `cargo +nightly test --doc` (the error codes are only checked on nightly).
//! Each `compile_fail` example has a compiling twin (`no_run`) that differs only by the offending line, so a
//! witness whose paths are merely wrong cannot pass.

/// W1 (C03, C18): while a range-query iterator is alive the segment tree cannot be touched - the iterator holds the
/// only mutable borrow - so "partially consumed" can only mean "dropped", and no insert can interleave with a scan.
///
/// ```compile_fail,E0499
/// use i_tree::seg::exp::{SegExpCollection, SegRange};
/// use i_tree::seg::tree::SegExpTree;
/// use i_tree::ExpiredVal;
/// #[derive(Clone, Copy)] struct V(i32);
/// impl ExpiredVal<i32> for V { fn expiration(&self) -> i32 { self.0 } }
/// let mut t: SegExpTree<i32, i32, V> = SegExpTree::new(SegRange { min: 0, max: 127 }).unwrap();
/// let mut it = t.iter_by_range(SegRange { min: 0, max: 10 }, 0);
/// t.insert_by_range(SegRange { min: 0, max: 1 }, V(5));   // second mutable borrow while `it` is alive
/// let _ = it.next();
/// ```
///
/// twin (the insert after the iterator's last use compiles):
/// ```no_run
/// use i_tree::seg::exp::{SegExpCollection, SegRange};
/// use i_tree::seg::tree::SegExpTree;
/// use i_tree::ExpiredVal;
/// #[derive(Clone, Copy)] struct V(i32);
/// impl ExpiredVal<i32> for V { fn expiration(&self) -> i32 { self.0 } }
/// let mut t: SegExpTree<i32, i32, V> = SegExpTree::new(SegRange { min: 0, max: 127 }).unwrap();
/// let mut it = t.iter_by_range(SegRange { min: 0, max: 10 }, 0);
/// let _ = it.next();
/// t.insert_by_range(SegRange { min: 0, max: 1 }, V(5));
/// ```
pub struct W1IteratorExclusivity;

/// W2 (C17, C18): a value reference obtained through a handle keeps the map borrowed, so no insertion or removal can
/// happen while it is held; lookups take `&self` and cannot restructure the tree.
///
/// ```compile_fail,E0502
/// use i_tree::map::sort::MapCollection;
/// use i_tree::map::tree::MapTree;
/// let mut m: MapTree<i32, String> = MapTree::new(8);
/// m.insert(1, "a".to_string());
/// let h = m.first_index_less(1);
/// let v = m.value_by_index(h);
/// m.insert(2, "b".to_string());      // mutable borrow while `v` borrows the map
/// println!("{}", v);
/// ```
///
/// twin:
/// ```no_run
/// use i_tree::map::sort::MapCollection;
/// use i_tree::map::tree::MapTree;
/// let mut m: MapTree<i32, String> = MapTree::new(8);
/// m.insert(1, "a".to_string());
/// let h = m.first_index_less(1);
/// let v = m.value_by_index(h).clone();
/// m.insert(2, "b".to_string());
/// println!("{}", v);
/// ```
pub struct W2HandleBorrow;

/// W3 (C10, C11): the arena, the pool and the node links are not reachable from outside the crate: a user cannot
/// forge links or free-list entries.
///
/// ```compile_fail,E0616
/// use i_tree::set::tree::SetTree;
/// let t: SetTree<i32, i32> = SetTree::new(8);
/// let _ = t.root;                     // private field
/// ```
///
/// ```compile_fail,E0603
/// use i_tree::map::pool::Pool;        // private module
/// ```
///
/// twin:
/// ```no_run
/// use i_tree::set::tree::SetTree;
/// let _t: SetTree<i32, i32> = SetTree::new(8);
/// ```
pub struct W3Encapsulation;
