#!/usr/bin/env python3
"""Regenerates MANIFEST.json from sta/catalog.py (claimed properties) and the fixed properties list."""
import json, sys, os
sys.path.insert(0, '/verif/sta')
import catalog

ids = [json.loads(l)['id'] for l in open('/verif/properties.jsonl')]
NA = {
}
PROVISIONAL = 'provisional: the rule(s) for this property are not armed yet (DESIGN.md section 9 order); not claimed until they are'
checks = []
na = []
for i in ids:
    if i in catalog.PROPS:
        sp = catalog.PROPS[i]
        checks.append({
            'property_id': i,
            'quick_cmd': './check %s --tier quick' % i,
            'thorough_cmd': './check %s --tier thorough' % i,
            'evidence_file': '/verif/evidence/%s.json' % i,
            'replay_cmd_template': './check %s --explain {path}' % i,
            'engine': 'sta',
            'level_claimed': {'category': 'other', 'text': sp['explanation'], 'design_ref': 'DESIGN.md sections 0, 4, 5 (%s)' % i},
            'level_note': '; '.join(sp['assumptions']),
            'technique': sp.get('technique', 'static analysis: custom MIR/SSA dataflow rules over the type-checked program (rustc_private driver)'),
        })
    else:
        na.append({'property_id': i, 'reason': NA.get(i, PROVISIONAL)})
m = {
    'version': 1,
    'setup_cmd': 'cd /verif/driver && CARGO_NET_OFFLINE=true cargo +nightly build --release --offline',
    'hooks': {'guard': 'ishape_rust_itree_verif', 'enable': 'none needed: static analysis reads /repo as it is (no hook commits)',
              'baseline_off_cmd': 'cd /repo && cargo test --workspace --no-fail-fast --offline', 'source_commits': [], 'add_only': True},
    'engines': [{'name': 'sta', 'path': '/verif/sta', 'serves_properties': sorted(catalog.PROPS),
                 'kind_free_text': 'static analysis: rustc_private fact driver (/verif/driver) + python rule engine over MIR/SSA and HIR'}],
    'checks': checks,
    'not_applicable': na,
    'notes': 'All checks decide structural clauses of the properties from source (no execution of the library). See DESIGN.md. Genuine defects are listed in /verif/known_findings.json: D1-D7 repaired by fix: commits in /repo (status fixed: they suppress nothing); D8 (KeyExpTree::new aborts for key types without an all-zero value) recorded, not repaired (status known: ./check C10 prints its KNOWN-FINDING line and exits 0; matched by exact instance key only).',
}
json.dump(m, open('/verif/MANIFEST.json', 'w'), indent=1)
print('claimed', [c['property_id'] for c in checks])
