#!/bin/bash
# usage: extract.sh <srcdir> <outdir> [extra rustflags]   -- runs the fact driver over a cargo package
set -e
SRC=$1; OUT=$2; EXTRA=$3
mkdir -p "$OUT/facts"
cd "$SRC"
LD_LIBRARY_PATH=$(rustc +nightly --print sysroot)/lib \
RUSTFLAGS="-Zmir-opt-level=0 -Awarnings $EXTRA" \
RUSTC_WORKSPACE_WRAPPER=/verif/driver/target/release/itree-facts \
CARGO_TARGET_DIR="$OUT/target" ITREE_FACTS_OUT="$OUT/facts" CARGO_NET_OFFLINE=true \
cargo +nightly check --offline --lib -q 2>"$OUT/cargo.stderr"
