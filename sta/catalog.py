"""Which rules exist, which properties are claimed, their floors and evidence texts."""

RULE_MODULES = ['descent', 'null']

# rules whose instance set legitimately differs between debug and release-like MIR
CONFIG_DEPENDENT_RULES = {'PANICSITE'}

MIN_FUNCTIONS = 150     # today: 250 bodies in the lib crate (80% floor would be 200; generous slack)

COMMON_ASSUMPTIONS = [
    'contract of C10: distinct live keys, non-decreasing time, expiration >= insertion time, handles from the same collection since its last deletion, in-domain ranges, monotone comparators',
    'rustc front end, type checker and MIR construction are correct (facts are read from optimized_mir at mir-opt-level=0)',
    'documented contracts of std Vec / slice methods',
]

PROPS = {
    'C01': dict(
        explanation='Static analysis of the resolved program (MIR/SSA). Decided clause: every key-ordered descent loop of the expiring-key tree reached from first_less / first_less_or_equal / first_less_or_equal_by / insert has the decision table (direction per ordering outcome, record, return-current, initial cursor = root, guard, exit value) that the reference semantics demands [DESCENT]. The behaviour as a whole (all histories) is NOT decided; the search-tree invariant (C02) is assumed.',
        assumptions=COMMON_ASSUMPTIONS + ['C02: the tree is a valid search tree after every completed removal'],
        floors={'DESCENT': 4},
    ),
    'C04': dict(
        explanation='Static analysis (MIR/SSA). Decided clause: lookup, the lookup inside delete, and the insert descent of MapTree have the EXACT / EXACT / INSERT decision tables [DESCENT].',
        assumptions=COMMON_ASSUMPTIONS + ['C02', 'C11'],
        floors={'DESCENT': 3, 'NULL': 40},
    ),
    'C05': dict(
        explanation='Static analysis (MIR/SSA). Decided clause: lookup, the lookup inside delete, and the insert descent of SetTree (comparing through KeyValue::key of the stored value) have the EXACT / EXACT / INSERT decision tables [DESCENT].',
        assumptions=COMMON_ASSUMPTIONS + ['C02', 'C11'],
        floors={'DESCENT': 3, 'NULL': 40},
    ),
    'C06': dict(
        explanation='Static analysis (MIR/SSA). Decided clause (complete for the loop, given the search-tree invariant): the exact-lookup descent of KeyExpTree continues right when stored<probe, left when stored>probe, returns the current value on equality, starts at the root and returns None at an empty link [DESCENT].',
        assumptions=COMMON_ASSUMPTIONS + ['C02'],
        floors={'DESCENT': 2},
    ),
    'C08': dict(
        explanation='Static analysis (MIR/SSA). Decided clause: first_index_less and first_index_less_by of MapTree and SetTree have the PRED_LE table (record+right on stored<probe, return current on equality, left on stored>probe, EMPTY_REF initially) and therefore agree with each other [DESCENT].',
        assumptions=COMMON_ASSUMPTIONS + ['C02'],
        floors={'DESCENT': 6},
    ),
    'C09': dict(
        explanation='Static analysis (MIR/SSA nullness dataflow). Decided clause: in SetTree::index_after / index_before (and everything they call) every link that is dereferenced is proven != EMPTY_REF on every path, in particular the parent link followed by the climb, so the step at the largest / smallest value cannot read slot u32::MAX and returns the (empty) parent link [NULL].',
        assumptions=COMMON_ASSUMPTIONS + ['C02 (the tree is valid, so the links followed designate the in-order neighbours)'],
        floors={'NULL': 4},
    ),
    'C10': dict(
        explanation='Static analysis (MIR/SSA nullness dataflow, interprocedural by call-site meet). Decided clause: every call of an arena accessor (node/node_mut = get_unchecked) in the three tree modules and the export file receives an index proven != EMPTY_REF by a dominating test, by provenance (allocator result, constant) or by one of 12 reasoned shape-invariant exceptions (DESIGN section 4, NULL) [NULL]. Not decided: termination of the repair recursion, arithmetic in the seg layout (C14).',
        assumptions=COMMON_ASSUMPTIONS + ['C02 for the reasoned exceptions (inner child of a rotated node, sibling of a double-black node, non-root has a parent)'],
        floors={'NULL': 190},
    ),
}
