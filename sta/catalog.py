"""Which rules exist, which properties are claimed, their floors and evidence texts."""

RULE_MODULES = ['descent', 'null', 'live', 'gate', 'immobile', 'reset', 'pool', 'stale', 'layer', 'twin', 'listsearch', 'steps', 'segflow', 'unchecked', 'panicsite', 'links', 'alloc', 'entity', 'inorder', 'progress', 'sizing', 'bypass', 'deficit', 'heapmask']   # alloc after pool and links: it reads their verdicts

# rule ids produced by modules that host more than one rule (used to attribute an internal error of a module)
MODULE_RULES = {'steps': ['ENDSENT', 'NEIGHBOUR', 'HANDLE'], 'links': ['LINKPAIR', 'NILSTATE', 'COLOR', 'CLIMB', 'FRESH', 'DROP', 'ROOTTEST'], 'deficit': ['DEFICIT', 'REDRED'], 'bypass': ['BYPASS'],
                'pool': ['POOL', 'PROVENANCE']}

# rules whose instance set legitimately differs between debug and release-like MIR
CONFIG_DEPENDENT_RULES = {'PANICSITE'}

MIN_FUNCTIONS = 150     # today: 250 bodies in the lib crate

COMMON_ASSUMPTIONS = [
    "contract of C10: distinct live keys, non-decreasing time, expiration >= insertion time, handles from the same collection since its last deletion, in-domain ranges, monotone comparators",
    "rustc front end, type checker and MIR construction are correct (facts are read from optimized_mir at mir-opt-level=0)",
    "documented contracts of std Vec / slice methods",
]

PROPS = {}


def prop(pid, explanation, assumptions, floors):
    PROPS[pid] = dict(explanation=' '.join(explanation.split()), assumptions=COMMON_ASSUMPTIONS + assumptions, floors=floors)


prop('C01', """
Static analysis of the resolved program (MIR/SSA). Decided clauses: every key-ordered descent loop of the
expiring-key tree reached from first_less / first_less_or_equal / first_less_or_equal_by / insert has the decision
table (direction per ordering outcome, record, return-current, initial cursor = root, guard, exit value) that the
reference semantics demands [DESCENT]; the liveness predicate and every branch on it is exactly expiration > time,
expired nodes are removed and only live ones returned by the gates [LIVE]; every stored key compared and every stored
value returned comes from a node obtained through an expiry gate called with the operation's own time, with no state
change in between [GATE]; no index computed before a lazy removal is used after it, except the parent anchor whose
links are re-read [STALE]. The behaviour as a whole (all histories) is NOT decided; the search-tree invariant (C02) is
assumed. Every path from the entry of a searching operation to a return passes its search construct (descent loop / binary search), or returns because the collection is empty, or on a comparison of the probe with the first / last element (list) or the root entry with an empty far subtree (tree) that is evaluated against the role's semantics: no answer is given in front of the search [BYPASS]. Every operation hands its own time parameter to the gates and helpers it calls [GATE: time-passed-on].""",
     ["C02: the tree is a valid search tree after every completed removal"],
     {'DESCENT': 4, 'LIVE': 4, 'GATE': 7, 'STALE': 20, 'BYPASS': 4})

prop('C03', """
Static analysis (MIR/SSA). Decided clauses: insert computes the layout's place mask of (range.min, range.max) in that
order, stores that very mask in every copy and pushes exactly one copy into the list selected by each of its bits, with
no user code in the loop; a query computes the visit mask of (min, max) and feeds it to both the bit iterator and the
de-duplication mask, passing its time through; in next() every Some(v) is dominated by the keep side of the expiry test
of that very entry (seg-family predicate: live <=> expiration >= time) and every copy the scan steps over was tested;
a copy is reported exactly when trailing_zeros(item.mask & visit mask) equals the place being scanned; the advanced
position is saved before each yield, the place cursor advances only through the bit iterator with the position reset
to 0, empty lists are skipped and the out-of-range marker is returned only on exhaustion; the iterator borrows the tree
mutably for its whole life [SEGFLOW, LIVE]. Not decided: the mask arithmetic (C14, C15). The iterator's first place comes out of the bit iterator like every later one; a selected place is passed over only when its list is empty (and the list type's emptiness is `buffer.is_empty()`); the per-list insertion stores exactly one copy [SEGFLOW: start, skip, insert helper].""",
     ["C14, C15 (layout and mask arithmetic: place and visit masks intersect iff bucket ranges overlap)"],
     {'LIVE': 1, 'SEGFLOW': 6})

prop('C04', """
Static analysis (MIR/SSA). Decided clauses: lookup, the lookup inside delete, and the insert descent of MapTree have
the EXACT / EXACT / INSERT decision tables [DESCENT]; delete reaches the removal only under 'found' and no link is
dereferenced unguarded on the delete path [NULL]; every payload write is a whole-entity assignment: insertion stores its
argument into the fresh slot, the removal overwrites the removed slot with the whole entity of exactly one other slot,
which is the slot it releases, and that entity is read before anything overwrites it; every path through insert stores
the payload into the arena and delete runs the removal on exactly the index its search found, on every path on which it
found one; no &mut to a stored entity escapes except through value_by_index_mut; is_empty is
root == EMPTY_REF and root is written only by the constructor, the root insert, replace_parents_child, the removal and
clear [ENTITY, POOL]; clear returns every slot and only the pool's recognised operations touch its vectors [POOL]; a
recycled slot enters the tree with empty child links, so a removed entry's subtree cannot come back [FRESH]. Every path from the entry of a searching operation to a return passes its search construct (descent loop / binary search), or returns because the collection is empty, or on a comparison of the probe with the first / last element (list) or the root entry with an empty far subtree (tree) that is evaluated against the role's semantics: no answer is given in front of the search [BYPASS].""",
     ["C02"],
     {'DESCENT': 3, 'NULL': 40, 'ENTITY': 5, 'POOL': 2, 'FRESH': 2, 'BYPASS': 3})

prop('C05', """
Static analysis (MIR/SSA). Decided clauses: lookup, the lookup inside delete, and the insert descent of SetTree
(comparing through KeyValue::key of the stored value) have the EXACT / EXACT / INSERT decision tables [DESCENT];
delete reaches the removal only under 'found' and no link is dereferenced unguarded on the delete path [NULL]; every
payload write is a whole-value assignment: insertion stores its argument into the fresh slot, the removal overwrites
the removed slot with the whole value of exactly one other slot, which is the slot it releases, so payloads are never
mixed between keys [ENTITY, POOL]; is_empty is root == EMPTY_REF with a closed set of root writers [ENTITY]; clear
returns every slot and only the pool's recognised operations touch its vectors [POOL]; a recycled slot enters the tree
with empty child links, so a removed value's subtree cannot come back [FRESH]. Every path from the entry of a searching operation to a return passes its search construct (descent loop / binary search), or returns because the collection is empty, or on a comparison of the probe with the first / last element (list) or the root entry with an empty far subtree (tree) that is evaluated against the role's semantics: no answer is given in front of the search [BYPASS].""",
     ["C02"],
     {'DESCENT': 3, 'NULL': 40, 'ENTITY': 5, 'POOL': 2, 'FRESH': 2, 'BYPASS': 3})

prop('C06', """
Static analysis (MIR/SSA). Decided clause (complete for the loop, given the search-tree invariant): the exact-lookup
descent of KeyExpTree continues right when stored<probe, left when stored>probe, returns the current value on
equality, starts at the (gated) root and returns None at an empty link [DESCENT]; liveness is expiration > time at
every test [LIVE]; only gated nodes are compared or returned [GATE]; a recycled slot enters the tree with empty child
links, so the lookup cannot wander into a removed entry's former subtree [FRESH]. Every path from the entry of a searching operation to a return passes its search construct (descent loop / binary search), or returns because the collection is empty, or on a comparison of the probe with the first / last element (list) or the root entry with an empty far subtree (tree) that is evaluated against the role's semantics: no answer is given in front of the search [BYPASS].""",
     ["C02"],
     {'DESCENT': 2, 'LIVE': 4, 'GATE': 7, 'FRESH': 2, 'BYPASS': 2})

prop('C07', """
Static analysis (MIR/SSA). Decided clauses: the export emits a node's value only on the keep side of the liveness
test of that very node, with the key-family predicate expiration > time (the same predicate function the gates use)
[LIVE, GATE]; the list variant purges with retain(expiration > time) under the strict skip guard before reading the
buffer [LIVE, GATE]; the explicit-stack traversal is in-order: by a must-dataflow over the three pending fields of the
top frame, a node is emitted only when its left child is consumed and it is itself still pending, the right child is
pushed only after the node was dealt with, every field is cleared when consumed, a frame is popped only when nothing is
pending, and the frame fields hold the links their names say [INORDER]; no panic in the traversal's index arithmetic
[PANICSITE]. The export hands its own time to what it delegates to, and the list's export is its purged buffer collected front to back, entry by entry [GATE: time-passed-on, list-export-order].""",
     ["C02 (in-order traversal of a search tree is key order)"],
     {'LIVE': 3, 'GATE': 2, 'INORDER': 1, 'PANICSITE': 3})

prop('C08', """
Static analysis (MIR/SSA). Decided clause: first_index_less and first_index_less_by of MapTree and SetTree have the
PRED_LE table (record+right on stored<probe, return current on equality, left on stored>probe, EMPTY_REF initially)
and therefore agree with each other [DESCENT]; value_by_index / value_by_index_mut designate the value of the slot
(position) given by the handle itself and delete_by_index applies the removal (Vec::remove for the lists) to the handle
itself, in all four map/set collections [HANDLE]. Every path from the entry of a searching operation to a return passes its search construct (descent loop / binary search), or returns because the collection is empty, or on a comparison of the probe with the first / last element (list) or the root entry with an empty far subtree (tree) that is evaluated against the role's semantics: no answer is given in front of the search [BYPASS].""",
     ["C02"],
     {'DESCENT': 6, 'HANDLE': 12, 'BYPASS': 6})

prop('C09', """
Static analysis (MIR/SSA nullness dataflow). Decided clause: in SetTree::index_after / index_before (and everything
they call) every link that is dereferenced is proven != EMPTY_REF on every path, in particular the parent link
followed by the climb, so the step at the largest / smallest value cannot read slot u32::MAX and returns the (empty)
parent link [NULL]; role table of the steps: index_after tests the right link, descends with a helper that follows left
links only, otherwise climbs through parent links while the current node is the right child of its parent, and returns
the parent link it stopped at (index_before: the mirror image) [NEIGHBOUR, ENDSENT]; index_after/index_before and
find_left_minimum/find_right_minimum are exact mirror images [TWIN].""",
     ["C02 (the tree is valid, so the links followed designate the in-order neighbours)"],
     {'NULL': 4, 'NEIGHBOUR': 2, 'TWIN': 2})

prop('C10', """
Static analysis (MIR/SSA nullness dataflow, interprocedural by call-site meet). Decided clause: every call of an arena
accessor (node/node_mut = get_unchecked) in the three tree modules and the export file receives an index proven
!= EMPTY_REF by a dominating test, by provenance (allocator result, constant) or by one of 12 reasoned shape-invariant
exceptions (DESIGN section 4, NULL) [NULL]; every index that reaches an accessor or a tree function comes from the
tree (root, a link), the allocator, the sentinel constant or a caller's handle, never from a computed slot number
[PROVENANCE]; no index is used after the removal that may have freed or re-labelled its slot [STALE]; every
get_unchecked outside the arena accessors is bounded (list positions come from Ok(i) / Err(i)-1 under i>0 of a search on
the same vector or are caller handles; segment-tree indices are guarded by a length check that nothing invalidates, or
are bits of a layout mask) [UNCHECKED]; every integer + - * << >>, checked indexing, unwrap and explicit panic is
discharged by a dominating guard / recognised idiom or by a reasoned table entry [PANICSITE]; the reasons behind
NULL's exceptions are red-black shape invariants, and the structural checks that protect them in the tree core (the three
copies of every core function agree, mirror twins and mirrored arms are mirror images, guarded effects are left/right
symmetric) are part of this check: a repair arm that deviates from its twin is reported here as well [TWIN]; no loop of
the library has exit conditions that nothing in the loop can change (a cursor no longer advanced, a removal dropped from a
purge loop: the definite-hang pattern) [PROGRESS]; the segment tree allocates one list more than the position its own
mask builders compute for the stored domain maximum - allocation and addressing evaluate, as linear forms over the
layout's fields with the private helpers inlined, to the same mapping of the same endpoint [SIZING]. Not decided:
termination in general (the repair recursion, loops whose conditions do change but need not converge), the arithmetic of
the seg layout itself (that the last bucket is the highest position a mask names, that it stays below 63: C14 / C15). The removal repair hands a black deficit up on every path on which it was not absorbed [DEFICIT], and the (node, parent) cursors of an upward loop stay a child / parent pair in both halves of the step [CLIMB]: the shape invariants the reasoned exceptions lean on survive repairs that climb more than one level. The unsafe surface: the only unsafe idiom the rules account for is unchecked element access; any other unsafe or ownership-bending operation (raw reads and writes, transmute, zeroed / uninitialised values, forget, set_len, from_raw_parts ..) is reported as outside what is decided [UNCHECKED]; on the library as it is this reports one genuine defect, recorded as a known finding (D8: the key tree's pool filler is `mem::zeroed()` of a caller-chosen type, so `KeyExpTree::new` aborts for key types without an all-zero value).""",
     ["C02 for the reasoned exceptions (inner child of a rotated node, sibling of a double-black node, non-root has a parent); its structural part is re-checked here through TWIN"],
     {'NULL': 190, 'PROVENANCE': 150, 'STALE': 20, 'UNCHECKED': 14, 'PANICSITE': 60, 'TWIN': 70, 'PROGRESS': 30, 'SIZING': 1, 'DEFICIT': 3})

prop('C13', """
Static analysis (MIR/SSA). Decided clauses so far for the expiring-key list: the purge keeps exactly
expiration > time and may be skipped only when min_exp > time [LIVE]; every binary search / read of the buffer is
dominated by the purge called with the operation's own time with no insertion in between, and min_exp is maintained
as a lower bound of the stored expirations (lowered before each insert, recomputed as the minimum over kept entries
after retain, written nowhere else) [GATE]; all 15 binary searches of the three lists have std's comparator
orientation (element relative to probe) and a post-processing that, evaluated symbolically over Ok(0)/Ok(i)/Err(0)/
Err(i), equals the EXACT / PRED_LE / PRED_LT / INSERT result table of the reference semantics [LISTSEARCH]; the set
list's neighbour steps return position +-1 inside the sequence and EMPTY_REF exactly at the last / first position
[ENDSENT]; handles are positions passed through unchanged to get_unchecked / Vec::remove [HANDLE]. Every path from the entry of a searching operation to a return passes its search construct (descent loop / binary search), or returns because the collection is empty, or on a comparison of the probe with the first / last element (list) or the root entry with an empty far subtree (tree) that is evaluated against the role's semantics: no answer is given in front of the search [BYPASS].""",
     ["binary_search_by* / retain contracts of std"],
     {'LIVE': 2, 'GATE': 8, 'LISTSEARCH': 30, 'ENDSENT': 4, 'HANDLE': 6, 'BYPASS': 15})

prop('C14', """
Static analysis (MIR/SSA, linear forms over the constructor's arguments and the layout's fields; nothing is evaluated on
numbers). Decided clauses - the structural skeleton of the layout arithmetic: the layout stores a shift of the form
bitlen(X) - K (bitlen written as ilog2(X) + 1 or BITS - leading_zeros(X)) where X, as a linear form of the constructor's
arguments, is exactly max - min: the largest offset has at most bitlen(X) bits, so the domain maximum maps below 2^K, and
no smaller shift does (smallest common power-of-two width); K is 5 (32 buckets); the constructor returns None exactly on
paths that established bitlen(max - min) < K (or a point count of at most 16 through a constant guard) and Some only on
paths that established bitlen(max - min) >= K: refused for 16 points or fewer, built for 17 or more; the position function
is (v - min) >> shift and nothing else (monotone, 0 at the domain minimum) and narrows only the shifted value; the number
of lists the tree allocates and the endpoint positions the mask builders address evaluate, for the domain maximum, to the
same term plus a non-negative constant (every place is backed by storage) [SIZING]. Not decided: the integer semantics of
ilog2 / leading_zeros / shifts (taken as documented), monotonicity of the heap numbering (C15).""",
     ["documented semantics of u64::ilog2 / leading_zeros / >> ; C15 (places of a bucket range lie at or below the heap index of its last bucket)"],
     {'SIZING': 6})

prop('C15', """
Static analysis (MIR/SSA: constant propagation of the index slice, effect summaries of the loop body, exponent algebra).
The range arguments and the mask words stay opaque; no mask is ever computed for an input (the one place where the two coordinates are looked at is the linear test in front of the root answer, which is solved over the lattice of bucket ranges). Decided clauses: the positions the two
mask functions touch are a compile-time constant of the program - the analysis folds the loop counters (loops with constant
trip counts are unrolled in the analysis) and summarises every round as `word[j] |= f(word[i1], word[i2])` with f given by
its truth table over the bits read. Visit mask: the summaries are exactly, for every internal node p of the 2^POWER-leaf
implicit heap, once, after its internal children: W[p] |= W[2p+1] OR W[2p+2], and the result is W (upward closure of the
leaf bits). Place mask: exactly, for every internal node once, children first: W[p] |= W[2p+1] AND W[2p+2] (a parent absorbs
two selected children), M[c] |= W[c] AND NOT(both children of its parent) for both children (an unabsorbed selected child is
emitted), the result is M started at 0, and the only other answer is the constant root bit, given exactly for the whole
domain (the test in front of it, a comparison of linear forms of the two coordinates, holds for (0, leaves-1) and no other
range). Leaves: both masks start from the same fill of (start, end) in that order, a coordinate is moved to its leaf by
adding 2^POWER - 1, and the fill, as a sum of powers of two modulo 2^64, is 2^(last+1) - 2^first; the iterator over the bits of a mask answers None exactly when no bit is left, otherwise the position of the lowest set bit, and takes exactly that bit off [HEAPMASK]. The tree stores
through the place mask and queries through the visit mask of (min, max), and from the call down to the mask function every hop returns the next hop's result (nothing cached or merged in) and passes the positions of the two bounds on in order [SEGFLOW]. From these the stored-at places are the
maximal nodes all of whose leaves are selected (they tile [a,b]) and the visited places are the nodes with a selected leaf
below: they meet iff the ranges share a bucket; maximal covered nodes are at most two per level below the root's children
and at most one among those, so at most 2 * (POWER - 1) = 8, and the insert pushes once per bit of the mask [SEGFLOW] (paper
arguments, DESIGN 10.17). NOT decided by a rule: that arithmetic itself; a mask computed in a shape the folding cannot follow (closed forms, closures) is reported as undecided.""",
     ["two's-complement semantics of << >> & | ^ ! on u64 as documented", "the paper argument from the decided clauses to the overlap equivalence (DESIGN 10.17)"],
     {'HEAPMASK': 5, 'SEGFLOW': 2})

prop('C16', """
Static analysis (MIR/SSA). Decided clauses: on the expired side of the expiry test (expiration < time) the scanned copy
is physically removed (swap_remove at the tested position) and never yielded, and on the live side it is never removed
[LIVE]; after the removal the cursor is not advanced, control returns to the loop guard, and the guard re-reads the
list length, so the element moved into the freed slot is examined too; every copy the scan steps over has passed the
expiry test (no path advances the cursor around it); the scan of a selected list runs to the end of the list, and
find_next skips a selected place only when its list is empty [SEGFLOW].""",
     ["C15: the whole-domain visit mask selects every place"],
     {'LIVE': 1, 'SEGFLOW': 5})

prop('C20', """
Static analysis (MIR/SSA; typestate reading of the property: a stored key may be shown to user comparison code only
in state gated-at-t). Decided clauses: expire_root/left/right are expiry gates (return EMPTY_REF or an index that
passed expiration > time with their own time parameter, nothing changed afterwards); all comparison sites and all
value exposures of the key tree take their node index only from gate calls made with the operation's own time, with no
state-changing call between gate and use; in the list every search is dominated by the purge at the operation's time
and the min_exp shortcut is a maintained lower bound [GATE, LIVE].""",
     ["C02 (removal inside a gate leaves a valid tree)"],
     {'GATE': 17, 'LIVE': 6})

prop('C12', """
Static analysis (MIR/SSA). Decided clause: for each of the seven collections and each of its fields, clear brings the
field to the value new gives it on every path (trees: root == EMPTY_REF at every return, by a must-dataflow; lists:
buffer.clear() dominates every return; segment tree: every bucket list is cleared by a full iter_mut loop with no
adapter and no early exit, through Chunk::clear which clears its vector), or the field is never written after
construction (layout), or it is a reasoned exemption (the arena behind an empty root; its slot accounting is C11)
[RESET]. Not decided: behavioural indistinguishability of suffix histories (handle numbering after clear differs from
a fresh instance and is unobservable only up to renaming). A slot taken from the pool enters the tree with empty child links (written at allocation, or guaranteed by a reset before every release including those of clear): what clear puts on the free list cannot bring an old subtree back [FRESH].""",
     ["C11 (clear returns every slot)"],
     {'RESET': 12, 'FRESH': 6})

prop('C17', """
Static analysis (call-graph closure + MIR stores). Decided clause (sufficient and necessary for slot content, given
POOL/C11 and the Vec::resize contract): in the call-graph closure of MapTree::insert and SetTree::insert the only
writes to a node payload target the slot returned by the allocator in the same function; no mutable reference to a
stored payload is passed to foreign code; no element of the arena vector is moved; lookups take &self and the
collection types contain no interior mutability [IMMOBILE]. The pools of the map and the set keep every slot either in use or on the free list (allocation, growth range, release, clear): an insertion is never handed a slot that a live entry occupies [POOL].""",
     ["C11 (a slot taken from the allocator is not in use)", "Vec::resize appends without moving elements observably (indices are stable)"],
     {'IMMOBILE': 6, 'POOL': 10})

prop('C19', """
Static analysis (symbolic size forms over MIR/SSA). Decided clause (sufficient and necessary for the bound, given that
buffer.len() - unused.len() - 1 is the entry count, which is C11): every allocation reachable from into_ordered_vec has
a size that is a constant, a loop counter with constant step (bounded by the path walked), or affine in vector lengths;
the capacity of the returned vector is a small multiple of (arena length - free-list length), never the arena length
alone (peak), never a shift by a non-constant or a product of non-constants; the list variant collects over an
exact-size iterator of its buffer [ALLOC].""",
     ["C11 (slots in use = entries + sentinel)"],
     {'ALLOC': 3})

prop('C11', """
Static analysis (MIR/SSA, call graph). Decided clauses: per arena, only the removal transaction and clear release slots,
only new and the linking inserts allocate, and the pool's vectors are mutated only by the pool's own functions; the
removal releases exactly one slot on every path (a path count over the function and its helpers, `clear` counting as any
number; pass-through wrappers allowed; outside any loop, nothing after it), namely the removed index or, when a payload
was moved in from the in-order successor, that successor's slot; a slot taken from the allocator has all its fields initialised and is linked as root or as a child of the node
recorded as its parent in every caller; the arena grows only under 'free list is empty', by the free list's capacity,
with buffer and free list extended by the same index range; clear releases the root, empties it, then pass by pass
exactly the non-empty children of the slots released in the previous pass (counter reset per pass, tied to releases, the
passes end when a pass released nothing; or one cursor over the tail of the free list), and the release function leaves the
links of a released slot intact, which that scan relies on [POOL]; no
computed slot number ever reaches the removal or an accessor [PROVENANCE]; no index is used after the removal that
may have freed it [STALE]; outside the constructor and clear, every path through a store that cuts a node off the tree
(`root = EMPTY_REF`, `node(p).left|right = EMPTY_REF`) also releases a slot - in the function itself, in a helper that
releases on all its paths, or at every call site of a helper that only cuts [DROP]. Not decided: the storage bound itself (a stated consequence of grow-only-when-empty, by at
most the current size).""",
     ["C02 (a removal's unlinking leaves the slot unreachable from the root)"],
     {'POOL': 24, 'PROVENANCE': 150, 'STALE': 20, 'DROP': 21})

prop('C18', """
Static analysis (effect layering over the call graph and CFG). Decided clause: user code (key comparison, comparator
closure, key accessor, expiration accessor - also when entered through std's binary_search_by*, retain, or a blanket
impl for &K) never runs inside a structural update. (A) Trees: functions are partitioned structurally into complete
transactions (removal, linking inserts, clear), partial writers (any other function with a direct arena write or pool
call) and searchers; L1 partial writers are called only from writers/transactions; L2 no writer or transaction reaches
user code after its first arena write on any path, transitively; L3 functions that run user code write the arena only
through complete transactions. (B) Lists and segment tree: no user code between two visible mutations made by one
function (two sites or one site in a loop); closure-taking mutators other than retain are rejected; removals of
expired entries (purge, swap_remove on the drop side) are invisible. (C) The cache min_exp is only lowered with
min(old, x) before code that may unwind, or set after the complete retain [LAYER, GATE]. Not decided: that a complete
transaction restores validity (C02).""",
     ["C02 (complete transactions leave a valid tree)", "Vec::retain is panic-safe (std documentation)"],
     {'LAYER': 100})

prop('C02', """
Static analysis (canonical HIR comparison; a contradiction rule whose reference is the current tree itself). Decided
clauses: the structural core of the three tree modules (every non-trait function of the tree and its pool that runs no
user code: both rotations, insert repair, removal, delete repair and its case handlers, child-link helpers, pool
functions - 27 functions present in at least two copies) has the same canonical form in every copy (payload field and
its clone/copy abstracted, debug assertions, names of locals, generic arguments ignored); every left/right function
pair (rotate_*, insert_as_*, expire_*, find_*_minimum, index_after/before) is an exact mirror image; in every if/else
chain whose conditions are mirror images (side predicates x == p.left / x == p.right, l != EMPTY_REF / r != EMPTY_REF)
the arms are mirror images (10 chains per copy) [TWIN]; child and parent links are written in pairs (across calls:
pending halves are completed by the callers, nothing stays pending at a complete transaction) [LINKPAIR]; the sentinel
slot is linked by exactly one helper and unlinked by exactly one, the unlink post-dominates the link in the removal,
NIL_INDEX is never released, rooted or stored as a parent, and the pool's vectors are mutated only by the pool's own
functions, so the slot reserved at construction is never handed out [NILSTATE, POOL]; a freshly linked non-root node is
red [COLOR]; in every upward loop that keeps a (node, parent) cursor pair the node cursor becomes the old parent, so the
pair stays a child/parent pair [CLIMB]; a slot taken from the pool enters the tree as a leaf: both child links are set to
EMPTY_REF and the parent link written on every path of the allocating function, or (release-side discipline) the pool's
filler node has EMPTY_REF there and every release of a slot is preceded by a reset of that link [FRESH]; no branch tests the root's own parent link, which the link discipline keeps
at EMPTY_REF (a guard mistyped that way disables what it guards, identically in all copies) [ROOTTEST]. NOT decided: that the consistent, symmetric algorithm restores
the colour invariants (needs a proof or exploration of tree shapes: another technique family); a change made
identically in all copies and both mirrors is invisible to TWIN; the height bound is a consequence and assumed. In the removal repair, after the examined node's sibling is painted red, every path either paints a red parent black or continues the repair with the parent as the examined node (recursive call or next round of the loop): the missing black is made up for or handed up, never dropped [DEFICIT]. In the insert repair, after the grandparent is painted red, every path either establishes that it has no parent, a black parent, or is the root, or continues the repair with it [REDRED]. The temporary sentinel stands for a removed black leaf: the functions that may be handed it never read the colour of their examined node (or the sentinel is written Black), and the colour that decides whether a black node went missing is the colour of the node actually spliced out (chosen side by side with the released index) [DEFICIT]. Search order: a key is written into the arena only whole into a fresh slot at insertion, or as the whole payload of the in-order neighbour into the removed entry's slot - never into a node that stays where it is [ENTITY].""",
     ["the shared algorithm is the textbook red-black repair (not re-verified)"],
     {'TWIN': 50, 'LINKPAIR': 30, 'NILSTATE': 3, 'COLOR': 3, 'POOL': 3, 'CLIMB': 2, 'FRESH': 6, 'ROOTTEST': 6, 'DEFICIT': 9, 'REDRED': 3, 'ENTITY': 6})
