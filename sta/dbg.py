import sys, json
from mirlib import extract, show_fn
from ssa import Body, show
facts, info = extract('/repo')
pat = sys.argv[1]
for f in facts['fns']:
    if pat in f['path']:
        b = Body(f)
        print('==', f['path'], 'escaped', b.escaped)
        for c in b.calls:
            print('  call', show(c, 6), '@', c.point)
        for s in b.stores:
            print('  ', s)
        for bb, v in b.switch_discr.items():
            print('  switch bb%d' % bb, show(v, 6))
        for bb, v in b.ret_val.items():
            print('  ret bb%d' % bb, show(v, 6))
        for bb, d in b.phis.items():
            for l, ph in d.items():
                print('  phi bb%d _%d(%s) = %s' % (bb, l, b.local_name(l), [show(a, 4) for a in ph.args]))
