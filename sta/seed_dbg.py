import sys, importlib
sys.path.insert(0, '/verif/sta'); sys.path.insert(0, '/verif/sweep')
from mirlib import extract
from program import Program
from engine import Ctx
from scratch import scratch_copy, apply_edit
import seeds
rules = sys.argv[1].split(',')
want = sys.argv[2:] 
for sd in seeds.SEEDS:
    if want and not any(w in sd['id'] for w in want):
        continue
    with scratch_copy() as root:
        if not apply_edit(root, sd['file'], sd['old'], sd['new'], sd.get('count', 1)):
            print(sd['id'], 'NOT-APPLICABLE'); continue
        try:
            prog = Program(*extract(root))
        except Exception as e:
            print(sd['id'], 'BUILD-FAIL', str(e)[-300:]); continue
        ctx = Ctx(prog)
        for r in rules:
            importlib.import_module('rules.' + r).run(ctx)
        import stages as _st; _st.mark_known(ctx)
        v = [i for i in ctx.instances if i.verdict == 'violation']
        hit = [i for i in v if set(sd['props']) & i.props]
        print(sd['id'], 'DETECTED' if hit else 'MISSED', '(%d violations, %d on target props)' % (len(v), len(hit)))
        for i in v:
            print('     ', i.key, sorted(i.props)); print('         ', i.msg[:300])
