"""Whole-program model on top of the facts: functions, call graph, callee classes, arena
accessors, link-origin summaries."""
import os
from ssa import Body, Val, show, strip, walk


class Fn:
    def __init__(self, prog, info):
        self.prog = prog
        self.info = info
        self.path = info['path']
        self.name = info['name'] or self.path.split('::')[-1]
        self.kind = info['kind']
        self.is_closure = info['kind'] == 'Closure'
        self.parent = info['parent']
        self.vis = info['vis']
        self.impl_trait = info['impl_trait']
        self.trait_item = info['trait_item']      # e.g. key::exp::KeyExpCollection::insert
        self.self_ty = info['self_ty']
        self.self_adt = info['self_ty'].split('<')[0] if info['self_ty'] else None
        f = info['span'][0]
        self.file = f
        i = f.find('src/')
        rel = f[i + 4:] if i >= 0 else os.path.basename(f)
        self.rel = 'src/' + rel
        if info.get('home_file'):
            # a provided trait method materialised for one implementor (materialise_provided): it is reported where it is
            # written (the trait's file) but belongs to the module of the type it was materialised for
            h = info['home_file']
            j = h.find('src/')
            rel = h[j + 4:] if j >= 0 else os.path.basename(h)
        self.module = rel[:-3] if rel.endswith('.rs') else rel      # e.g. key/tree
        self.family = self.module.split('/')[0]                      # key / map / set / seg
        self.line = info['span'][1]
        self.lines = info['lines']
        self._body = None

    @property
    def body(self):
        if self._body is None:
            self._body = Body(self.info)
        return self._body

    @property
    def hir(self):
        return self.info['hir']

    def trait_method(self):
        return self.trait_item.split('::')[-1] if self.trait_item else None

    def is_public_api(self):
        return bool(self.trait_item) or (self.vis == 'Public')

    def loc(self):
        return '%s:%d' % (self.rel, self.line)

    def __repr__(self):
        return 'Fn(%s)' % self.path


def short(path):
    """def-path without generic argument lists, for line-free keys"""
    out = []
    depth = 0
    for ch in path:
        if ch == '<':
            depth += 1
            continue
        if ch == '>':
            depth -= 1
            continue
        if depth == 0:
            out.append(ch)
    s = ''.join(out).replace('::::', '::')
    while '::::' in s:
        s = s.replace('::::', '::')
    return s.strip(':')


def fn_key(fn):
    """stable, line-free identification of a function: module file + (trait::)name"""
    if fn.is_closure:
        p = fn.prog.fns.get(fn.parent)
        base = fn_key(p) if p else short(fn.parent)
        return base + '::' + fn.path.split('::')[-1]
    owner = fn.self_ty.split('<')[0].split('::')[-1] if fn.self_ty else ''
    if fn.trait_item:
        return '%s::<%s as %s>::%s' % (fn.module.replace('/', '::'), owner, fn.trait_item.split('::')[-2], fn.name)
    if owner:
        return '%s::%s::%s' % (fn.module.replace('/', '::'), owner, fn.name)
    return '%s::%s' % (fn.module.replace('/', '::'), fn.name)


VEC_MUTATORS = {'push', 'pop', 'insert', 'remove', 'swap_remove', 'retain', 'retain_mut', 'resize', 'resize_with',
                'extend', 'extend_from_slice', 'clear', 'reserve', 'reserve_exact', 'truncate', 'drain', 'append',
                'dedup', 'dedup_by', 'dedup_by_key', 'sort', 'sort_by', 'sort_by_key', 'sort_unstable', 'swap', 'set_len',
                'split_off', 'shrink_to_fit', 'shrink_to', 'fill', 'reverse', 'rotate_left', 'rotate_right'}


def materialise_provided(facts):
    """A trait method with a default body (`fn delete(&mut self, k) { let i = self.first_index_less(k); ... }`) is, for every
    implementor that does not override it, that implementor's method.  The facts hold it once, generic over Self, with its
    calls of the trait's other methods unresolved.  Here it is copied once per such implementor, under the path the
    implementor's own method would have, with those calls resolved to the implementor's methods (or to other materialised
    copies), so that every rule sees `<SetTree as SetCollection>::delete` wherever it is written."""
    import copy
    fns = facts['fns']
    provided = [f for f in fns if f.get('self_ty') == 'Self' and f.get('impl_trait') and not f.get('trait_item') and f['kind'] == 'AssocFn' and f.get('mir')]
    if not provided:
        return []
    impls = {}          # (trait, self_ty) -> {method name: fn info}
    for f in fns:
        if f.get('impl_trait') and f.get('trait_item') and f.get('self_ty') not in (None, 'Self'):
            impls.setdefault((f['impl_trait'], f['self_ty']), {})[f['name']] = f
    record = []
    new = []
    for (trait, self_ty), methods in impls.items():
        sib = next(iter(methods.values()))
        prefix = sib['path'][:sib['path'].rfind('::') + 2]
        mine = {}
        for p in provided:
            if p['impl_trait'] == trait and p['name'] not in methods:
                mine[p['name']] = p
        for name, p in mine.items():
            c = copy.deepcopy(p)
            c['path'] = prefix + name
            c['trait_item'] = trait + '::' + name
            c['self_ty'] = self_ty
            c['home_file'] = sib['span'][0]
            c['provided_from'] = p['path']
            for bb in c['mir']['blocks']:
                t = bb.get('term') or {}
                cal = t.get('callee') if t.get('k') == 'call' else None
                if cal and cal.get('trait') == trait and cal.get('self_param') and cal.get('self_ty') == 'Self':
                    tgt = methods.get(cal['name'])
                    tpath = tgt['path'] if tgt is not None else (prefix + cal['name'] if cal['name'] in mine else None)
                    if tpath:
                        cal['resolved'] = {'path': tpath}
            new.append(c)
            record.append((p['path'], c['path']))
    # closures of a provided method keep pointing at the generic original (they are analysed there)
    fns.extend(new)
    return record


class Program:
    def __init__(self, facts, info=None):
        self.facts = facts
        self.info = info or {}
        self.crate = facts['crate']
        self.fns = {}
        self.provided_record = materialise_provided(facts)
        for f in facts['fns']:
            fn = Fn(self, f)
            self.fns[fn.path] = fn
        self.consts = {c['path']: c for c in facts['consts']}
        self.adts = {a['path']: a for a in facts['adts']}
        self.ordering = {name: val for name, val in (facts.get('ordering') or [])}
        self.ordering_by_val = {v: k for k, v in self.ordering.items()}
        self.EMPTY_REF = self.const_value('EMPTY_REF')
        self._callees = None
        self._callers = None
        self._accessors = None
        self._summ_cache = {}
        self.templates = {}
        import inline
        self.inline_record = inline.expand(self)

    # ---- constants ----------------------------------------------------------------------------
    def const_value(self, name):
        for p, c in self.consts.items():
            if p == name or p.endswith('::' + name):
                return c['value']
        return None

    def is_empty_ref(self, v):
        v = strip(v)
        return v is not None and v.kind == 'const' and v.args[0] == self.EMPTY_REF and (v.args[1] or '').endswith('EMPTY_REF')

    def is_nil_index(self, v):
        v = strip(v)
        return v is not None and v.kind == 'const' and (v.args[1] or '').endswith('NIL_INDEX')

    # ---- call resolution -----------------------------------------------------------------------
    def specialise(self, fn, consts):
        """fn with the branches on the given parameters (1-based index -> integer value) decided: a copy whose
        switches on those parameters are replaced by jumps, SSA rebuilt on the pruned graph"""
        key = ('spec', fn.path, tuple(sorted(consts.items(), key=str)))
        if key in self._summ_cache:
            return self._summ_cache[key]
        from ssa import strip
        b = fn.body
        blocks = list(b.mir['blocks'])
        changed = False
        for blk, d in b.switch_discr.items():
            d = strip(d)
            neg = False
            while d.kind == 'un' and d.args[0] == 'Not':
                d = strip(d.args[1])
                neg = not neg
            is_discr = False
            if d.kind == 'discr':
                x = strip(d.args[0])
                while x.kind == 'load' and all(q == '*' for q in x.args[1]):
                    x = strip(x.args[0])
                if x.kind == 'param' and ('discr', x.args[0]) in consts:
                    d = x
                    is_discr = True
            if d.kind != 'param' or ((('discr', d.args[0]) if is_discr else d.args[0]) not in consts):
                continue
            val = int(consts[('discr', d.args[0]) if is_discr else d.args[0]])
            if neg:
                val = 1 - val
            t = blocks[blk]['term']
            tb = t['otherwise']
            for v, x in t['targets']:
                if v == val:
                    tb = x
            nb = dict(blocks[blk])
            nb['term'] = {'k': 'goto', 'target': tb, 'span': t.get('span')}
            blocks[blk] = nb
            changed = True
        res = fn
        if changed:
            info = dict(fn.info)
            mir = dict(b.mir)
            mir['blocks'] = blocks
            info['mir'] = mir
            info['path'] = fn.path + '#' + ','.join('%s=%s' % kv for kv in sorted(consts.items(), key=str))
            res = Fn(self, info)
            res.name = fn.name
            res.specialised_from = fn
        self._summ_cache[key] = res
        return res

    def resolve(self, call):
        """crate function a call Val resolves to, or None"""
        c = call.extra['callee']
        if not c.get('path'):
            return None
        r = c.get('resolved')
        if r and r['path'] in self.fns:
            return self.fns[r['path']]
        if c['path'] in self.fns:
            fn = self.fns[c['path']]
            # a trait method declaration without a body is not in fns; a provided method is
            return fn
        return None

    USER_TRAITS = {'Ord', 'PartialOrd', 'PartialEq', 'Eq', 'Fn', 'FnMut', 'FnOnce', 'Clone', 'Default', 'From', 'Into',
                   'TryFrom', 'TryInto', 'Hash', 'Drop', 'Display', 'Debug', 'Iterator', 'IntoIterator', 'AsRef', 'Borrow'}

    def classify(self, call):
        """'crate' | 'callback' | 'std'.  A callback is code supplied by the user of the library:
        an indirect call, or a method of a behaviour trait whose implementing type involves a type
        parameter of the enclosing item (also when std's blanket impl for &T forwards to it)."""
        if self.resolve(call) is not None:
            return 'crate'
        c = call.extra['callee']
        if not c.get('path'):
            return 'callback'          # indirect call through a value: user closure / fn pointer
        if c.get('container') in ('trait', 'trait_impl') or c.get('trait'):
            tr = (c.get('trait') or '').split('::')[-1]
            involves_param = c.get('self_param') or any(c.get('targs_param') or [])
            if c.get('krate') == self.crate or (c.get('trait') or '').split('::')[0] in self.crate_trait_roots():
                return 'callback'      # trait of this crate, not resolvable to an impl in this crate
            if tr in self.USER_TRAITS and involves_param:
                return 'callback'
        return 'std'

    def crate_trait_roots(self):
        if not hasattr(self, '_ctr'):
            self._ctr = {t['path'].split('::')[0] for t in self.facts.get('traits', [])} | {self.crate}
        return self._ctr

    def callback_kind(self, call):
        """finer classification of callback calls"""
        c = call.extra['callee']
        if not c.get('path'):
            return 'closure'
        tr = (c.get('trait') or '').split('::')[-1]
        name = c['name']
        if tr in ('Fn', 'FnMut', 'FnOnce'):
            return 'closure'
        if tr in ('Ord', 'PartialOrd', 'PartialEq', 'Eq'):
            return 'compare'
        if tr == 'ExpiredKey' or tr == 'ExpiredVal':
            return 'expiration'
        if tr == 'KeyValue':
            return 'key'
        if tr in ('Clone', 'Default', 'From', 'Into', 'Expiration', 'Copy'):
            return tr.lower()
        return 'other:' + tr + '::' + name

    def closures_passed(self, call):
        """crate closures passed (as generic args) to a call"""
        c = call.extra['callee']
        return [self.fns[p] for p in (c.get('closure_args') or []) if p in self.fns]

    def callees(self, fn):
        if self._callees is None:
            self._build_cg()
        return self._callees.get(fn.path, [])

    def callers(self, fn):
        if self._callers is None:
            self._build_cg()
        return self._callers.get(fn.path, [])

    def _build_cg(self):
        self._callees = {}
        self._callers = {}
        for fn in self.fns.values():
            lst = []
            for call in fn.body.calls:
                tgt = self.resolve(call)
                if tgt is not None:
                    lst.append((call, tgt))
                    self._callers.setdefault(tgt.path, []).append((call, fn))
                for cl in self.closures_passed(call):
                    lst.append((call, cl))
                    self._callers.setdefault(cl.path, []).append((call, fn))
            # closures created but not passed through generic args (stored): link by aggregate
            for v in fn.body._vals:
                if v.kind == 'agg' and v.extra.get('akind') == 'closure' and v.extra['path'] in self.fns:
                    cl = self.fns[v.extra['path']]
                    if not any(t is cl for _, t in lst):
                        lst.append((v, cl))
                        self._callers.setdefault(cl.path, []).append((v, fn))
            self._callees[fn.path] = lst

    def closure(self, fn, include_closures=True):
        """call-graph closure (set of Fn) from fn"""
        seen = {}
        stack = [fn]
        while stack:
            f = stack.pop()
            if f.path in seen:
                continue
            seen[f.path] = f
            for _, t in self.callees(f):
                stack.append(t)
        return list(seen.values())

    def reaching_trait_methods(self, fn):
        """public trait-impl methods (and pub inherent fns) from which fn is reachable"""
        out = []
        seen = set()
        stack = [fn]
        while stack:
            f = stack.pop()
            if f.path in seen:
                continue
            seen.add(f.path)
            if f.trait_item or (f.vis == 'Public' and not f.is_closure):
                out.append(f)
            for _, c in self.callers(f):
                stack.append(c)
        return out

    # ---- arena accessors -------------------------------------------------------------------------
    @property
    def accessors(self):
        """functions whose body is `get_unchecked[_mut](self.<path>, p as usize)`:
        path -> {'fields': tuple, 'mut': bool, 'fn': Fn}"""
        if self._accessors is None:
            acc = {}
            for fn in self.fns.values():
                if fn.is_closure or fn.trait_item:
                    continue
                b = fn.body
                if b.arg_count != 2 or len(b.cfg.returns) != 1:
                    continue
                guc = [c for c in b.calls if c.callee_name() in ('get_unchecked', 'get_unchecked_mut')]
                if len(guc) != 1:
                    continue
                g = guc[0]
                rv = b.ret_val[b.cfg.returns[0]]
                if rv is not g:
                    continue
                idx = strip(g.args[1])
                if not (idx.kind == 'param' and idx.args[0] == 2):
                    continue
                base = g.args[0]
                # look through Deref::deref / deref_mut / as_slice calls
                while base.kind == 'call' and base.callee_name() in ('deref', 'deref_mut', 'as_slice', 'as_mut_slice', 'index', 'index_mut') and base.args:
                    base = base.args[0]
                if base.kind not in ('ref', 'load'):
                    continue
                root = base.args[0]
                if not (root.kind == 'param' and root.args[0] == 1):
                    continue
                # no other calls than deref helpers
                # (a debug assertion on the index - a length read and a panic path - does not make it something else)
                others = [c for c in b.calls if c is not g and c.callee_name() not in ('deref', 'deref_mut', 'as_slice', 'as_mut_slice', 'len')
                          and c.point[0] in b.cfg.can_return]
                if others:
                    continue
                acc[fn.path] = {'fields': base.fields(), 'mut': g.callee_name() == 'get_unchecked_mut', 'fn': fn}
            self._accessors = acc
        return self._accessors

    def accessor_call(self, v):
        """if v is a call of an arena accessor: (accessor info, self Val, index Val) else None"""
        if v is None or v.kind != 'call':
            return None
        t = self.resolve(v)
        if t is None or t.path not in self.accessors:
            return None
        return self.accessors[t.path], v.args[0], v.args[1]

    def node_field(self, v):
        """if v reads a field of an arena element: (index Val, fields tuple, accessor call Val) else None.
        Accepts load(accessor(self, idx), *.f.g) and ref(...)"""
        if v is None or v.kind not in ('load', 'ref'):
            return None
        root = v.args[0]
        a = self.accessor_call(root)
        if a is None:
            return None
        return a[2], v.fields(), root

    def self_field(self, v, nparam=1):
        """if v == load(self, *.a.b): fields tuple else None"""
        if v is None or v.kind not in ('load', 'ref'):
            return None
        root = v.args[0]
        if root.kind == 'param' and root.args[0] == nparam:
            return v.fields()
        return None

    # ---- structural classification of the crate's data types ------------------------------------
    def _classify_adts(self):
        if hasattr(self, '_adt_cls'):
            return self._adt_cls
        node, pool, tree, lst = set(), set(), set(), set()
        enums = {p for p, a in self.adts.items() if a['kind'] == 'Enum'}
        def fields(a):
            return a['variants'][0]['fields'] if a['variants'] else []
        for p, a in self.adts.items():
            if a['kind'] != 'Struct':
                continue
            fs = fields(a)
            n_u32 = sum(1 for f in fs if f['ty'] == 'u32')
            has_enum = any(f['ty'].split('<')[0] in enums for f in fs)
            if n_u32 >= 3 and has_enum:
                node.add(p)
        def mentions(ty, paths):
            return any((q + '<') in ty or ty == q or (q + '>') in ty or ('<' + q) in ty for q in paths)
        for p, a in self.adts.items():
            if a['kind'] != 'Struct':
                continue
            if any('Vec<' in f['ty'] and mentions(f['ty'], node) for f in fields(a)):
                pool.add(p)
        for p, a in self.adts.items():
            if a['kind'] != 'Struct' or p in pool:
                continue
            fs = fields(a)
            if any(mentions(f['ty'], pool) for f in fs) and any(f['ty'] == 'u32' for f in fs):
                tree.add(p)
            elif any(f['ty'].startswith('std::vec::Vec<') for f in fs) and not any(mentions(f['ty'], node) for f in fs):
                lst.add(p)
        self._adt_cls = {'node': node, 'pool': pool, 'tree': tree, 'list': lst}
        return self._adt_cls

    @property
    def tree_adts(self):
        return self._classify_adts()['tree']

    @property
    def node_adts(self):
        return self._classify_adts()['node']

    @property
    def pool_adts(self):
        return self._classify_adts()['pool']

    @property
    def list_adts(self):
        return self._classify_adts()['list']

    def private_tree_fields(self, adt):
        """fields of a tree type that its sibling tree types do not have (an entry counter added to one copy, a cached
        extreme): they are no part of the structure the copies share, so a comparison of the copies leaves them out"""
        if not hasattr(self, '_ptf'):
            names = {}
            for t in self.tree_adts:
                a = self.adts.get(t)
                if a and a.get('variants'):
                    names[t] = [f['name'] for f in a['variants'][0]['fields']]
            common = None
            for t, ns in names.items():
                common = set(ns) if common is None else common & set(ns)
            self._ptf = {t: {n for n in ns if n not in (common or set())} for t, ns in names.items()} if len(names) >= 2 else {}
        return self._ptf.get(adt, set())

    def tree_modules(self):
        return {a.rsplit('::', 1)[0].replace('::', '/') for a in self.tree_adts}
