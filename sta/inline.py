"""MIR-level inlining of higher-order private helpers (a pre-pass of Program).

A private helper that takes a closure and calls it (`fn expire_link(&mut self, time, read_link: impl Fn(&Self) -> u32)`)
cannot be summarised by the first-order summaries the rules use (origins, gates, write sets): what it reads or returns
depends on the closure.  When every closure parameter of such a helper is bound to a closure literal at a call site,
the helper's body is spliced into the caller at that site and the closure's body is spliced in at every invocation of
the parameter; the caller then looks to the rules exactly as if it had been written out by hand.  A helper all of whose
call sites were expanded this way (and that is neither public nor a trait method) is dropped from the analysed set:
it is a template, analysed once per expansion.

Nothing here interprets the program: it is a syntactic splice on the MIR facts (locals renumbered, blocks appended,
`return` turned into `dest = _0; goto target`), the same transformation rustc's own inliner performs."""
import copy

FN_CALL_NAMES = ('call', 'call_mut', 'call_once')
MAX_ROUNDS = 4


def map_place(pl, lmap):
    out = dict(pl)
    out['l'] = lmap(pl['l'])
    np = []
    for e in pl['p']:
        if isinstance(e, list) and e and e[0] == 'index':
            np.append(['index', lmap(e[1])] + list(e[2:]))
        else:
            np.append(e)
    out['p'] = np
    return out


def remap(obj, lmap):
    """deep copy with every local renumbered"""
    if isinstance(obj, dict):
        if 'l' in obj and 'p' in obj and isinstance(obj.get('p'), list):
            return map_place(obj, lmap)
        return {k: remap(v, lmap) for k, v in obj.items()}
    if isinstance(obj, list):
        return [remap(x, lmap) for x in obj]
    return obj


def remap_term(t, lmap, bmap):
    t = remap(t, lmap)
    for key in ('target', 'otherwise', 'unwind'):
        if isinstance(t.get(key), int) and not isinstance(t.get(key), bool):
            t[key] = bmap(t[key])
    if 'targets' in t:
        t['targets'] = [[v, bmap(b)] for v, b in t['targets']]
    return t


def splice(host, site, callee, arg_ops, dest, target, span, name_prefix):
    """splice `callee` (MIR dict) into `host` (MIR dict, modified in place) at the call terminator of block `site`;
    returns (local offset, block offset)"""
    loff = len(host['locals'])
    boff = len(host['blocks'])
    for l in callee['locals']:
        nl = dict(l)
        nl['i'] = l['i'] + loff
        host['locals'].append(nl)
    lmap = lambda x: x + loff
    bmap = lambda x: x + boff
    for blk in callee['blocks']:
        nb = {'cleanup': blk.get('cleanup', False), 'stmts': [remap(s, lmap) for s in blk['stmts']]}
        t = blk['term']
        if t['k'] == 'return':
            if dest is not None:
                nb['stmts'].append({'k': 'assign', 'place': dest, 'rv': {'k': 'use', 'op': {'k': 'move', 'place': {'l': loff, 'p': [], 'ty': callee['locals'][0]['ty']}}}, 'span': t['span']})
            if target is None:
                nb['term'] = {'k': 'unreachable', 'span': t['span']}
            else:
                nb['term'] = {'k': 'goto', 'target': target, 'span': t['span']}
        else:
            nb['term'] = remap_term(t, lmap, bmap)
        host['blocks'].append(nb)
    sb = dict(host['blocks'][site])
    stmts = list(sb['stmts'])
    for i, op in enumerate(arg_ops):
        k = i + 1
        if k >= len(callee['locals']):
            break
        stmts.append({'k': 'assign', 'place': {'l': loff + k, 'p': [], 'ty': callee['locals'][k]['ty']}, 'rv': {'k': 'use', 'op': op}, 'span': span})
    sb['stmts'] = stmts
    sb['term'] = {'k': 'goto', 'target': boff, 'span': span}
    host['blocks'][site] = sb
    for d in callee.get('debug', []):
        nd = remap(d, lmap)
        nd.pop('arg', None)
        nd['name'] = d['name'] if not name_prefix else d['name']
        host['debug'].append(nd)
    return loff, boff


def tuple_field(op, j, ty):
    """operand reading field j of the tuple operand op"""
    if op.get('k') not in ('move', 'copy'):
        return None
    pl = op['place']
    np = dict(pl)
    np['p'] = list(pl['p']) + [['field', j, str(j), 'tuple' + (pl.get('ty') or ''), ty]]
    np['ty'] = ty
    return {'k': 'copy', 'place': np}


def strip_ref(v):
    from ssa import strip
    v = strip(v)
    while v is not None and v.kind == 'ref' and not v.fields():
        v = strip(v.args[0])
    return v


def callback_params(prog, fn):
    """{param index: [blocks whose terminator invokes that parameter through Fn/FnMut/FnOnce]}"""
    out = {}
    b = fn.body
    for c in b.calls:
        cal = c.callee or {}
        if cal.get('name') in FN_CALL_NAMES and (cal.get('trait') or '').split('::')[-1] in ('Fn', 'FnMut', 'FnOnce') and c.args:
            a = strip_ref(c.args[0])
            if a is not None and a.kind == 'param':
                out.setdefault(a.args[0], []).append(c.point[0])
    return out


def flag_params(prog, fn):
    """parameters of fn (1-based) whose value decides a branch of fn: the discriminant of some switch is the parameter
    itself, its negation, its enum discriminant, or its comparison with a constant"""
    from ssa import strip
    out = set()
    b = fn.body
    for blk, d in b.switch_discr.items():
        d = strip(d)
        for _ in range(3):
            if d.kind == 'un' and d.args[0] == 'Not':
                d = strip(d.args[1])
            elif d.kind == 'discr':
                d = strip(d.args[0])
                while d.kind == 'load' and all(p == '*' for p in d.args[1]):
                    d = strip(d.args[0])
            elif d.kind == 'bin' and d.args[0] in ('Eq', 'Ne'):
                x, y = strip(d.args[1]), strip(d.args[2])
                if y.kind == 'const' and x.kind != 'const':
                    d = x
                elif x.kind == 'const' and y.kind != 'const':
                    d = y
                else:
                    break
            else:
                break
        if d.kind == 'param':
            out.add(d.args[0])
    return out


def constant_arg(prog, a):
    """is the argument a compile-time flag: a bool / enum constant or an enum variant built on the spot"""
    from ssa import strip
    a = strip(a)
    if a.kind == 'const':
        if prog.is_empty_ref(a) or prog.is_nil_index(a):
            return False
        return a.ty == 'bool' or (a.args[0] is not None and a.ty not in ('u32', 'usize', 'u64', 'i32', 'i64', 'u8', 'u16', 'isize'))
    if a.kind == 'agg' and a.extra.get('akind') == 'adt' and a.extra.get('variant') is not None:
        return True
    return False


def fold(prog, d):
    """integer value of a switch discriminant that is a compile-time constant, else None"""
    from ssa import strip
    d = strip(d)
    if d.kind == 'const' and isinstance(d.args[0], (int, bool)) and not isinstance(d.args[0], str):
        return int(d.args[0])
    if d.kind == 'un' and d.args[0] == 'Not':
        v = fold(prog, d.args[1])
        return None if v is None else (1 - v if v in (0, 1) else None)
    if d.kind == 'discr':
        x = strip(d.args[0])
        while x.kind == 'load' and all(p == '*' for p in x.args[1]):
            x = strip(x.args[0])
        while x.kind == 'ref' and not x.fields():
            x = strip(x.args[0])
        if x.kind == 'agg' and x.extra.get('akind') == 'adt' and x.extra.get('variant') is not None and 'idx' in x.extra['variant']:
            return int(x.extra['variant']['idx'])
        return None
    if d.kind == 'bin' and d.args[0] in ('Eq', 'Ne'):
        a, b2 = fold(prog, d.args[1]), fold(prog, d.args[2])
        if a is None or b2 is None:
            return None
        return int((a == b2) == (d.args[0] == 'Eq'))
    return None


def prune(prog, fn):
    """replace switches on compile-time constants by jumps (after a splice); returns a new Fn or the same"""
    from program import Fn
    for _ in range(6):
        b = fn.body
        repl = {}
        for blk, d in b.switch_discr.items():
            if blk not in b.cfg.reach:
                continue
            v = fold(prog, d)
            if v is None:
                continue
            t = b.mir['blocks'][blk]['term']
            tb = t['otherwise']
            for val, x in t['targets']:
                if val == v:
                    tb = x
            repl[blk] = {'k': 'goto', 'target': tb, 'span': t.get('span')}
        if not repl:
            return fn
        info = dict(fn.info)
        mir = dict(info['mir'])
        blocks = list(mir['blocks'])
        for blk, t in repl.items():
            nb = dict(blocks[blk])
            nb['term'] = t
            blocks[blk] = nb
        mir['blocks'] = blocks
        info['mir'] = mir
        fn = Fn(prog, info)
    return fn


def recursive(prog, fn):
    seen = set()
    stack = [(c.callee or {}).get('path') for c in fn.body.calls]
    while stack:
        p = stack.pop()
        if p is None or p in seen:
            continue
        if p == fn.path:
            return True
        seen.add(p)
        g = prog.fns.get(p)
        if g is not None and g.info.get('mir'):
            stack.extend((c.callee or {}).get('path') for c in g.body.calls)
            for c in g.body.calls:
                for ca in (c.callee or {}).get('closure_args') or []:
                    stack.append(ca if isinstance(ca, str) else None)
    return False


def view_helpers(prog):
    """paths of private, non-trait functions of the sorted-list variants (or free functions of their modules) that
    take no `&mut`"""
    tree_traits = {f.trait_item.rsplit('::', 1)[0] for f in prog.fns.values() if f.trait_item and f.self_adt in prog.tree_adts}
    lists = {f.self_adt for f in prog.fns.values() if f.trait_item and f.self_adt in prog.list_adts and f.trait_item.rsplit('::', 1)[0] in tree_traits}
    mods = {a.rsplit('::', 1)[0].replace('::', '/') for a in lists}
    out = set()
    for f in prog.fns.values():
        if f.is_closure or f.trait_item or f.vis == 'Public' or not f.info.get('mir'):
            continue
        if not (f.self_adt in lists or (f.self_adt is None and f.module in mods)):
            continue
        if f.body.locals[0]['ty'].split('<')[0] in lists:
            continue        # constructors
        if any((l['ty'] or '').startswith('&mut') for l in f.body.locals[1:f.body.arg_count + 1]):
            continue
        out.add(f.path)
    return out


COMBINATORS = {
    # name: (receiver kind, shape)
    'then': 'bool', 'map': 'option', 'map_or': 'option', 'unwrap_or_else': 'option', 'and_then': 'option',
    'map_or_else': 'option', 'is_some_and': 'option', 'unwrap_or': 'option',
}
NO_CLOSURE = ('unwrap_or',)
INT_TYPES = ('u8', 'u16', 'u32', 'u64', 'usize')


def _new_local(host, ty):
    i = len(host['locals'])
    host['locals'].append({'i': i, 'ty': ty, 'mut': True, 'span': None})
    return i


def _new_block(host, stmts, term):
    host['blocks'].append({'cleanup': False, 'stmts': stmts, 'term': term})
    return len(host['blocks']) - 1


def _pl(l, ty, proj=None):
    return {'l': l, 'p': proj or [], 'ty': ty}


def _assign(pl, rv, span):
    return {'k': 'assign', 'place': pl, 'rv': rv, 'span': span}


def _use(op):
    return {'k': 'use', 'op': op}


def _opt(variant, ops):
    idx = {'None': 0, 'Some': 1}[variant]
    return {'k': 'agg', 'akind': 'adt', 'path': 'std::option::Option', 'variant': {'name': variant, 'idx': idx, 'fields': ['0'] if ops else []}, 'ops': ops}


SPLICED_CLOSURES = set()


def _call_closure(prog, host, blk_stmts, clos_op, P, arg_ops, dest_pl, target, span):
    SPLICED_CLOSURES.add(P.path)
    """append a block that runs closure P (spliced) with the given argument operands, writes its result to dest_pl and
    jumps to target; returns the index of the entry block"""
    pm = P.info['mir']
    env_ty = pm['locals'][1]['ty'] if len(pm['locals']) > 1 else ''
    stmts = list(blk_stmts)
    env_op = clos_op
    if env_ty.startswith('&') and clos_op.get('k') in ('move', 'copy'):
        r = _new_local(host, env_ty)
        stmts.append(_assign(_pl(r, env_ty), {'k': 'ref', 'mut': env_ty.startswith('&mut'), 'bk': 'Shared', 'place': clos_op['place']}, span))
        env_op = {'k': 'move', 'place': _pl(r, env_ty)}
    entry = _new_block(host, stmts, {'k': 'goto', 'target': 0, 'span': span})
    # a pseudo call terminator so that splice() can do its work
    host['blocks'][entry]['term'] = {'k': 'call', 'callee': {}, 'args': [], 'dest': dest_pl, 'target': target, 'span': span}
    splice(host, entry, pm, [env_op] + arg_ops, dest_pl, target, span, P.name)
    return entry


def desugar_combinators(prog, F, host):
    """`cond.then(|| e)`, `opt.map(|x| e)`, `opt.map_or(d, |x| e)`, `opt.unwrap_or_else(|| e)`, `opt.and_then(..)`,
    `opt.map_or_else(..)`, `opt.is_some_and(..)` with closure literals become the branches they stand for, with the closure
    bodies spliced in; returns the number of sites rewritten"""
    n = 0
    produced = set()        # locals that hold the result of a combinator rewritten here
    for c in sorted(F.body.calls, key=lambda x: F.body.cfg.rpo.index(x.point[0]) if x.point[0] in F.body.cfg.rpo else 10 ** 6):
        cal = c.callee or {}
        nm = cal.get('name')
        if nm == 'branch' and (cal.get('trait') or '').endswith('Try') and (cal.get('self_ty') or '').startswith('std::option::Option'):
            # the `?` operator on an Option: Some(v) => Continue(v), None => Break(None)
            blk = c.point[0]
            t = host['blocks'][blk]['term']
            if t['k'] == 'call' and t.get('target') is not None and len(t['args']) == 1 and t['args'][0].get('k') in ('move', 'copy'):
                span, dest, target = t['span'], t['dest'], t['target']
                opt_pl = t['args'][0]['place']
                d = _new_local(host, 'isize')
                stmts0 = list(host['blocks'][blk]['stmts'])
                stmts0.append(_assign(_pl(d, 'isize'), {'k': 'discr', 'place': opt_pl}, span))
                pp = dict(opt_pl)
                pp['p'] = list(opt_pl['p']) + [['downcast', 'Some', 1], ['field', 0, '0', 'std::option::Option', '']]
                cf = lambda var, idx, ops: {'k': 'agg', 'akind': 'adt', 'path': 'std::ops::ControlFlow', 'variant': {'name': var, 'idx': idx, 'fields': ['0']}, 'ops': ops}
                resid = _new_local(host, 'std::option::Option<std::convert::Infallible>')
                some_b = _new_block(host, [_assign(dest, cf('Continue', 0, [{'k': 'copy', 'place': pp}]), span)], {'k': 'goto', 'target': target, 'span': span})
                none_b = _new_block(host, [_assign(_pl(resid, 'std::option::Option<std::convert::Infallible>'), _opt('None', []), span),
                                           _assign(dest, cf('Break', 1, [{'k': 'move', 'place': _pl(resid, '')}]), span)], {'k': 'goto', 'target': target, 'span': span})
                unreach = _new_block(host, [], {'k': 'unreachable', 'span': span})
                host['blocks'][blk] = {'cleanup': False, 'stmts': stmts0, 'term': {'k': 'switch', 'discr': {'k': 'move', 'place': _pl(d, 'isize')}, 'dty': 'isize', 'targets': [[0, none_b], [1, some_b]], 'otherwise': unreach, 'span': span}}
                n += 1
            continue
        if nm == 'from_residual' and (cal.get('trait') or '').endswith('FromResidual') and (cal.get('self_ty') or '').startswith('std::option::Option'):
            blk = c.point[0]
            t = host['blocks'][blk]['term']
            if t['k'] == 'call' and t.get('target') is not None:
                stmts0 = list(host['blocks'][blk]['stmts']) + [_assign(t['dest'], _opt('None', []), t['span'])]
                host['blocks'][blk] = {'cleanup': False, 'stmts': stmts0, 'term': {'k': 'goto', 'target': t['target'], 'span': t['span']}}
                n += 1
            continue
        if nm == 'checked_sub' and not cal.get('trait') and (cal.get('self_ty') or '') in INT_TYPES:
            # x.checked_sub(y)  ==  if x >= y { Some(x - y) } else { None }   (unsigned)
            blk = c.point[0]
            t = host['blocks'][blk]['term']
            if t['k'] == 'call' and t.get('target') is not None and len(t['args']) == 2:
                span, dest, target = t['span'], t['dest'], t['target']
                ity = cal['self_ty']
                cnd = _new_local(host, 'bool')
                dif = _new_local(host, ity)
                stmts0 = list(host['blocks'][blk]['stmts'])
                stmts0.append(_assign(_pl(cnd, 'bool'), {'k': 'bin', 'op': 'Ge', 'a': t['args'][0], 'b': t['args'][1]}, span))
                some_b = _new_block(host, [_assign(_pl(dif, ity), {'k': 'bin', 'op': 'Sub', 'a': t['args'][0], 'b': t['args'][1]}, span),
                                           _assign(dest, _opt('Some', [{'k': 'move', 'place': _pl(dif, ity)}]), span)], {'k': 'goto', 'target': target, 'span': span})
                none_b = _new_block(host, [_assign(dest, _opt('None', []), span)], {'k': 'goto', 'target': target, 'span': span})
                host['blocks'][blk] = {'cleanup': False, 'stmts': stmts0, 'term': {'k': 'switch', 'discr': {'k': 'move', 'place': _pl(cnd, 'bool')}, 'dty': 'bool', 'targets': [[0, none_b]], 'otherwise': some_b, 'span': span}}
                n += 1
                if not dest['p']:
                    produced.add(dest['l'])
            continue
        if nm == 'checked_add' and not cal.get('trait') and (cal.get('self_ty') or '') in INT_TYPES:
            # x.checked_add(c)  ==  if x <= MAX - c { Some(x + c) } else { None }   (unsigned, constant c)
            blk = c.point[0]
            t = host['blocks'][blk]['term']
            if t['k'] == 'call' and t.get('target') is not None and len(t['args']) == 2 and t['args'][1].get('k') == 'const' and isinstance(t['args'][1].get('val'), int):
                span, dest, target = t['span'], t['dest'], t['target']
                ity = cal['self_ty']
                mx = {'u8': 2 ** 8 - 1, 'u16': 2 ** 16 - 1, 'u32': 2 ** 32 - 1, 'u64': 2 ** 64 - 1, 'usize': 2 ** 64 - 1}[ity]
                cnd = _new_local(host, 'bool')
                sm = _new_local(host, ity)
                stmts0 = list(host['blocks'][blk]['stmts'])
                bound = dict(t['args'][1]); bound['val'] = mx - t['args'][1]['val']; bound['def'] = None; bound['text'] = str(bound['val'])
                stmts0.append(_assign(_pl(cnd, 'bool'), {'k': 'bin', 'op': 'Le', 'a': t['args'][0], 'b': bound}, span))
                some_b = _new_block(host, [_assign(_pl(sm, ity), {'k': 'bin', 'op': 'Add', 'a': t['args'][0], 'b': t['args'][1]}, span),
                                           _assign(dest, _opt('Some', [{'k': 'move', 'place': _pl(sm, ity)}]), span)], {'k': 'goto', 'target': target, 'span': span})
                none_b = _new_block(host, [_assign(dest, _opt('None', []), span)], {'k': 'goto', 'target': target, 'span': span})
                host['blocks'][blk] = {'cleanup': False, 'stmts': stmts0, 'term': {'k': 'switch', 'discr': {'k': 'move', 'place': _pl(cnd, 'bool')}, 'dty': 'bool', 'targets': [[0, none_b]], 'otherwise': some_b, 'span': span}}
                n += 1
                if not dest['p']:
                    produced.add(dest['l'])
            continue
        if nm not in COMBINATORS or cal.get('trait'):
            continue
        if nm in NO_CLOSURE:
            # a plain `opt.unwrap_or(d)` stays a call (several rules read it as such); only the tail of a rewritten chain
            # (`cond.then(|| e).unwrap_or(d)`) is turned into branches as well
            t0 = host['blocks'][c.point[0]]['term']
            r0 = t0['args'][0] if t0.get('k') == 'call' and t0.get('args') else None
            if not (r0 and r0.get('k') in ('move', 'copy') and not r0['place']['p'] and r0['place']['l'] in produced):
                continue
        st = cal.get('self_ty') or ''
        kind = COMBINATORS[nm]
        if kind == 'bool' and st != 'bool':
            continue
        if kind == 'option' and not st.startswith('std::option::Option'):
            continue
        cls = [prog.fns.get(x) for x in (cal.get('closure_args') or [])]
        if nm in NO_CLOSURE:
            cls = []
        elif not cls or any(x is None or not x.info.get('mir') for x in cls):
            continue
        blk = c.point[0]
        t = host['blocks'][blk]['term']
        if t['k'] != 'call' or t.get('target') is None:
            continue
        span = t['span']
        args = t['args']
        dest = t['dest']
        target = t['target']
        dty = dest.get('ty') or ''
        recv = args[0]
        if recv.get('k') not in ('move', 'copy'):
            continue
        stmts0 = list(host['blocks'][blk]['stmts'])
        if kind == 'bool':
            P = cls[0]
            rty = P.info['mir']['locals'][0]['ty']
            tmp = _new_local(host, rty)
            join = _new_block(host, [_assign(dest, _opt('Some', [{'k': 'move', 'place': _pl(tmp, rty)}]), span)], {'k': 'goto', 'target': target, 'span': span})
            some_b = _call_closure(prog, host, [], args[1], P, [], _pl(tmp, rty), join, span)
            none_b = _new_block(host, [_assign(dest, _opt('None', []), span)], {'k': 'goto', 'target': target, 'span': span})
            host['blocks'][blk] = {'cleanup': False, 'stmts': stmts0, 'term': {'k': 'switch', 'discr': recv, 'dty': 'bool', 'targets': [[0, none_b]], 'otherwise': some_b, 'span': span}}
            n += 1
            if not dest['p']:
                produced.add(dest['l'])
            continue
        # Option receivers
        opt_pl = recv['place']
        d = _new_local(host, 'isize')
        stmts0.append(_assign(_pl(d, 'isize'), {'k': 'discr', 'place': opt_pl}, span))

        def payload(ty):
            pp = dict(opt_pl)
            pp['p'] = list(opt_pl['p']) + [['downcast', 'Some', 1], ['field', 0, '0', 'std::option::Option', ty]]
            pp['ty'] = ty
            return {'k': 'copy', 'place': pp}
        if nm in ('map', 'and_then', 'map_or', 'is_some_and'):
            P = cls[0]
            pm = P.info['mir']
            xty = pm['locals'][2]['ty'] if len(pm['locals']) > 2 else ''
            rty = pm['locals'][0]['ty']
            clos_op = args[2] if nm == 'map_or' else args[1]
            if nm == 'map':
                tmp = _new_local(host, rty)
                join = _new_block(host, [_assign(dest, _opt('Some', [{'k': 'move', 'place': _pl(tmp, rty)}]), span)], {'k': 'goto', 'target': target, 'span': span})
                some_b = _call_closure(prog, host, [], clos_op, P, [payload(xty)], _pl(tmp, rty), join, span)
                none_b = _new_block(host, [_assign(dest, _opt('None', []), span)], {'k': 'goto', 'target': target, 'span': span})
            elif nm == 'and_then':
                some_b = _call_closure(prog, host, [], clos_op, P, [payload(xty)], dest, target, span)
                none_b = _new_block(host, [_assign(dest, _opt('None', []), span)], {'k': 'goto', 'target': target, 'span': span})
            elif nm == 'map_or':
                some_b = _call_closure(prog, host, [], clos_op, P, [payload(xty)], dest, target, span)
                none_b = _new_block(host, [_assign(dest, _use(args[1]), span)], {'k': 'goto', 'target': target, 'span': span})
            else:       # is_some_and
                some_b = _call_closure(prog, host, [], clos_op, P, [payload(xty)], dest, target, span)
                none_b = _new_block(host, [_assign(dest, _use({'k': 'const', 'ty': 'bool', 'val': 0, 'def': None, 'fn': None, 'promoted': None, 'text': 'false'}), span)], {'k': 'goto', 'target': target, 'span': span})
        elif nm == 'unwrap_or' and len(args) == 2:
            some_b = _new_block(host, [_assign(dest, _use(payload(dty)), span)], {'k': 'goto', 'target': target, 'span': span})
            none_b = _new_block(host, [_assign(dest, _use(args[1]), span)], {'k': 'goto', 'target': target, 'span': span})
        elif nm == 'unwrap_or_else':
            P = cls[0]
            some_b = _new_block(host, [_assign(dest, _use(payload(dty)), span)], {'k': 'goto', 'target': target, 'span': span})
            none_b = _call_closure(prog, host, [], args[1], P, [], dest, target, span)
        elif nm == 'map_or_else' and len(cls) == 2 and len(args) == 3:
            Pd, Pf = cls[0], cls[1]
            xty = Pf.info['mir']['locals'][2]['ty'] if len(Pf.info['mir']['locals']) > 2 else ''
            some_b = _call_closure(prog, host, [], args[2], Pf, [payload(xty)], dest, target, span)
            none_b = _call_closure(prog, host, [], args[1], Pd, [], dest, target, span)
        else:
            continue
        unreach = _new_block(host, [], {'k': 'unreachable', 'span': span})
        host['blocks'][blk] = {'cleanup': False, 'stmts': stmts0, 'term': {'k': 'switch', 'discr': {'k': 'move', 'place': _pl(d, 'isize')}, 'dty': 'isize', 'targets': [[0, none_b], [1, some_b]], 'otherwise': unreach, 'span': span}}
        n += 1
        if not dest['p']:
            produced.add(dest['l'])
    return n


def thread_discriminants(host):
    """a block that only switches on the discriminant of a local which its predecessor has just built as a known enum
    variant is bypassed: the predecessor jumps straight to that variant's arm (the shape left by `a.then(..).unwrap_or(..)`)"""
    import copy
    blocks = host['blocks']
    n = 0
    # a block that only copies locals and jumps on (the join left by a spliced helper's returns) is duplicated into its
    # goto-predecessors, so that each of them reaches the switch directly
    for mi in range(len(blocks)):
        M = blocks[mi]
        if M['term'].get('k') != 'goto' or not M['stmts'] or M['term']['target'] == mi:
            continue
        if not all(st['k'] == 'assign' and not st['place']['p'] and st['rv'].get('k') == 'use' and st['rv']['op'].get('k') in ('move', 'copy') and not st['rv']['op']['place']['p'] for st in M['stmts']):
            continue
        T = blocks[M['term']['target']]
        if T['term'].get('k') != 'switch' or not T['stmts'] or T['stmts'][-1].get('rv', {}).get('k') != 'discr':
            continue
        for xi in range(len(blocks)):
            X = blocks[xi]
            if xi != mi and X['term'].get('k') == 'goto' and X['term'].get('target') == mi:
                X2 = dict(X)
                X2['stmts'] = list(X['stmts']) + copy.deepcopy(M['stmts'])
                X2['term'] = dict(X['term'])
                X2['term']['target'] = M['term']['target']
                blocks[xi] = X2
    for ti in range(len(blocks)):
        T = blocks[ti]
        t = T['term']
        if t.get('k') != 'switch' or not T['stmts']:
            continue
        ds = T['stmts'][-1]
        if not (ds['k'] == 'assign' and ds['rv'].get('k') == 'discr' and not ds['rv']['place']['p']):
            continue
        if not (t['discr'].get('k') in ('move', 'copy') and t['discr']['place']['l'] == ds['place']['l'] and not t['discr']['place']['p']):
            continue
        L = ds['rv']['place']['l']
        if any(st['k'] == 'assign' and st['place']['l'] == L for st in T['stmts'][:-1]):
            continue
        for xi in range(len(blocks)):
            X = blocks[xi]
            if X['term'].get('k') != 'goto' or X['term'].get('target') != ti or xi == ti:
                continue
            var = None
            want = L
            for st in reversed(X['stmts']):
                if st['k'] == 'assign' and st['place']['l'] == want:
                    if not st['place']['p'] and st['rv'].get('k') == 'agg' and st['rv'].get('akind') == 'adt' and st['rv'].get('variant'):
                        var = st['rv']['variant'].get('idx')
                    elif not st['place']['p'] and st['rv'].get('k') == 'use' and st['rv']['op'].get('k') in ('move', 'copy') and not st['rv']['op']['place']['p']:
                        want = st['rv']['op']['place']['l']     # a plain copy of another local: look for that one
                        continue
                    break
            if var is None:
                continue
            tb = t['otherwise']
            for v, b2 in t['targets']:
                if v == var:
                    tb = b2
            nb = {'cleanup': False, 'stmts': copy.deepcopy(T['stmts']), 'term': {'k': 'goto', 'target': tb, 'span': t.get('span')}}
            blocks.append(nb)
            X2 = dict(X)
            X2['term'] = dict(X['term'])
            X2['term']['target'] = len(blocks) - 1
            blocks[xi] = X2
            n += 1
    return n


def expand(prog):
    """the pre-pass; returns a record of what was expanded (for the evidence)"""
    record = []
    from program import Fn
    for _round in range(MAX_ROUNDS):
        cbp = {}
        flg = {}
        accessors = set(prog.accessors)
        for f in prog.fns.values():
            if f.is_closure or not f.info.get('mir') or f.path in accessors:
                continue
            p = callback_params(prog, f)
            if p:
                cbp[f.path] = p
            if not f.trait_item:
                q = flag_params(prog, f)
                if q:
                    flg[f.path] = q
        # a parameter handed on unchanged to a flag parameter of a callee is a flag parameter too
        grew = True
        while grew:
            grew = False
            for f in prog.fns.values():
                if f.is_closure or not f.info.get('mir') or f.trait_item or f.path in accessors:
                    continue
                for c in f.body.calls:
                    hp = (c.callee or {}).get('path')
                    if hp not in flg:
                        continue
                    for k in flg[hp]:
                        if k - 1 < len(c.args):
                            a = strip_ref(c.args[k - 1])
                            if a is not None and a.kind == 'param' and a.args[0] not in flg.get(f.path, set()):
                                flg.setdefault(f.path, set()).add(a.args[0])
                                grew = True
        # read-only private helpers of the sorted-list variants (a shared `locate`, a result-to-handle conversion): the list
        # rules are anchored on the public operations, so such helpers are expanded into them
        view = view_helpers(prog)
        pool_single = set()
        try:
            pools = prog.pool_adts
            sites_of = {}
            for f_ in prog.fns.values():
                if not f_.info.get('mir'):
                    continue
                for c_ in f_.body.calls:
                    hp_ = (c_.callee or {}).get('path')
                    if hp_ in prog.fns:
                        sites_of.setdefault(hp_, []).append(f_.path)
            for hp_, callers_ in sites_of.items():
                h_ = prog.fns[hp_]
                if h_.self_adt in pools and not h_.trait_item and h_.vis != 'Public' and not h_.is_closure and len(callers_) == 1 \
                        and prog.fns[callers_[0]].self_adt == h_.self_adt and h_.name != 'new' and prog.fns[callers_[0]].name != 'new' \
                        and any((c2.callee or {}).get('name') == 'pop' for c2 in h_.body.calls) and any((c2.callee or {}).get('name') == 'pop' for c2 in prog.fns[callers_[0]].body.calls):
                    pool_single.add(hp_)
        except Exception:
            pool_single = set()
        rec = {}
        changed = False
        for F in list(prog.fns.values()):
            if not F.info.get('mir'):
                continue
            sites = []
            local_closure_sites = []
            for c in F.body.calls:
                cal = c.callee or {}
                # a closure literal of this very function called directly (`let child = |t: &Self| ..; child(self)`)
                if cal.get('name') in FN_CALL_NAMES and (cal.get('trait') or '').split('::')[-1] in ('Fn', 'FnMut', 'FnOnce') and c.args:
                    a0 = strip_ref(c.args[0])
                    if a0 is not None and a0.kind == 'agg' and a0.extra.get('akind') == 'closure' and a0.extra.get('path') in prog.fns and prog.fns[a0.extra['path']].parent == F.path:
                        local_closure_sites.append((c.point[0], prog.fns[a0.extra['path']]))
                        continue
                H = prog.fns.get(cal.get('path')) if cal.get('path') else None
                if H is None and (cal.get('resolved') or {}).get('path') in prog.fns:
                    H = prog.fns[cal['resolved']['path']]
                cross = False
                if H is not None and H.path != F.path and F.trait_item and H.trait_item and F.self_adt == H.self_adt and F.self_adt in prog.list_adts:
                    # an operation of a sorted-list variant that obtains its position from ANOTHER operation with a different search
                    # role (`delete` through `first_index_less`): the callee's search is then the caller's search, and is held to
                    # the caller's table there
                    from rules.descent import ROLE_BY_METHOD
                    rf_, rh_ = ROLE_BY_METHOD.get(F.trait_method()), ROLE_BY_METHOD.get(H.trait_method())
                    ro = not any((l['ty'] or '').startswith('&mut') for l in H.body.locals[1:H.body.arg_count + 1])
                    cross = bool(rf_ and rh_ and rf_ != rh_ and ro and not (F.trait_method() == 'delete' and rh_ == 'EXACT'))
                if H is not None and not cross and H.path != F.path and H.path in pool_single:
                    cross = True        # a private function of an arena pool with exactly one call site (a growth path moved out of line): part of its caller
                if H is None or (H.path not in cbp and H.path not in flg and H.path not in view and not cross) or H.path == F.path:
                    continue
                if H.path not in rec:
                    rec[H.path] = recursive(prog, H)
                if rec[H.path]:
                    continue
                binding = {}
                for k in cbp.get(H.path, {}):
                    a = strip_ref(c.args[k - 1]) if k - 1 < len(c.args) else None
                    if a is not None and a.kind == 'agg' and a.extra.get('akind') == 'closure' and a.extra.get('path') in prog.fns:
                        binding[k] = a.extra['path']
                flags = [k for k in flg.get(H.path, ()) if k - 1 < len(c.args) and constant_arg(prog, c.args[k - 1])]
                if (H.path in cbp and len(binding) == len(cbp[H.path])) or flags or ((H.path in view or cross) and H.path not in cbp):
                    if len(binding) != len(cbp.get(H.path, {})):
                        binding = {k: v for k, v in binding.items()}
                    sites.append((c.point[0], H, binding, flags))
            comb = [c for c in F.body.calls if (c.callee or {}).get('name') in COMBINATORS and not (c.callee or {}).get('trait') and ((c.callee or {}).get('closure_args') or (c.callee or {}).get('name') in NO_CLOSURE)
                    and ((c.callee or {}).get('self_ty') == 'bool' or ((c.callee or {}).get('self_ty') or '').startswith('std::option::Option'))]
            comb += [c for c in F.body.calls if (c.callee or {}).get('name') in ('checked_sub', 'checked_add') and not (c.callee or {}).get('trait') and ((c.callee or {}).get('self_ty') or '') in INT_TYPES]
            comb += [c for c in F.body.calls if (c.callee or {}).get('name') in ('branch', 'from_residual') and ((c.callee or {}).get('trait') or '').split('::')[-1] in ('Try', 'FromResidual') and ((c.callee or {}).get('self_ty') or '').startswith('std::option::Option')]
            # a lone `unwrap_or` is never rewritten on its own
            if comb and all((c.callee or {}).get('name') in NO_CLOSURE for c in comb):
                comb = []
            if not sites and not local_closure_sites and not comb:
                continue
            # one site per round and function (block numbers of the others stay valid: blocks are only appended)
            host = copy.deepcopy(F.info['mir'])
            for (blk, H, binding, flags) in sites:
                t = host['blocks'][blk]['term']
                if t['k'] != 'call':
                    continue
                hm = H.info['mir']
                loff, boff = splice(host, blk, hm, t['args'], t['dest'], t.get('target'), t['span'], H.name)
                for k, blocks in cbp.get(H.path, {}).items():
                    if k not in binding:
                        continue
                    P = prog.fns[binding[k]]
                    pm = P.info['mir']
                    for hb in blocks:
                        nb = hb + boff
                        ct = host['blocks'][nb]['term']
                        if ct['k'] != 'call':
                            continue
                        ops = [ct['args'][0]]
                        for j in range(pm['arg_count'] - 1):
                            ops.append(tuple_field(ct['args'][1], j, pm['locals'][j + 2]['ty']))
                        if any(o is None for o in ops):
                            continue
                        splice(host, nb, pm, ops, ct['dest'], ct.get('target'), ct['span'], P.name)
                record.append({'caller': F.path, 'helper': H.path, 'closures': sorted(binding.values()), 'flags': flags})
            for (blk, P) in local_closure_sites:
                ct = host['blocks'][blk]['term']
                if ct['k'] != 'call' or not P.info.get('mir'):
                    continue
                pm = P.info['mir']
                ops = [ct['args'][0]]
                for j in range(pm['arg_count'] - 1):
                    ops.append(tuple_field(ct['args'][1], j, pm['locals'][j + 2]['ty']))
                if any(o is None for o in ops):
                    continue
                splice(host, blk, pm, ops, ct['dest'], ct.get('target'), ct['span'], P.name)
                SPLICED_CLOSURES.add(P.path)
                record.append({'caller': F.path, 'helper': P.path, 'closures': [P.path], 'flags': [], 'local_closure': True})
            if comb:
                k = desugar_combinators(prog, F, host)
                if k:
                    thread_discriminants(host)
                    record.append({'caller': F.path, 'helper': 'std combinators', 'closures': [], 'flags': [], 'desugared': k})
            info = dict(F.info)
            info['mir'] = host
            nf = prune(prog, Fn(prog, info))
            prog.fns[F.path] = nf
            changed = True
        prog._callees = prog._callers = None
        if not changed:
            break
    # closure literals whose every use was spliced in are no longer functions of their own
    still_used = set()
    for f in prog.fns.values():
        if not f.info.get('mir'):
            continue
        for c in f.body.calls:
            for ca in (c.callee or {}).get('closure_args') or []:
                still_used.add(ca)
            if (c.callee or {}).get('name') in FN_CALL_NAMES and c.args:
                a0 = strip_ref(c.args[0])
                if a0 is not None and a0.kind == 'agg' and a0.extra.get('akind') == 'closure':
                    still_used.add(a0.extra.get('path'))
    for pth in sorted(SPLICED_CLOSURES):
        if pth in prog.fns and pth not in still_used:
            prog.templates[pth] = prog.fns[pth]
            del prog.fns[pth]
    SPLICED_CLOSURES.clear()
    # helpers that are now templates only
    dropped = []
    helpers = {r['helper'] for r in record}
    for hp in sorted(helpers):
        H = prog.fns.get(hp)
        if H is None or H.vis == 'Public' or H.trait_item:
            continue
        still = False
        for f in prog.fns.values():
            if f.path == hp or not f.info.get('mir'):
                continue
            for c in f.body.calls:
                if (c.callee or {}).get('path') == hp:
                    still = True
        if not still:
            prog.templates[hp] = H
            del prog.fns[hp]
            dropped.append(hp)
    prog._callees = prog._callers = None
    return {'expansions': record, 'templates_dropped': dropped}
