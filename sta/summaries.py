"""Interprocedural summaries of writes to arena nodes: which fields of which node (designated by a parameter or by
the function's own fresh allocation) a function writes, transitively through crate helpers, and with what value."""
from ssa import strip, show


def val_desc(prog, fn, v):
    """('const', name) | ('param', k) | ('variant', name) | ('other', text)"""
    v = strip(v)
    if v.kind == 'const':
        if prog.is_empty_ref(v):
            return ('const', 'EMPTY_REF')
        if prog.is_nil_index(v):
            return ('const', 'NIL_INDEX')
        return ('const', v.args[0])
    if v.kind == 'param':
        return ('param', v.args[0])
    if v.kind == 'agg' and v.extra.get('variant') and not v.args:
        return ('variant', v.extra['variant']['name'])
    return ('other', show(v, 2))


def node_writes(prog, fn, _stack=None):
    """[(target, fields, value_desc, site)] where target is ('param', k) or ('val', Val) (a value of fn itself);
    callee writes are instantiated at the call sites (targets/values that are callee parameters are mapped to the
    caller's arguments)."""
    key = ('nodewrites', fn.path)
    if key in prog._summ_cache:
        return prog._summ_cache[key]
    _stack = _stack or set()
    if fn.path in _stack:
        return []
    _stack = _stack | {fn.path}
    out = []
    b = fn.body
    for st in b.stores:
        acc = prog.accessor_call(strip(st.root))
        if acc is None:
            continue
        idx = strip(acc[2])
        tgt = ('param', idx.args[0]) if idx.kind == 'param' else ('val', idx)
        out.append((tgt, st.fields(), val_desc(prog, fn, st.value), st, strip(st.value)))
    for call, callee in prog.callees(fn):
        if call.kind != 'call' or callee.is_closure or callee.path in prog.accessors:
            continue
        for (tgt, fields, vd, site, vv) in node_writes(prog, callee, _stack):
            if tgt[0] != 'param':
                continue
            k = tgt[1]
            if k - 1 >= len(call.args):
                continue
            a = strip(call.args[k - 1])
            ntgt = ('param', a.args[0]) if a.kind == 'param' else ('val', a)
            nvd, nvv = vd, None
            if vd[0] == 'param' and vd[1] - 1 < len(call.args):
                nvv = strip(call.args[vd[1] - 1])
                nvd = val_desc(prog, fn, nvv)
            out.append((ntgt, fields, nvd, call, nvv))
    prog._summ_cache[key] = out
    return out


def writes_to(prog, fn, target_val):
    """[(fields, value_desc, site, value Val or None)] of all writes of fn (incl. through helpers) to node(target_val)"""
    t = strip(target_val)
    res = []
    for (tgt, fields, vd, site, vv) in node_writes(prog, fn):
        if tgt[0] == 'val' and tgt[1] is t:
            res.append((fields, vd, site, vv))
        elif tgt[0] == 'param' and t.kind == 'param' and t.args[0] == tgt[1]:
            res.append((fields, vd, site, vv))
    return res


def site_block(site):
    return site.point[0]
