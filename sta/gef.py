"""Guarded-effects form (GEF) of a function on MIR/SSA: a canonical, syntax-insensitive summary used by TWIN as a
second opinion when the canonical HIR of two copies (or two mirror halves) differs.

  effect  = store(target, value) | call(effectful callee, args) | ret(value)
  guard   = set of (condition term, truth) of the branch edges that dominate the effect's block
  form    = effects in control-flow order, adjacent independent stores sorted

Terms are printed without local names (parameters by position), with the module family erased, the payload field and
its clone/copy abstracted, == / != normalised, commutative operands sorted, accessor node/node_mut identified.
match/if, while/loop, let hoisting, return/tail, renames, operand order and debug assertions do not change the form;
a different value written, a different guard, a dropped or added effect, or a reordering of dependent effects does."""
from ssa import strip, walk
from hircanon import fam_erase, swap_lr

COMMUT = ('Eq', 'Ne', 'BitAnd', 'BitOr', 'BitXor', 'Add', 'Mul')
PAYLOAD_FIELDS = ('entity', 'value')


class Gef:
    def __init__(self, prog, fn, mirror=False, inline=False, stack=frozenset()):
        self.prog = prog
        self.fn = fn
        self.b = fn.body
        self.mirror = mirror
        self.inline = inline
        self.stack = stack
        self.memo = {}
        self.choice = {}

    def name(self, s):
        s = fam_erase(s)
        s = getattr(self.prog, '_name_alias', {}).get(s, s)
        return swap_lr(s) if self.mirror else s

    def field(self, f):
        if f in PAYLOAD_FIELDS:
            return 'PAYLOAD'
        return swap_lr(f) if self.mirror else f

    def term(self, v, depth=0, visiting=()):
        v = strip(v)
        if v is None:
            return 'none'
        if v.id in self.choice:
            return self.term(self.choice[v.id], depth + 1, visiting)
        if v.id in self.memo and not visiting:
            return self.memo[v.id]
        if depth > 14:
            return '..'
        k = v.kind
        prog = self.prog
        if k == 'param':
            r = '<P%d>' % v.args[0]
        elif k == 'const':
            nm = (v.args[1] or '').split('::')[-1]
            if nm in ('EMPTY_REF', 'NIL_INDEX'):
                r = nm
            elif v.args[0] is not None:
                r = '%s:%s' % (v.args[0], (v.ty or '').split('::')[-1])
            else:
                r = fam_erase(str(v.args[2]))
        elif k in ('load', 'ref'):
            root = v.args[0]
            path = [self.field(p) for p in v.args[1] if p != '*' and isinstance(p, str)]
            acc = prog.accessor_call(strip(root))
            if acc is not None:
                rs = 'node(%s)' % self.term(acc[2], depth + 1, visiting)
            else:
                rs = self.term(root, depth + 1, visiting)
            # PAYLOAD and anything below it is one thing
            if 'PAYLOAD' in path:
                path = path[:path.index('PAYLOAD') + 1]
            r = rs + ''.join('.' + p for p in path)
            sfx = ''
            if k == 'load' and path:
                ep = self.epoch(v, path[-1])
                if ep:
                    sfx = '@%d' % ep
            ix_ = strip(acc[2]) if acc is not None else None
            if acc is not None and path and rs.startswith('node(phi{') and rs.endswith('})') and rs.count('phi{') == 1 and 'rec' not in rs \
                    and ix_ is not None and ix_.kind == 'phi' and ix_.extra.get('block') not in self.b.cfg.loops() and not ix_.extra.get('anyof'):
                # a link of "one node or another" is "one node's link or the other's" (a re-read hoisted below the branches that chose the node)
                mem = split_top(rs[len('node(phi{'):-2])
                r = 'phi{%s}' % '|'.join(sorted('node(%s)%s%s' % (m_, ''.join('.' + p for p in path), sfx) for m_ in mem))
            else:
                r += sfx
        elif k == 'call':
            c = v.extra['callee']
            nm = c.get('name') or 'indirect'
            if nm == 'clone' and v.args:
                a = self.term(v.args[0], depth + 1, visiting)
                if a.endswith('.PAYLOAD'):
                    r = a
                else:
                    r = 'clone(%s)' % a
            else:
                tgt = prog.resolve(v)
                if tgt is not None and tgt.path in prog.accessors:
                    r = 'node(%s)' % self.term(v.args[1], depth + 1, visiting)
                else:
                    inl = self.pure_term(tgt, v, depth, visiting) if (self.inline and tgt is not None) else None
                    if inl is not None:
                        r = inl
                        if not visiting:
                            self.memo[v.id] = r
                        return r
                    full = self.name((tgt.name if tgt is not None else nm))
                    args = [self.term(a, depth + 1, visiting) for a in v.args]
                    perm = getattr(prog, '_arg_perm', {}).get(tgt.path) if tgt is not None else None
                    if perm and len(perm) == len(args):
                        args = [args[i] for i in perm]      # this copy's parameter order mapped onto the siblings' order
                    if nm in ('eq', 'ne') and len(args) == 2:
                        args = sorted(args)
                    # result of an effectful call is identified by its position among calls of that name
                    r = '%s(%s)' % (full, ','.join(args))
        elif k == 'bin':
            op = v.args[0].replace('WithOverflow', '').replace('Unchecked', '')
            a, b2 = self.term(v.args[1], depth + 1, visiting), self.term(v.args[2], depth + 1, visiting)
            if op in COMMUT and a > b2:
                a, b2 = b2, a
            r = '%s(%s,%s)' % (op, a, b2)
        elif k == 'un':
            r = '%s(%s)' % (v.args[0], self.term(v.args[1], depth + 1, visiting))
        elif k == 'discr':
            r = 'discr(%s)' % self.term(v.args[0], depth + 1, visiting)
        elif k == 'agg':
            e = v.extra
            nm = e['path'].split('::')[-1] if e['path'] else e['akind']
            if e.get('variant'):
                nm += '::' + e['variant']['name']
            args_ = list(v.args)
            priv = self.prog.private_tree_fields(e['path']) if e.get('path') and e.get('akind') == 'adt' else None
            if priv:
                fl = [f['name'] for f in self.prog.adts[e['path']]['variants'][0]['fields']]
                if len(fl) == len(args_):
                    args_ = [a for a, n_ in zip(args_, fl) if n_ not in priv]       # a field only this copy has
            parts = [self.term(a, depth + 1, visiting) for a in args_]
            parts = [x for x in parts if x != 'default()' and not x.startswith('PhantomData')]      # zero-sized markers differ between copies by construction
            r = '%s{%s}' % (self.name(nm), ','.join(parts))
        elif k == 'phi':
            der = self.derived_cursor(v) if v.id not in visiting else None
            if der is not None:
                # a link carried along in a local (`next = node(i).left` kept up to date with the cursor i): it IS that link
                r = 'node(%s).%s' % (self.term(der[0], depth + 1, visiting), self.field(der[1]))
            elif v.id in visiting:
                r = 'rec'
            else:
                ops = set()
                for a in v.args:
                    t = self.term(a, depth + 1, visiting + (v.id,))
                    if t.startswith('phi{') and t.endswith('}') and t.count('phi{') == 1:
                        ops |= set(split_top(t[4:-1]))
                    else:
                        ops.add(t)
                ops.discard('rec')
                ops = sorted(ops)
                r = ops[0] if len(ops) == 1 else 'phi{%s}' % '|'.join(ops)
        elif k == 'update':
            r = 'upd(%s;%s:=%s)' % (self.term(v.args[0], depth + 1, visiting), '.'.join(map(str, v.args[1])), self.term(v.args[2], depth + 1, visiting))
        elif k == 'escaped':
            r = 'local'
        else:
            r = k
        if not visiting:
            self.memo[v.id] = r
        return r

    def epoch(self, v, field):
        """number of stores to the same field (of any node) that definitely precede this read"""
        pt = v.extra.get('read_point', v.point)
        if not pt:
            return 0
        n = 0
        cfg = self.b.cfg
        for st in self.b.stores:
            f = st.fields()
            if not f:
                continue
            last = self.field(f[-1]) if f[-1] not in PAYLOAD_FIELDS else 'PAYLOAD'
            if 'PAYLOAD' in [self.field(x) for x in f]:
                last = 'PAYLOAD'
            if last != field:
                continue
            if (st.point[0] == pt[0] and st.point[1] < pt[1]) or (st.point[0] != pt[0] and cfg.dominates(st.point[0], pt[0])):
                n += 1
        return n

    def cond(self, d, truth):
        """normalised (term, truth)"""
        d = strip(d)
        while d.kind == 'un' and d.args[0] == 'Not':
            d = strip(d.args[1])
            truth = not truth
        if d.kind == 'call' and d.callee_name() in ('eq', 'ne') and len(d.args) == 2:
            # comparison with a variant of a two-variant unit enum (Color): the same test as a switch on the discriminant
            for ci, oi in ((0, 1), (1, 0)):
                c0 = strip(d.args[ci])
                while c0.kind == 'ref' and not c0.fields():
                    c0 = strip(c0.args[0])
                if c0.kind == 'const' and isinstance(c0.args[0], int) and c0.args[0] in (0, 1) and self.two_unit_enum(c0.ty):
                    t1 = self.term(d.args[oi])
                    is_one = (c0.args[0] == 1)
                    tr = truth if d.callee_name() == 'eq' else not truth
                    return ('discr(%s)' % t1, tr if is_one else not tr)
        if d.kind == 'call' and d.callee_name() == 'ne' and len(d.args) == 2:
            a, b2 = sorted([self.term(d.args[0]), self.term(d.args[1])])
            return ('eq(%s,%s)' % (a, b2), not truth)
        if d.kind == 'bin' and d.args[0] == 'Ne':
            a, b2 = self.term(d.args[1]), self.term(d.args[2])
            if a > b2:
                a, b2 = b2, a
            return ('Eq(%s,%s)' % (a, b2), not truth)
        return (self.term(d), truth)

    def is_loop_exit(self, s, succ, block):
        """s -> succ leaves a loop through that loop's only exit, and `block` lies outside the loop"""
        loops = self.b.cfg.loops()
        for h, body in loops.items():
            if s in body and succ not in body and block not in body:
                exits = [(x, y) for x in body for y in self.b.cfg.succ[x] if y not in body and y in self.b.cfg.can_return]
                if len(exits) == 1:
                    return True
        return False

    def pure_term(self, tgt, call, depth, visiting):
        """the value of a call to a private, effect-free helper that returns one expression of its arguments on every
        path (a walk down one link kind, a field read): that expression with the arguments substituted; else None"""
        if tgt.is_closure or tgt.path in self.prog.accessors or tgt.path in self.stack or len(self.stack) >= 3 or tgt.path == self.fn.path:
            return None
        if tgt.body.locals[0]['ty'] in ('bool', '()', '!'):
            return None
        if tgt.self_adt not in self.prog.tree_adts or tgt.trait_item:
            return None     # only the trees' own private helpers (constructors of payloads differ between the copies by design)
        key = ('pureterm', tgt.path, self.mirror)
        cache = self.prog._summ_cache
        if key not in cache:
            from rules.live import mutates
            val = None
            if not mutates(self.prog, tgt) and not has_callbacks(self.prog, tgt):
                sub = Gef(self.prog, tgt, self.mirror, inline=True, stack=self.stack | {self.fn.path}).effects()
                texts = {text for (_, kind, text) in sub if kind == 'ret'}
                if sub and all(kind == 'ret' for (_, kind, _) in sub) and len(texts) == 1:
                    val = texts.pop()
            cache[key] = val
        tmpl = cache[key]
        if tmpl is None:
            return None
        argt = {'<P%d>' % (i + 1): self.term(a, depth + 1, visiting) for i, a in enumerate(call.args)}
        return subst(tmpl, argt)

    def bool_merge(self, d, truth, depth=0):
        """a branch on a bool that was merged from a short-circuit (`let c = a && b; if c`): when only one incoming value
        can have the wanted truth, the branch is that value's test together with the tests that lead to it"""
        d = strip(d)
        while d.kind == 'un' and d.args[0] == 'Not':
            d = strip(d.args[1])
            truth = not truth
        if d.kind != 'phi' or d.extra.get('anyof') or depth > 3 or d.extra.get('block') in self.b.cfg.loops():
            return None
        if (d.ty or 'bool') != 'bool' or len(d.args) != len(d.extra.get('preds', ())):
            return None
        cands = []
        for a, p in zip(d.args, d.extra['preds']):
            sa = strip(a)
            if sa.kind == 'const' and sa.args[0] in (0, 1, True, False):
                if bool(sa.args[0]) == truth:
                    cands.append((p, None))
            else:
                cands.append((p, sa))
        if len(cands) > 1:
            # a disjunction: exactly "not the other truth value" - when only one incoming value can have that one, the negated
            # conjunction of that value's test and the tests that lead to it (the item chain_guards gives the short-circuit spelling)
            if depth == 0:
                oth = []
                for a, p in zip(d.args, d.extra['preds']):
                    sa = strip(a)
                    if sa.kind == 'const' and sa.args[0] in (0, 1, True, False):
                        if bool(sa.args[0]) != truth:
                            oth.append((p, None))
                    else:
                        oth.append((p, sa))
                if len(oth) == 1:
                    p, sa = oth[0]
                    conj = set(self.guards(p)) - set(self.guards(d.extra.get('block')))
                    if sa is not None:
                        ex = self.expand_predicate(sa, not truth) if self.inline else None
                        if ex is not None:
                            conj |= set(ex)
                        else:
                            conj.add(self.cond(sa, not truth))
                    conj = {c_ for c_ in conj if not (isinstance(c_[0], str) and c_[0].startswith('all('))}
                    if conj:
                        return [(all_term(conj), False)]
            return []
        if not cands:
            return None
        p, sa = cands[0]
        out = set(self.guards(p))
        if sa is not None:
            sub = self.bool_merge(sa, truth, depth + 1)
            if sub is not None:
                out |= set(sub)
            else:
                ex = self.expand_predicate(sa, truth) if self.inline else None
                if ex is not None:
                    out |= set(ex)
                else:
                    out.add(self.cond(sa, truth))
        return sorted(out, key=str)

    def derived_cursor(self, L):
        """L is a loop-header phi that on every incoming edge equals node(I).f for the value I takes on that edge, I being
        another phi of the same header: (I, f); else None"""
        if L.extra.get('anyof') or 'same_as' in L.extra:
            return None
        h = L.extra.get('block')
        phis = self.b.phis.get(h, {})
        if not phis or h not in self.b.cfg.loops():
            return None
        for I in phis.values():
            if I is L or 'same_as' in I.extra or len(I.args) != len(L.args) or I.extra.get('preds') != L.extra.get('preds'):
                continue
            fld = None
            ok = True
            for la, ia in zip(L.args, I.args):
                la, ia = strip(la), strip(ia)
                nf = self.prog.node_field(la) if la.kind == 'load' else None
                if nf is None or len(nf[1]) != 1 or strip(nf[0]) is not ia:
                    ok = False
                    break
                if fld is None:
                    fld = nf[1][0]
                elif fld != nf[1][0]:
                    ok = False
                    break
            if ok and fld is not None:
                return (I, fld)
        return None

    def expand_predicate(self, d, truth):
        """a branch on a private, effect-free bool helper (`is_black(i)`) is the branch on what the helper tests: the
        conjunction of the helper's own guards if exactly one of its returns gives this truth value, no guard at all if
        several do (a disjunction, which the inlined spelling does not show as a dominating guard either); None if d is not
        such a call"""
        d = strip(d)
        while d.kind == 'un' and d.args[0] == 'Not':
            d = strip(d.args[1])
            truth = not truth
        if d.kind != 'call' or d.callee_name() in ('eq', 'ne', 'lt', 'le', 'gt', 'ge', 'cmp', 'partial_cmp'):
            return None
        tgt = self.prog.resolve(d)
        if tgt is None or tgt.is_closure or tgt.path in self.prog.accessors or tgt.path in self.stack or len(self.stack) >= 3:
            return None
        if tgt.body.locals[0]['ty'] != 'bool' or tgt.body.cfg.loops():
            return None
        from rules.live import mutates
        if mutates(self.prog, tgt) or has_callbacks(self.prog, tgt):
            return None
        sub = Gef(self.prog, tgt, self.mirror, inline=True, stack=self.stack | {self.fn.path}).effects()
        if any(kind != 'ret' or text not in ('true', 'false') for (_, kind, text) in sub):
            return None
        want = 'true' if truth else 'false'
        hits = [g for (g, kind, text) in sub if text == want]
        if len(hits) != 1:
            # a disjunction: this truth value is exactly "not the other one" - when the other one is a single conjunction, the
            # test is that conjunction negated (the same item the short-circuit spelling `a && b` gets on its else side)
            other = [g for (g, kind, text) in sub if text != want]
            if len(other) == 1 and other[0]:
                argt = {'<P%d>' % (i + 1): self.term(a) for i, a in enumerate(d.args)}
                conj = [(norm_eq(subst(ct, argt)), tr) for ct, tr in other[0]]
                return [(all_term(conj), False)]
            return None     # keep the call as the test it is (dropping it would hide which argument it tests)
        argt = {'<P%d>' % (i + 1): self.term(a) for i, a in enumerate(d.args)}
        return [(norm_eq(subst(ct, argt)), tr) for ct, tr in hits[0]]

    def two_unit_enum(self, ty):
        ty = (ty or '').lstrip('&').strip()
        a = self.prog.adts.get(ty)
        if a is None:
            for pth, x in self.prog.adts.items():
                if pth.split('::')[-1] == ty.split('::')[-1]:
                    a = x
        return bool(a) and len(a.get('variants', [])) == 2 and all(not v.get('fields') for v in a['variants'])

    def guards(self, block):
        from rules.gate import edge_truth
        b = self.b
        cfg = b.cfg
        out = set()
        for s, d in b.switch_discr.items():
            t = b.mir['blocks'][s]['term']
            live = {s2 for s2 in cfg.succ[s] if s2 in cfg.can_return}
            if len(live) < len(set(cfg.succ[s])):
                # a side that cannot return: an assertion - unless it is only the `otherwise -> unreachable` of an exhaustive
                # `match` over an enum, whose arms are decisions like any other
                dead = set(cfg.succ[s]) - live
                exhaustive = t.get('k') == 'switch' and dead == {t.get('otherwise')} and len(live) >= 2 and b.mir['blocks'][t['otherwise']]['term'].get('k') == 'unreachable'
                if not exhaustive:
                    continue
            for succ in cfg.succ[s]:
                if succ not in live:
                    continue
                if cfg.pred[succ] != [s] or not cfg.dominates(succ, block):
                    continue
                if self.inline and self.is_loop_exit(s, succ, block):
                    continue        # "the loop has ended" is implied by being after it; a helper call in its place shows no such test
                tr = edge_truth(t, succ)
                if tr is not None:
                    pb = self.bool_merge(d, tr)
                    if pb is not None:
                        out |= set(pb)
                        continue
                    ex = self.expand_predicate(d, tr) if self.inline else None
                    if ex is not None:
                        out |= set(ex)
                        continue
                    out.add(self.cond(d, tr))
                else:
                    # multi-way switch: record the value
                    vals = [tv for tv, tb in t['targets'] if tb == succ]
                    sd = strip(d)
                    if sd is not None and sd.kind == 'discr' and vals and vals[0] in (0, 1) and self.two_unit_enum(strip(sd.args[0]).ty if strip(sd.args[0]) is not None else ''):
                        out.add((self.term(d), vals[0] == 1))      # the arm of a two-variant enum: the same test as `== Variant`
                    else:
                        out.add((self.term(d), 'v%s' % (vals[0] if vals else 'other')))
        out |= self.chain_guards(block)
        out = simplify_all(out)
        return tuple(sorted(out, key=str))

    def chain_guards(self, block):
        """the else side of a short-circuit test (`if a && b { T } else { X }`, `if a || b { X } else { T }`): X is entered from
        each test of the chain on the edge that decides against T; what holds there is the negated conjunction of what leads to T"""
        from rules.gate import edge_truth
        b = self.b
        cfg = b.cfg
        out = set()
        loops = cfg.loops()
        for M in cfg.rpo:
            if len(cfg.pred[M]) < 2 or M in loops or not (M == block or cfg.dominates(M, block)):
                continue
            preds = list(cfg.pred[M])
            sw = []
            ok = True
            via = {}
            for p_ in preds:
                tgt_ = M
                t = b.mir['blocks'][p_]['term']
                if t.get('k') == 'goto' and len(cfg.pred[p_]) == 1 and not any(st_.point[0] == p_ for st_ in b.stores) and p_ not in b.call_at:
                    tgt_, p_ = p_, cfg.pred[p_][0]          # an empty landing block of the edge
                    t = b.mir['blocks'][p_]['term']
                if t.get('k') != 'switch' or p_ not in b.switch_discr or len(set(cfg.succ[p_])) != 2:
                    ok = False
                    break
                via[p_] = tgt_
                tr = edge_truth(t, tgt_)
                if tr is None:
                    ok = False
                    break
                sw.append((p_, tr))
            if not ok or len(sw) < 2 or len(sw) > 4:
                continue
            # order by dominance; every test but the last continues (on its other edge) to the next one and nowhere else
            sw0 = list(sw)
            sw = sorted(sw0, key=lambda x: sum(1 for y in sw0 if cfg.dominates(y[0], x[0])))
            chain_ok = True
            for (s1, _), (s2, _) in zip(sw, sw[1:]):
                other = [x for x in set(cfg.succ[s1]) if x != via.get(s1, M)]
                if len(other) != 1 or not (other[0] == s2 or cfg.dominates(other[0], s2)) or M in cfg.reachable_from(other[0]) - {M} and False:
                    chain_ok = False
                    break
                # nothing but the computation of the next test in between: no other way out
                cur = other[0]
                steps = 0
                while cur != s2 and steps < 6:
                    nx = [x for x in cfg.succ[cur] if x in cfg.can_return]
                    if len(nx) != 1 or len(cfg.pred[cur]) != 1:
                        chain_ok = False
                        break
                    cur = nx[0]
                    steps += 1
                if cur != s2 or len(cfg.pred[s2]) != 1:
                    chain_ok = False
                if not chain_ok:
                    break
            if not chain_ok:
                continue
            conj = []
            for (s_, tr) in sw:
                d = b.switch_discr[s_]
                ex = self.expand_predicate(d, not tr) if self.inline else None
                if ex is not None:
                    conj += list(ex)
                else:
                    conj.append(self.cond(d, not tr))
            out.add((all_term(conj), False))
        return out

    # ---- rendering of one event (under the current choice of merge operands) ---------------------------------
    def _render_store(self, st):
        prog = self.prog
        root = strip(st.root)
        acc = prog.accessor_call(root)
        path = [self.field(p) for p in st.path if p != '*' and isinstance(p, str)]
        if 'PAYLOAD' in path:
            path = path[:path.index('PAYLOAD') + 1]
        tgt = ('node(%s)' % self.term(acc[2])) if acc is not None else self.term(root)
        return [(st.point, 'store', '%s%s := %s' % (tgt, ''.join('.' + p for p in path), self.term(st.value)), ())]

    def _render_call(self, c):
        prog = self.prog
        out = []
        tgt = prog.resolve(c)
        if tgt is not None and tgt.path in prog.accessors:
            return out
        if tgt is not None:
            from rules.live import mutates
            if mutates(prog, tgt) or any((a.ty or '').startswith('&mut') for a in c.args):
                if self.inline and tgt.path not in self.stack and len(self.stack) < 3 and not tgt.is_closure and tgt.path != self.fn.path:
                    consts = {}
                    for i, a in enumerate(c.args):
                        a = strip(a)
                        if a.id in self.choice:
                            a = strip(self.choice[a.id])
                        if a.kind == 'const' and isinstance(a.args[0], (int, bool)) and not prog.is_empty_ref(a) and not prog.is_nil_index(a):
                            consts[i + 1] = int(a.args[0])
                        elif a.kind == 'agg' and a.extra.get('akind') == 'adt' and a.extra.get('variant') is not None and 'idx' in a.extra['variant']:
                            consts[('discr', i + 1)] = int(a.extra['variant']['idx'])     # an enum variant built on the spot: its discriminant is known
                    tgt_s = prog.specialise(tgt, consts) if consts else tgt
                    sub = Gef(prog, tgt_s, self.mirror, inline=True, stack=self.stack | {self.fn.path}).effects()
                    argt = {'<P%d>' % (i + 1): self.term(a) for i, a in enumerate(c.args)}
                    for (g2, kind2, text2) in sub:
                        if kind2 == 'ret':
                            continue
                        g3 = tuple(sorted(((norm_eq(subst(ct, argt)), tr) for ct, tr in g2), key=str))
                        out.append((c.point, kind2, subst(text2, argt), g3))
                else:
                    cargs = [self.term(a) for a in c.args]
                    perm = getattr(prog, '_arg_perm', {}).get(tgt.path)
                    if perm and len(perm) == len(cargs):
                        cargs = [cargs[i] for i in perm]
                    out.append((c.point, 'call', '%s(%s)' % (self.name(tgt.name), ','.join(cargs[1:])), ()))
        elif prog.classify(c) == 'std':
            from program import VEC_MUTATORS
            if c.callee_name() in VEC_MUTATORS and c.args and (c.args[0].ty or '').startswith('&mut'):
                out.append((c.point, 'call', 'std::%s(%s)' % (c.callee_name(), ','.join(self.term(a) for a in c.args)), ()))
        elif prog.classify(c) == 'callback':
            if c.callee_name() == 'clone' and c.args and self.term(c.args[0]).endswith('.PAYLOAD'):
                return out        # payload transfer: clone vs copy is abstracted
            out.append((c.point, 'call', 'user::%s' % c.callee_name(), ()))
        return out

    def _render_ret(self, blk, v):
        b = self.b
        is_bool = b.locals[0]['ty'] == 'bool'
        sv = strip(v)
        if sv.id in self.choice:
            sv = strip(self.choice[sv.id])
        if is_bool and sv.kind == 'const' and sv.args[0] in (0, 1, True, False):
            return [((blk, 10 ** 6), 'ret', 'true' if sv.args[0] else 'false', ())]
        if is_bool and sv.kind in ('call', 'bin', 'un', 'discr') and (sv.kind != 'call' or sv.callee_name() in ('eq', 'ne')):
            # a returned test is the same as branching on it and returning the constants
            ct, tr = self.cond(sv, True)
            return [((blk, 10 ** 6), 'ret', 'true', ((ct, tr),)), ((blk, 10 ** 6), 'ret', 'false', ((ct, not tr),))]
        return [((blk, 10 ** 6), 'ret', self.term(v), ())]

    def _chain_test(self, s_blk, block):
        """s_blk is a test of a short-circuit chain whose else side (a merge entered from s_blk, directly or through an empty
        landing block) dominates `block`"""
        b = self.b
        cfg = b.cfg
        for succ in cfg.succ[s_blk]:
            for m in (succ, *(cfg.succ[succ] if b.mir['blocks'][succ]['term'].get('k') == 'goto' and len(cfg.pred[succ]) == 1 else ())):
                if len(cfg.pred[m]) >= 2 and m not in cfg.loops() and (m == block or cfg.dominates(m, block)):
                    return True
        return False

    def selection_merges(self, vals, block):
        """merges (non-loop phis with 2-3 operands) that the given values, or the tests dominating `block`, read: {merge
        block: [phi, ..]}; an effect that reads such a merge is one effect per way of reaching the merge"""
        b = self.b
        loops = b.cfg.loops()
        found = {}
        seen = set()
        roots = [v for v in vals if v is not None]
        for s_blk, d in b.switch_discr.items():
            if any(b.cfg.pred[succ] == [s_blk] and b.cfg.dominates(succ, block) for succ in b.cfg.succ[s_blk]):
                roots.append(d)
        for r0 in roots:
            for x in walk(r0):
                if x.id in seen:
                    continue
                seen.add(x.id)
                if x.kind == 'phi' and not x.extra.get('anyof') and 'same_as' not in x.extra and x.extra.get('local', -1) != -1 \
                        and x.extra['block'] not in loops and 2 <= len(x.args) <= 3 and len(x.args) == len(x.extra.get('preds', ())) \
                        and b.cfg.dominates(x.extra['block'], block) and (x.ty or '') != 'bool':
                    if self.derived_cursor(x) is None:
                        found.setdefault(x.extra['block'], []).append(x)
        return found

    def effects(self):
        prog = self.prog
        b = self.b
        cfg = b.cfg
        raw = []
        priv = prog.private_tree_fields(self.fn.self_adt) if getattr(self, 'fn', None) is not None and self.fn.self_adt else set()
        for st in b.stores:
            if st.point[0] in cfg.reach:
                if priv:
                    fl = [p_ for p_ in st.path if p_ != '*' and isinstance(p_, str)]
                    if fl and fl[0] in priv and strip(st.root).kind == 'param':
                        continue        # bookkeeping in a field only this copy has: not part of what the copies share
                raw.append((st.point, 'store', st, [st.root, st.value]))
        for c in b.calls:
            if c.point[0] in cfg.reach:
                raw.append((c.point, 'call', c, list(c.args)))
        from rules.gate import ret_cases
        if b.locals[0]['ty'] not in ('()', '!'):
            for blk, v in ret_cases(b):
                raw.append(((blk, 10 ** 6), 'ret', (blk, v), [v]))
        order = {blk: i for i, blk in enumerate(cfg.rpo)}
        raw.sort(key=lambda e: (order.get(e[0][0], 10 ** 6), e[0][1]))
        out = []
        for (pt, rk, obj, vals) in raw:
            merges = self.selection_merges(vals, pt[0]) if self.inline else {}
            combos = [dict()]
            if merges:
                import itertools
                blocks = sorted(merges)
                sizes = [len(merges[m][0].args) for m in blocks]
                total = 1
                for z in sizes:
                    total *= z
                if total <= 8:
                    combos = []
                    for pick in itertools.product(*[range(z) for z in sizes]):
                        ch = {}
                        preds = []
                        for m, i in zip(blocks, pick):
                            for ph in merges[m]:
                                if i < len(ph.args):
                                    ch[ph.id] = ph.args[i]
                            preds.append(merges[m][0].extra['preds'][i])
                        ch['__preds__'] = preds
                        combos.append(ch)
            for ch in combos:
                preds = ch.pop('__preds__', []) if ch else []
                saved_choice, saved_memo = self.choice, self.memo
                self.choice = dict(saved_choice)
                self.choice.update(ch)
                if ch:
                    self.memo = {}
                try:
                    if rk == 'store':
                        entries = self._render_store(obj)
                    elif rk == 'call':
                        entries = self._render_call(obj)
                    else:
                        entries = self._render_ret(obj[0], obj[1])
                    g0 = set(self.guards(pt[0]))
                    if rk == 'store' and getattr(obj, 'phi_pred', None) is not None:
                        g0 |= set(self.guards(obj.phi_pred))        # a write through a reference chosen by a test: the chosen side's test
                    for pb in preds:
                        g0 |= set(self.guards(pb))
                finally:
                    self.choice, self.memo = saved_choice, saved_memo
                for (pt2, kind, text, extra) in entries:
                    g = tuple(sorted(simplify_all(g0 | set(extra)), key=str))
                    # contradictory guards: this way of reaching the merge cannot lead here
                    if any((ct, (not tr)) in g for (ct, tr) in g if isinstance(tr, bool)):
                        continue
                    # a value known equal to a constant on this path is that constant (`if x == EMPTY_REF { return x }`)
                    for (ct, tr) in g:
                        if tr is True and isinstance(ct, str) and ct.startswith('Eq(') and ct.endswith(')'):
                            parts, depth_, cur_ = [], 0, ''
                            for chx in ct[3:-1]:
                                if chx in '({':
                                    depth_ += 1
                                elif chx in ')}':
                                    depth_ -= 1
                                if chx == ',' and depth_ == 0:
                                    parts.append(cur_)
                                    cur_ = ''
                                else:
                                    cur_ += chx
                            parts.append(cur_)
                            if len(parts) == 2:
                                for cst, other in ((parts[0], parts[1]), (parts[1], parts[0])):
                                    if cst in ('EMPTY_REF', 'NIL_INDEX') and other not in ('EMPTY_REF', 'NIL_INDEX'):
                                        if kind == 'ret' and text == other:
                                            text = cst
                                        elif kind == 'store' and text.endswith(' := ' + other):
                                            text = text[:-len(other)] + cst
                    out.append((g, kind, text))
        # identical effects produced by different ways of reaching a merge are one effect
        dedup = []
        seen_e = set()
        for e in out:
            k = (e[0], e[1], e[2])
            if e[1] == 'store' or e[1] == 'ret':
                if k in seen_e:
                    continue
                seen_e.add(k)
            dedup.append(e)
        # the same effect under a test and under its negation is the effect without the test (a split that did not matter)
        changed = True
        rounds = 0
        while changed and rounds < 6:
            changed = False
            rounds += 1
            by_text = {}
            for i, e in enumerate(dedup):
                if e is not None and e[1] in ('store', 'ret'):
                    by_text.setdefault((e[1], e[2]), []).append(i)
            for key_, idxs in by_text.items():
                if len(idxs) < 2:
                    continue
                for ai in range(len(idxs)):
                    for bi in range(ai + 1, len(idxs)):
                        ea, eb = dedup[idxs[ai]], dedup[idxs[bi]]
                        if ea is None or eb is None:
                            continue
                        sa_, sb_ = set(ea[0]), set(eb[0])
                        da, db = sa_ - sb_, sb_ - sa_
                        if len(da) == 1 and len(db) == 1:
                            (ca, ta), (cb, tb) = next(iter(da)), next(iter(db))
                            if ca == cb and isinstance(ta, bool) and isinstance(tb, bool) and ta != tb:
                                dedup[idxs[ai]] = (tuple(sorted(sa_ & sb_, key=str)), ea[1], ea[2])
                                dedup[idxs[bi]] = None
                                changed = True
            dedup = [e for e in dedup if e is not None]
            # merging may produce duplicates
            seen2, d2 = set(), []
            for e in dedup:
                k2 = (e[0], e[1], e[2])
                if e[1] in ('store', 'ret') and k2 in seen2:
                    continue
                seen2.add(k2)
                d2.append(e)
            dedup = d2
        return sort_independent(dedup)


def all_term(conj):
    """canonical term for a conjunction of (term, truth) tests"""
    return 'all(' + ' & '.join(sorted('%s=%s' % (ct, tr) for ct, tr in set(conj))) + ')'


def parse_all(term):
    """members of all(a=T & b=F & all(..)=F): split at the top level only"""
    inner = term[4:-1]
    parts, depth, cur, i = [], 0, '', 0
    while i < len(inner):
        ch = inner[i]
        if ch in '({':
            depth += 1
        elif ch in ')}':
            depth -= 1
        if depth == 0 and inner.startswith(' & ', i):
            parts.append(cur)
            cur = ''
            i += 3
            continue
        cur += ch
        i += 1
    parts.append(cur)
    mem = []
    for m_ in parts:
        ct_, _, tr_ = m_.rpartition('=')
        mem.append((ct_, tr_ == 'True'))
    return mem


def simplify_all(gs):
    """a negated conjunction next to plain tests: true outright when a member is refuted by a plain test (drop it); the negation of
    its one open member when all the others hold"""
    gs = set(gs)
    changed = True
    while changed:
        changed = False
        for (ct, tr) in list(gs):
            if not (isinstance(ct, str) and ct.startswith('all(') and tr is False):
                continue
            mem = parse_all(ct)
            if any((c_, (not t_)) in gs for c_, t_ in mem):
                gs.discard((ct, tr))
                changed = True
                continue
            open_ = [(c_, t_) for c_, t_ in mem if (c_, t_) not in gs]
            if len(open_) < len(mem):
                gs.discard((ct, tr))
                if len(open_) == 1:
                    gs.add((open_[0][0], not open_[0][1]))
                elif len(open_) > 1:
                    gs.add((all_term(open_), False))
                changed = True
    return gs


def norm_eq(ct):
    """Eq(a,b) with its two arguments in sorted order (after a substitution)"""
    if not (isinstance(ct, str) and ct.startswith('Eq(') and ct.endswith(')')):
        return ct
    parts, depth, cur = [], 0, ''
    for ch in ct[3:-1]:
        if ch in '({':
            depth += 1
        elif ch in ')}':
            depth -= 1
        if ch == ',' and depth == 0:
            parts.append(cur)
            cur = ''
        else:
            cur += ch
    parts.append(cur)
    if len(parts) != 2:
        return ct
    a, b = sorted(parts)
    return 'Eq(%s,%s)' % (a, b)


def has_callbacks(prog, fn):
    return any(prog.classify(c) == 'callback' for c in fn.body.calls)


def split_top(s):
    out, depth, cur = [], 0, ''
    for ch in s:
        if ch in '({':
            depth += 1
        elif ch in ')}':
            depth -= 1
        if ch == '|' and depth == 0:
            out.append(cur)
            cur = ''
        else:
            cur += ch
    if cur:
        out.append(cur)
    return out


def resort(text):
    """re-sort the members of every phi{..} in a term string (needed after left/right swapping)"""
    out = ''
    i = 0
    while i < len(text):
        j = text.find('phi{', i)
        if j < 0:
            out += text[i:]
            break
        out += text[i:j]
        depth = 0
        k = j + 3
        while k < len(text):
            if text[k] == '{':
                depth += 1
            elif text[k] == '}':
                depth -= 1
                if depth == 0:
                    break
            k += 1
        members = sorted(resort(m) for m in split_top(text[j + 4:k]))
        out += 'phi{' + '|'.join(members) + '}'
        i = k + 1
    return out


def sort_independent(seq):
    """sort maximal runs of adjacent stores with the same guard that cannot interfere (distinct targets, no value reads
    a target written in the run)"""
    out = []
    run = []

    def flush():
        if run:
            targets = [e[2].split(' := ')[0] for e in run]
            values = [e[2].split(' := ')[1] for e in run]
            indep = len(set(targets)) == len(targets)        # reads carry epochs, so the order of writes to distinct places is immaterial
            out.extend(sorted(run) if indep else run)
            del run[:]
    for e in seq:
        if e[1] == 'store' and (not run or run[-1][0] == e[0]):
            run.append(e)
        else:
            flush()
            if e[1] == 'store':
                run.append(e)
            else:
                out.append(e)
    flush()
    return tuple(out)


def subst(text, argt):
    if '<P' not in text:
        return text
    import re
    return re.sub(r'<P\d+>', lambda m: argt.get(m.group(0), m.group(0)), text)


def group_by_guard(form):
    """effects under different guard sets are on different paths or ordered by construction of the guards: group the
    effects by guard set (groups sorted), keeping the order inside a group"""
    groups = {}
    for e in form:
        groups.setdefault(e[0], []).append(e)
    out = []
    for g in sorted(groups, key=str):
        out.extend(groups[g])
    return tuple(out)


def gef(prog, fn, mirror=False, inline=False):
    key = ('gef', fn.path, mirror, inline)
    if key not in prog._summ_cache:
        prog._summ_cache[key] = group_by_guard(Gef(prog, fn, mirror, inline=inline).effects())
    return prog._summ_cache[key]


def is_side_cond(c):
    """Eq(x, node(p).left|right) with x not EMPTY_REF"""
    if not c.startswith('Eq(') or 'EMPTY_REF' in c:
        return None
    for side in ('left', 'right'):
        if c.endswith('.%s)' % side) or ('.%s,' % side) in c:
            return side
    return None


def canon_side(form):
    """express every side condition through `.left` (x == p.right  <=>  !(x == p.left) for a linked non-root child)"""
    res = []
    for g, kind, text in form:
        g2 = []
        for c, tr in g:
            if isinstance(tr, bool) and is_side_cond(c) == 'right':
                c2 = c.replace('.right)', '.left)').replace('.right,', '.left,')
                if c2.startswith('Eq(') and c2.endswith(')'):
                    inner = c2[3:-1]
                    depth = 0
                    for i, ch in enumerate(inner):
                        if ch == '(':
                            depth += 1
                        elif ch == ')':
                            depth -= 1
                        elif ch == ',' and depth == 0:
                            a, b2 = inner[:i], inner[i + 1:]
                            if a > b2:
                                a, b2 = b2, a
                            c2 = 'Eq(%s,%s)' % (a, b2)
                            break
                g2.append((c2, not tr))
            else:
                g2.append((c, tr))
        res.append((tuple(sorted(set(g2), key=str)), kind, text))
    return res


def self_symmetric(form):
    """(has side conditions, symmetric?, first difference)"""
    has = any(isinstance(tr, bool) and is_side_cond(c) for g, _, _ in form for c, tr in g)
    if not has:
        return False, True, None
    a = sorted(canon_side(form), key=str)
    b = sorted(canon_side(mirror_form(form)), key=str)
    if a == b:
        return True, True, None
    sa, sb = set(map(str, a)), set(map(str, b))
    only_a = [x for x in a if str(x) not in sb]
    only_b = [x for x in b if str(x) not in sa]
    d = 'no mirror counterpart for %s' % (fmt(only_a[0]) if only_a else fmt(only_b[0]))
    return True, False, d


def locally_symmetric(form):
    """weaker reading for a function that is not symmetric as a whole (it has a one-sided part, e.g. the successor
    search of a removal): every which-side test `x == node(P).left` must still have mirror-image outcomes *relative to
    that parent*: the effects under the test, with node(P).left and node(P).right exchanged, are the effects under its
    negation.  Returns (ok, first difference)."""
    import collections
    a = canon_side(form)
    conds = []
    for g, _, _ in a:
        for c, tr in g:
            if isinstance(tr, bool) and is_side_cond(c) and c not in conds:
                conds.append(c)
    if not conds:
        return False, 'no side condition'
    for c in conds:
        ops = split_eq(c)
        if ops is None:
            return False, 'unreadable side condition %s' % c
        sides = [o for o in ops if o.endswith('.left')]
        if len(sides) != 1:
            return False, 'side condition %s does not compare with one child link' % c
        l_term = sides[0]
        r_term = l_term[:-len('.left')] + '.right'

        def sw(x):
            if not isinstance(x, str):
                return x
            return x.replace(l_term, '\0').replace(r_term, l_term).replace('\0', r_term)
        t_side = collections.Counter((tuple(sorted(((norm_eq(sw(cc)), tt) for cc, tt in g if cc != c), key=str)), kind, sw(text)) for g, kind, text in a if (c, True) in g)
        f_side = collections.Counter((tuple(sorted(((cc, tt) for cc, tt in g if cc != c), key=str)), kind, text) for g, kind, text in a if (c, False) in g)
        if t_side != f_side:
            only = list((t_side - f_side).elements()) or list((f_side - t_side).elements())
            return False, 'under %s: no mirror counterpart for %s' % (c, fmt(only[0]))
    return True, None


def split_eq(c):
    if not (c.startswith('Eq(') and c.endswith(')')):
        return None
    inner, depth = c[3:-1], 0
    for i, ch in enumerate(inner):
        if ch in '({':
            depth += 1
        elif ch in ')}':
            depth -= 1
        elif ch == ',' and depth == 0:
            return inner[:i], inner[i + 1:]
    return None


def side_partitions(form):
    """for every side-predicate guard C of the form: (C, effects under C=True with C removed, effects under C=False with C removed)"""
    conds = []
    for g, kind, text in form:
        for c, tr in g:
            if isinstance(tr, bool) and is_side_cond(c) and c not in conds:
                conds.append(c)
    out = []
    for c in conds:
        t_side = tuple((tuple(x for x in g if x[0] != c), kind, text) for g, kind, text in form if (c, True) in g)
        f_side = tuple((tuple(x for x in g if x[0] != c), kind, text) for g, kind, text in form if (c, False) in g)
        out.append((c, t_side, f_side))
    return out


def renorm_all(c2):
    """re-sort an all(..) term (and the ones nested in it) after its members changed"""
    if not (c2.startswith('all(') and c2.endswith(')')):
        return c2
    mem = []
    for ct_, tr_ in parse_all(c2):
        ct_ = renorm_all(resort(sort_eq(ct_)))
        mem.append('%s=%s' % (ct_, tr_))
    return 'all(' + ' & '.join(sorted(set(mem))) + ')'


def sort_eq(c2):
    if c2.startswith('Eq(') and c2.endswith(')'):
        inner = c2[3:-1]
        depth = 0
        for i, ch in enumerate(inner):
            if ch == '(':
                depth += 1
            elif ch == ')':
                depth -= 1
            elif ch == ',' and depth == 0:
                a, b2 = inner[:i], inner[i + 1:]
                if a > b2:
                    a, b2 = b2, a
                return 'Eq(%s,%s)' % (a, b2)
    return c2


def mirror_form(form):
    from hircanon import swap_lr

    def mt(x):
        return swap_lr(x) if isinstance(x, str) else x
    res = []
    for g, kind, text in form:
        g2 = []
        for c, tr in g:
            c2 = swap_lr(c)
            # keep == operands sorted after the swap
            c2 = sort_eq(c2)
            c2 = renorm_all(c2)
            g2.append((resort(c2), tr))
        res.append((tuple(sorted(g2, key=str)), kind, resort(mt(text))))
    return sort_independent(res)


def first_diff(a, b):
    for i, (x, y) in enumerate(zip(a, b)):
        if x != y:
            return 'effect #%d: %s  vs  %s' % (i, fmt(x), fmt(y))
    if len(a) != len(b):
        longer = a if len(a) > len(b) else b
        return 'effect #%d only on one side: %s' % (min(len(a), len(b)), fmt(longer[min(len(a), len(b))]))
    return None


def fmt(e):
    g = ' & '.join('%s=%s' % (c, t) for c, t in e[0])
    return '[%s] %s %s' % (g[:160], e[1], e[2][:160])
