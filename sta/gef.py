"""Guarded-effects form (GEF) of a function on MIR/SSA: a canonical, syntax-insensitive summary used by TWIN as a
second opinion when the canonical HIR of two copies (or two mirror halves) differs.

  effect  = store(target, value) | call(effectful callee, args) | ret(value)
  guard   = set of (condition term, truth) of the branch edges that dominate the effect's block
  form    = effects in control-flow order, adjacent independent stores sorted

Terms are printed without local names (parameters by position), with the module family erased, the payload field and
its clone/copy abstracted, == / != normalised, commutative operands sorted, accessor node/node_mut identified.
match/if, while/loop, let hoisting, return/tail, renames, operand order and debug assertions do not change the form;
a different value written, a different guard, a dropped or added effect, or a reordering of dependent effects does."""
from ssa import strip, walk
from hircanon import fam_erase, swap_lr

COMMUT = ('Eq', 'Ne', 'BitAnd', 'BitOr', 'BitXor', 'Add', 'Mul')
PAYLOAD_FIELDS = ('entity', 'value')


class Gef:
    def __init__(self, prog, fn, mirror=False):
        self.prog = prog
        self.fn = fn
        self.b = fn.body
        self.mirror = mirror
        self.memo = {}

    def name(self, s):
        s = fam_erase(s)
        return swap_lr(s) if self.mirror else s

    def field(self, f):
        if f in PAYLOAD_FIELDS:
            return 'PAYLOAD'
        return swap_lr(f) if self.mirror else f

    def term(self, v, depth=0, visiting=()):
        v = strip(v)
        if v is None:
            return 'none'
        if v.id in self.memo and not visiting:
            return self.memo[v.id]
        if depth > 14:
            return '..'
        k = v.kind
        prog = self.prog
        if k == 'param':
            r = 'P%d' % v.args[0]
        elif k == 'const':
            nm = (v.args[1] or '').split('::')[-1]
            if nm in ('EMPTY_REF', 'NIL_INDEX'):
                r = nm
            elif v.args[0] is not None:
                r = '%s:%s' % (v.args[0], (v.ty or '').split('::')[-1])
            else:
                r = str(v.args[2])
        elif k in ('load', 'ref'):
            root = v.args[0]
            path = [self.field(p) for p in v.args[1] if p != '*' and isinstance(p, str)]
            acc = prog.accessor_call(strip(root))
            if acc is not None:
                rs = 'node(%s)' % self.term(acc[2], depth + 1, visiting)
            else:
                rs = self.term(root, depth + 1, visiting)
            # PAYLOAD and anything below it is one thing
            if 'PAYLOAD' in path:
                path = path[:path.index('PAYLOAD') + 1]
            r = rs + ''.join('.' + p for p in path)
        elif k == 'call':
            c = v.extra['callee']
            nm = c.get('name') or 'indirect'
            if nm == 'clone' and v.args:
                a = self.term(v.args[0], depth + 1, visiting)
                if a.endswith('.PAYLOAD'):
                    r = a
                else:
                    r = 'clone(%s)' % a
            else:
                tgt = prog.resolve(v)
                if tgt is not None and tgt.path in prog.accessors:
                    r = 'node(%s)' % self.term(v.args[1], depth + 1, visiting)
                else:
                    full = self.name((tgt.name if tgt is not None else nm))
                    args = [self.term(a, depth + 1, visiting) for a in v.args]
                    # result of an effectful call is identified by its position among calls of that name
                    r = '%s(%s)' % (full, ','.join(args))
        elif k == 'bin':
            op = v.args[0].replace('WithOverflow', '').replace('Unchecked', '')
            a, b2 = self.term(v.args[1], depth + 1, visiting), self.term(v.args[2], depth + 1, visiting)
            if op in COMMUT and a > b2:
                a, b2 = b2, a
            r = '%s(%s,%s)' % (op, a, b2)
        elif k == 'un':
            r = '%s(%s)' % (v.args[0], self.term(v.args[1], depth + 1, visiting))
        elif k == 'discr':
            r = 'discr(%s)' % self.term(v.args[0], depth + 1, visiting)
        elif k == 'agg':
            e = v.extra
            nm = e['path'].split('::')[-1] if e['path'] else e['akind']
            if e.get('variant'):
                nm += '::' + e['variant']['name']
            parts = [self.term(a, depth + 1, visiting) for a in v.args]
            parts = [x for x in parts if x != 'default()']      # zero-sized markers differ between copies by construction
            r = '%s{%s}' % (self.name(nm), ','.join(parts))
        elif k == 'phi':
            if v.id in visiting:
                r = 'rec'
            else:
                ops = sorted({self.term(a, depth + 1, visiting + (v.id,)) for a in v.args})
                r = 'phi{%s}' % '|'.join(ops)
        elif k == 'update':
            r = 'upd(%s;%s:=%s)' % (self.term(v.args[0], depth + 1, visiting), '.'.join(map(str, v.args[1])), self.term(v.args[2], depth + 1, visiting))
        elif k == 'escaped':
            r = 'local'
        else:
            r = k
        if not visiting:
            self.memo[v.id] = r
        return r

    def cond(self, d, truth):
        """normalised (term, truth)"""
        d = strip(d)
        while d.kind == 'un' and d.args[0] == 'Not':
            d = strip(d.args[1])
            truth = not truth
        if d.kind == 'bin' and d.args[0] == 'Ne':
            a, b2 = self.term(d.args[1]), self.term(d.args[2])
            if a > b2:
                a, b2 = b2, a
            return ('Eq(%s,%s)' % (a, b2), not truth)
        return (self.term(d), truth)

    def guards(self, block):
        from rules.gate import edge_truth
        b = self.b
        cfg = b.cfg
        out = set()
        for s, d in b.switch_discr.items():
            t = b.mir['blocks'][s]['term']
            if any(s2 not in cfg.can_return for s2 in cfg.succ[s]):
                continue        # assertion
            for succ in cfg.succ[s]:
                if cfg.pred[succ] != [s] or not cfg.dominates(succ, block):
                    continue
                tr = edge_truth(t, succ)
                if tr is not None:
                    out.add(self.cond(d, tr))
                else:
                    # multi-way switch: record the value
                    vals = [tv for tv, tb in t['targets'] if tb == succ]
                    out.add((self.term(d), 'v%s' % (vals[0] if vals else 'other')))
        return tuple(sorted(out, key=str))

    def effects(self):
        prog = self.prog
        b = self.b
        cfg = b.cfg
        ev = []
        for st in b.stores:
            if st.point[0] not in cfg.reach:
                continue
            root = strip(st.root)
            acc = prog.accessor_call(root)
            path = [self.field(p) for p in st.path if p != '*' and isinstance(p, str)]
            if 'PAYLOAD' in path:
                path = path[:path.index('PAYLOAD') + 1]
            tgt = ('node(%s)' % self.term(acc[2])) if acc is not None else self.term(root)
            ev.append((st.point, 'store', '%s%s := %s' % (tgt, ''.join('.' + p for p in path), self.term(st.value))))
        for c in b.calls:
            if c.point[0] not in cfg.reach:
                continue
            tgt = prog.resolve(c)
            if tgt is not None and tgt.path in prog.accessors:
                continue
            if tgt is not None:
                from rules.live import mutates
                if mutates(prog, tgt) or any((a.ty or '').startswith('&mut') for a in c.args):
                    ev.append((c.point, 'call', '%s(%s)' % (self.name(tgt.name), ','.join(self.term(a) for a in c.args[1:]))))
            elif prog.classify(c) == 'std':
                from program import VEC_MUTATORS
                if c.callee_name() in VEC_MUTATORS and c.args and (c.args[0].ty or '').startswith('&mut'):
                    ev.append((c.point, 'call', 'std::%s(%s)' % (c.callee_name(), ','.join(self.term(a) for a in c.args))))
            elif prog.classify(c) == 'callback':
                ev.append((c.point, 'call', 'user::%s' % c.callee_name()))
        from rules.gate import ret_cases
        if b.locals[0]['ty'] not in ('()', '!'):
            for blk, v in ret_cases(b):
                ev.append(((blk, 10 ** 6), 'ret', self.term(v)))
        # order: reverse post-order of blocks, then statement index
        order = {blk: i for i, blk in enumerate(cfg.rpo)}
        ev.sort(key=lambda e: (order.get(e[0][0], 10 ** 6), e[0][1]))
        out = [(self.guards(pt[0]), kind, text) for pt, kind, text in ev]
        return sort_independent(out)


def sort_independent(seq):
    """sort maximal runs of adjacent stores with the same guard that cannot interfere (distinct targets, no value reads
    a target written in the run)"""
    out = []
    run = []

    def flush():
        if run:
            targets = [e[2].split(' := ')[0] for e in run]
            values = [e[2].split(' := ')[1] for e in run]
            indep = len(set(targets)) == len(targets) and not any(t in v for t in targets for v in values)
            out.extend(sorted(run) if indep else run)
            del run[:]
    for e in seq:
        if e[1] == 'store' and (not run or run[-1][0] == e[0]):
            run.append(e)
        else:
            flush()
            if e[1] == 'store':
                run.append(e)
            else:
                out.append(e)
    flush()
    return tuple(out)


def gef(prog, fn, mirror=False):
    return Gef(prog, fn, mirror).effects()


def first_diff(a, b):
    for i, (x, y) in enumerate(zip(a, b)):
        if x != y:
            return 'effect #%d: %s  vs  %s' % (i, fmt(x), fmt(y))
    if len(a) != len(b):
        longer = a if len(a) > len(b) else b
        return 'effect #%d only on one side: %s' % (min(len(a), len(b)), fmt(longer[min(len(a), len(b))]))
    return None


def fmt(e):
    g = ' & '.join('%s=%s' % (c, t) for c, t in e[0])
    return '[%s] %s %s' % (g[:160], e[1], e[2][:160])
