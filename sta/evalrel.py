"""Evaluation of comparison-dependent values under an assumed ordering relation, path-sensitive
regions and phi resolution along traversed edges (shared by DESCENT, LIVE, LISTSEARCH)."""
from ssa import strip, show, walk

FLIP = {'<': '>', '=': '=', '>': '<'}
ORD_NAME = {'<': 'Less', '=': 'Equal', '>': 'Greater'}


class Evaluator:
    """evaluates comparison-dependent values under an assumed relation stored ? probe"""

    def __init__(self, prog, sites, rel, pred_calls=None):
        self.prog = prog
        self.by_call = {s['call'].id: s for s in sites}
        self.rel = rel
        # call Val id -> {rel: python value} for calls of crate predicate functions
        self.pred_calls = pred_calls or {}
        # Val id -> python value: loop-carried flags bound to the constant they received on the path just walked
        self.env = {}

    def raw(self, site):
        # relation of arg0 to arg1
        if site['stored_arg'] == 0:
            return self.rel
        return FLIP[self.rel]

    def ev(self, v, depth=0):
        """python value: ('ord', '<'|'='|'>') | bool | int | None"""
        prog = self.prog
        if v is None or depth > 12:
            return None
        if v.id in self.env:
            return self.env[v.id]
        k = v.kind
        if k == 'cast':
            return self.ev(v.args[0], depth + 1)
        if k == 'call':
            if v.id in self.pred_calls:
                return self.pred_calls[v.id].get(self.rel)
            s = self.by_call.get(v.id)
            if s is not None:
                r = self.raw(s)
                m = s['method']
                if m in ('cmp', 'closure'):
                    return ('ord', r)
                if m == 'partial_cmp':
                    return ('some_ord', r)
                return {'lt': r == '<', 'le': r != '>', 'gt': r == '>', 'ge': r != '<', 'eq': r == '=', 'ne': r != '='}[m]
            name = v.callee_name()
            if name in ('is_lt', 'is_le', 'is_gt', 'is_ge', 'is_eq', 'is_ne') and v.args:
                x = self.ev(v.args[0], depth + 1)
                if isinstance(x, tuple) and x[0] == 'ord':
                    r = x[1]
                    return {'is_lt': r == '<', 'is_le': r != '>', 'is_gt': r == '>', 'is_ge': r != '<', 'is_eq': r == '=', 'is_ne': r != '='}[name]
                return None
            if name in ('eq', 'ne') and len(v.args) == 2:
                a = self.ev(v.args[0], depth + 1)
                b2 = self.ev(v.args[1], depth + 1)
                if a is None or b2 is None:
                    return None
                return (a == b2) if name == 'eq' else (a != b2)
            if name == 'reverse' and v.args:
                x = self.ev(v.args[0], depth + 1)
                if isinstance(x, tuple) and x[0] == 'ord':
                    return ('ord', FLIP[x[1]])
            if name in ('unwrap', 'expect') and v.args:
                x = self.ev(v.args[0], depth + 1)
                if isinstance(x, tuple) and x[0] == 'some_ord':
                    return ('ord', x[1])
            return None
        if k in ('load', 'ref'):
            if not v.fields():
                return self.ev(v.args[0], depth + 1)
            return None
        if k == 'discr':
            x = self.ev(v.args[0], depth + 1)
            if isinstance(x, tuple) and x[0] == 'ord':
                return self.prog.ordering.get(ORD_NAME[x[1]])
            return None
        if k == 'const':
            inv0 = {'Less': '<', 'Equal': '=', 'Greater': '>'}
            if v.ty and v.ty.endswith('cmp::Ordering') and isinstance(v.args[2], str) and v.args[2].split('::')[-1] in inv0:
                return ('ord', inv0[v.args[2].split('::')[-1]])
            # Ordering constants appear as scalars when evaluated
            if v.ty and v.ty.endswith('cmp::Ordering') and v.args[0] is not None:
                name = prog.ordering_by_val.get(v.args[0] & 0xff if v.args[0] >= 0 else v.args[0] & 0xff)
                inv = {'Less': '<', 'Equal': '=', 'Greater': '>'}
                if name:
                    return ('ord', inv[name])
            if v.ty == 'bool' and v.args[0] is not None:
                return bool(v.args[0])
            return v.args[0]
        if k == 'agg':
            e = v.extra
            if e['akind'] == 'adt' and e['path'].endswith('cmp::Ordering') and e.get('variant'):
                inv = {'Less': '<', 'Equal': '=', 'Greater': '>'}
                return ('ord', inv[e['variant']['name']])
            return None
        if k == 'un' and v.args[0] == 'Not':
            x = self.ev(v.args[1], depth + 1)
            return (not x) if isinstance(x, bool) else None
        if k == 'bin':
            op, a, b2 = v.args
            x, y = self.ev(a, depth + 1), self.ev(b2, depth + 1)
            if x is None or y is None:
                return None
            if isinstance(x, tuple) or isinstance(y, tuple):
                if op == 'Eq':
                    return x == y
                if op == 'Ne':
                    return x != y
                return None
            try:
                return {'Eq': x == y, 'Ne': x != y, 'BitAnd': x & y, 'BitOr': x | y, 'BitXor': x ^ y}.get(op)
            except TypeError:
                return None
        return None

    def depends(self, v):
        for x in walk(v):
            if x.kind == 'call' and (x.id in self.by_call or x.id in self.pred_calls):
                return True
            if x.id in self.env:
                return True
        return False


def region(body, ev, start_block, header, loop_blocks):
    """blocks and edges reachable from start_block under the evaluator's relation, staying in the
    function, stopping at the loop header (edge recorded) and at returns"""
    cfg = body.cfg
    blocks, edges = set(), set()
    stack = [start_block]
    undecided = []
    while stack:
        b = stack.pop()
        if b in blocks:
            continue
        blocks.add(b)
        succs = list(cfg.succ[b])
        t = body.mir['blocks'][b]['term']
        if t['k'] == 'switch' and b in body.switch_discr:
            d = body.switch_discr[b]
            if ev.depends(d):
                val = ev.ev(d)
                if val is None:
                    undecided.append(b)
                else:
                    iv = int(val) if isinstance(val, bool) else val
                    chosen = t['otherwise']
                    for tv, tb in t['targets']:
                        if tv == iv:
                            chosen = tb
                    succs = [chosen]
        for s in succs:
            edges.add((b, s))
            if s == header:
                continue
            stack.append(s)
    return blocks, edges, undecided


def resolve_phi(v, edges, header_phis, _seen=None):
    """possible values of v given that only `edges` were traversed (phis resolved along them);
    header phis stand for 'value at loop entry of this iteration' and are kept"""
    if _seen is None:
        _seen = set()
    v = strip(v)
    if v is None:
        return []
    if v.kind != 'phi' or v.id in header_phis or v.id in _seen:
        return [v]
    _seen.add(v.id)
    out = []
    blk = v.extra['block']
    for a, p in zip(v.args, v.extra['preds']):
        if (p, blk) in edges:
            out.extend(resolve_phi(a, edges, header_phis, _seen))
    return out


