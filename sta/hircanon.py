"""Canonical form of HIR function bodies for the TWIN rule (DESIGN 2.2): nested tuples of strings.

Normalisations: debug_assert!/assert expansions dropped; generic arguments and module family (map/set/key)
erased from paths; the payload field (entity / value) and its transfer (.clone() / copy) abstracted to PAYLOAD;
`a != b` == `!(a == b)`; `return x;` at the end == tail `x`; parentheses, attributes, comments, types invisible;
locals numbered by first occurrence (mode 'num') or kept by name (mode 'name', used for mirroring inside one
function)."""
import re

FAMILIES = ('map', 'set', 'key')
PAYLOAD_FIELDS = ('entity', 'value')


def strip_generics(path):
    out = []
    depth = 0
    for ch in path:
        if ch == '<':
            depth += 1
        elif ch == '>':
            depth -= 1
        elif depth == 0:
            out.append(ch)
    s = ''.join(out)
    while '::::' in s:
        s = s.replace('::::', '::')
    return s.strip(':')


def fam_erase(path):
    p = strip_generics(path)
    parts = p.split('::')
    if parts and parts[0] in FAMILIES:
        parts[0] = 'FAM'
    # type names carry the family too
    parts = [re.sub(r'^(Map|Set|KeyExp)(Tree|List)$', r'FAM\2', x) for x in parts]
    return '::'.join(parts)


def is_dbg(node):
    e = node.get('exp') if isinstance(node, dict) else None
    return bool(e and ('debug_assert' in e))


class Canon:
    def __init__(self, mode='num', keep_dbg=False):
        self.mode = mode
        self.names = {}
        self.keep_dbg = keep_dbg

    def local(self, res):
        if self.mode == 'name':
            return ('L', res['name'])
        key = res['id']
        if key not in self.names:
            self.names[key] = 'v%d' % len(self.names)
        return ('L', self.names[key])

    def pat(self, p):
        k = p['k']
        if k == 'pbind':
            nm = self.local({'id': p['id'], 'name': p['name']})
            sub = self.pat(p['sub']) if p.get('sub') else None
            return ('bind', nm, sub) if sub else ('bind', nm)
        if k == 'pwild':
            return ('_',)
        if k == 'ptuple':
            return ('ptuple',) + tuple(self.pat(x) for x in p['subs'])
        if k == 'pctor':
            return ('pctor', self.res(p['path'])) + tuple(self.pat(x) for x in p['subs'])
        if k == 'pstruct':
            return ('pstruct', self.res(p['path'])) + tuple((n, self.pat(x)) for n, x in p['fields'])
        if k == 'pref':
            return self.pat(p['sub'])
        if k == 'pexpr':
            e = p['e']
            if e['k'] == 'path':
                return ('ppath', self.res(e['res']))
            return ('plit', e.get('text'))
        if k == 'por':
            return ('por',) + tuple(self.pat(x) for x in p['subs'])
        return ('p?', k)

    def res(self, r):
        if r['r'] == 'local':
            return self.local(r)
        if r['r'] == 'def':
            return ('D', fam_erase(r['path']))
        return ('R', r['r'])

    def block(self, b):
        stmts = []
        for s in b['stmts']:
            if not self.keep_dbg and (is_dbg(s) or (s['k'] == 'stmt' and is_dbg(s['e']))):
                continue
            if s['k'] == 'let':
                init = self.expr(s['init']) if s.get('init') else None
                stmts.append(('let', self.pat(s['pat']), init))
            else:
                e = self.expr(s['e'])
                if e is not None:
                    stmts.append(e)
        tail = self.expr(b['expr']) if b.get('expr') else None
        # `return x;` as last statement == tail x
        if tail is None and stmts and isinstance(stmts[-1], tuple) and stmts[-1][0] == 'ret' and False:
            tail = stmts[-1][1]
            stmts = stmts[:-1]
        if not stmts and tail is not None:
            return tail
        return ('block', tuple(stmts), tail)

    def expr(self, e):
        if e is None:
            return None
        k = e['k']
        if is_dbg(e) and not self.keep_dbg:
            return None
        if k == 'block':
            return self.block(e)
        if k == 'path':
            return self.res(e['res'])
        if k == 'lit':
            return ('lit', e['text'])
        if k == 'field':
            base = self.expr(e['e'])
            name = e['name']
            if name in PAYLOAD_FIELDS and e.get('owner', '').endswith('Node'):
                return ('PAYLOAD', base)
            return ('.', base, name)
        if k == 'mcall':
            recv = self.expr(e['recv'])
            args = tuple(self.expr(a) for a in e['args'])
            c = e.get('callee') or {}
            name = e['name']
            # payload transfer: clone of a payload is the payload
            if name == 'clone' and isinstance(recv, tuple) and recv[0] == 'PAYLOAD':
                return recv
            path = fam_erase(c['path']) if c.get('path') and c.get('krate') == 'i_tree' else ('std::' + name)
            return ('call', path, (recv,) + args)
        if k == 'call':
            f = self.expr(e['f'])
            return ('call', f, tuple(self.expr(a) for a in e['args']))
        if k == 'binary':
            a, b = self.expr(e['a']), self.expr(e['b'])
            op = e['op']
            if op == '!=':
                return ('!', ('==', a, b))
            return (op, a, b)
        if k == 'unary':
            a = self.expr(e['a'])
            if e['op'] == '!' and isinstance(a, tuple) and a[0] == '!':
                return a[1]
            if e['op'] == '*':
                return a
            return (e['op'], a)
        if k == 'ref':
            return self.expr(e['e'])
        if k == 'cast':
            return ('as', self.expr(e['e']), e['ty'])
        if k == 'if':
            return ('if', self.expr(e['cond']), self.expr(e['then']), self.expr(e['els']) if e.get('els') else None)
        if k == 'letexpr':
            return ('letexpr', self.pat(e['pat']), self.expr(e['init']))
        if k == 'loop':
            return ('loop', e['src'], self.block(e['body']))
        if k == 'match':
            return ('match', self.expr(e['scrut'])) + tuple((self.pat(a['pat']), self.expr(a['guard']) if a.get('guard') else None, self.expr(a['body'])) for a in e['arms'])
        if k == 'assign':
            return ('=', self.expr(e['lhs']), self.expr(e['rhs']))
        if k == 'assignop':
            return (e['op'] + '=', self.expr(e['lhs']), self.expr(e['rhs']))
        if k == 'ret':
            return ('ret', self.expr(e['e']) if e.get('e') else None)
        if k == 'break':
            return ('break', self.expr(e['e']) if e.get('e') else None)
        if k == 'continue':
            return ('continue',)
        if k == 'tuple':
            return ('tuple',) + tuple(self.expr(x) for x in e['es'])
        if k == 'array':
            return ('array',) + tuple(self.expr(x) for x in e['es'])
        if k == 'struct':
            fields = [(n, self.expr(x)) for n, x in e['fields']]
            # zero-sized markers (PhantomData initialised by Default::default()) differ between copies by construction
            fields = [(n, x) for n, x in fields if not (isinstance(x, tuple) and x[0] == 'call' and isinstance(x[1], tuple) and 'Default::default' in str(x[1]))]
            return ('struct', self.res(e['path'])) + tuple(fields)
        if k == 'index':
            return ('index', self.expr(e['a']), self.expr(e['b']))
        if k == 'closure':
            return ('closure', fam_erase(e['path']))
        if k == 'stmt':
            return self.expr(e['e'])
        return ('?', k)


def canon_fn(hir, mode='num', keep_dbg=False):
    c = Canon(mode, keep_dbg)
    params = tuple(c.pat(p) for p in hir['params'])
    body = c.expr(hir['body'])
    return (params, body)


# ---- mirroring -----------------------------------------------------------------------------------
def swap_lr(s):
    """swap left<->right (and the lt/rt prefixes used for locals of the rotations) in an identifier"""
    if not isinstance(s, str):
        return s
    s = s.replace('left', '\0').replace('right', 'left').replace('\0', 'right')
    s = s.replace('Left', '\0').replace('Right', 'Left').replace('\0', 'Right')
    s = s.replace('index_after', '\0').replace('index_before', 'index_after').replace('\0', 'index_before')
    s = re.sub(r'\blt_', '\1', s)
    s = re.sub(r'\brt_', 'lt_', s)
    s = s.replace('\1', 'rt_')
    s = re.sub(r'(?<=_)lt\b', '\1', s)
    return s


def mirror(t):
    if isinstance(t, tuple):
        return tuple(mirror(x) for x in t)
    if isinstance(t, str):
        return swap_lr(t)
    return t


def show(t, depth=0, maxd=6):
    if not isinstance(t, tuple):
        return str(t)
    if depth > maxd:
        return '..'
    return '(' + ' '.join(show(x, depth + 1, maxd) for x in t) + ')'


def first_diff(a, b, path=''):
    """human-readable first differing subtree"""
    if a == b:
        return None
    if not isinstance(a, tuple) or not isinstance(b, tuple) or len(a) != len(b):
        return '%s: %s  vs  %s' % (path or 'root', show(a, 0, 3)[:160], show(b, 0, 3)[:160])
    for i, (x, y) in enumerate(zip(a, b)):
        d = first_diff(x, y, '%s/%d' % (path, i))
        if d:
            return d
    return None
