"""Origin analysis for arena indices (u32 links): where can a value come from?

Atoms
  ('root',)                       the collection's `root` field
  ('link', base, field)           field in {left,right,parent} of the arena element designated by base;
                                  base is a Val of the current function or ('param', k) inside a summary
                                  or ('atom', atom) for nested summary links
  ('const', name_or_value)        EMPTY_REF / NIL_INDEX / literal
  ('param', k)                    k-th MIR argument (1 = self)
  ('pop', fields)                 element popped from the Vec self.<fields>  (the allocator)
  ('elem', fields)                element read from the Vec self.<fields>
  ('range',)                      value produced by a numeric Range iterator
  ('len', fields)                 length of the Vec self.<fields>
  ('arith', op)                   result of integer arithmetic
  ('search', kind)                Ok/Err payload of a std binary search
  ('other', text)
"""
from ssa import strip, show

LINKS = ('left', 'right', 'parent')
UNWRAPS = ('unwrap', 'expect', 'unwrap_unchecked', 'unwrap_or_default')


def vec_field_of(prog, v):
    """fields tuple if v designates (a reference to) self.<fields> possibly through deref/as_slice calls"""
    seen = 0
    while v is not None and seen < 8:
        seen += 1
        if v.kind == 'call' and v.callee_name() in ('deref', 'deref_mut', 'as_slice', 'as_mut_slice', 'borrow', 'borrow_mut', 'as_ref', 'as_mut', 'iter', 'iter_mut') and v.args:
            v = v.args[0]
            continue
        break
    if v is None:
        return None
    f = prog.self_field(v)
    if f is not None:
        return f
    # element of an arena: chunk(i).buffer
    nf = prog.node_field(v)
    if nf is not None:
        return ('<elem>',) + nf[1]
    return None


def project(agg, path):
    """the component of aggregate value `agg` designated by a projection path (variant downcasts, field indices / names), or
    None if the path does not fit (another variant, an opaque element)"""
    cur = strip(agg)
    for e in path:
        if e == '*':
            continue
        if cur is None or cur.kind != 'agg':
            return None
        if isinstance(e, str) and e.startswith('as:'):
            var = (cur.extra.get('variant') or {}).get('name')
            if var != e[3:]:
                return None
            continue
        names = (cur.extra.get('variant') or {}).get('fields') or []
        idx = None
        if isinstance(e, int) or (isinstance(e, str) and e.isdigit()):
            idx = int(e)
        elif isinstance(e, str) and e in names:
            idx = names.index(e)
        if idx is None or idx >= len(cur.args):
            return None
        cur = strip(cur.args[idx])
    return cur


def origins(prog, fn, v, _seen=None, depth=0):
    if _seen is None:
        _seen = set()
    v = strip(v)
    if v is None:
        return {('other', 'none')}
    if v.id in _seen:
        return set()
    _seen.add(v.id)
    k = v.kind
    if k == 'const':
        if v.args[1]:
            return {('const', v.args[1].split('::')[-1])}
        return {('const', v.args[0])}
    if k == 'param':
        return {('param', v.args[0])}
    if k == 'phi':
        out = set()
        for a in v.args:
            out |= origins(prog, fn, a, _seen, depth)
        return out
    if k == 'load':
        sf = prog.self_field(v)
        if sf == ('root',):
            return {('root',)}
        nf = prog.node_field(v)
        if nf is not None and len(nf[1]) == 1 and nf[1][0] in LINKS:
            return {('link', nf[0], nf[1][0])}
        root = v.args[0]
        if root.kind == 'phi':
            # a reference chosen among several (e.g. `node = self.node(node.left)` in a loop): distribute
            out = set()
            for a in root.args:
                sa = strip(a)
                if sa.id in _seen:
                    continue
                na = prog.accessor_call(sa)
                flds = v.fields()
                if na is not None and len(flds) == 1 and flds[0] in LINKS:
                    out.add(('link', na[2], flds[0]))
                elif sa.kind == 'agg' and project(sa, v.args[1]) is not None:
                    # a component of an aggregate that reaches the merge (`next = Some((n, p))`): that component
                    out |= origins(prog, fn, project(sa, v.args[1]), _seen, depth)
                elif sa.kind == 'call' and prog.resolve(sa) is not None and not prog.resolve(sa).is_closure and depth <= 4:
                    # ... or of what a crate function returns (`next = self.step(n, p)` returning Option<(u32, u32)>)
                    tg = prog.resolve(sa)
                    got = False
                    for rv in tg.body.ret_val.values():
                        rvs, todo, seen_p = [], [strip(rv)], set()
                        while todo:
                            x_ = todo.pop()
                            if x_ is not None and x_.kind == 'phi' and x_.id not in seen_p:
                                seen_p.add(x_.id)
                                todo.extend(strip(y_) for y_ in x_.args)
                            elif x_ is not None and x_.kind != 'phi':
                                rvs.append(x_)
                        for r_ in rvs:
                            if r_ is not None and r_.kind == 'agg':
                                comp = project(r_, v.args[1])
                                if comp is None:
                                    continue        # another variant (None): nothing to read
                                got = True
                                for at in origins(prog, tg, comp, None, depth + 1):
                                    if at[0] == 'param' and at[1] - 1 < len(sa.args):
                                        out |= origins(prog, fn, sa.args[at[1] - 1], _seen, depth + 1)
                                    else:
                                        out.add(at)
                            elif r_ is not None:
                                got = True
                                out.add(('other', show(v, 3)))
                    if not got:
                        out.add(('other', show(v, 3)))
                elif sa.kind == 'phi':
                    _seen.add(sa.id)
                    continue
                else:
                    out.add(('other', show(v, 3)))
            if out:
                return out
        if fn.is_closure and depth <= 4:
            cap = captured_value(prog, fn, v)
            if cap is not None:
                # a captured variable: what the defining function put into the closure
                return origins(prog, cap[0], cap[1], None, depth + 1)
        rf = record_field_origins(prog, fn, v, _seen, depth)
        if rf is not None:
            return rf
        # payload of Option returned by pop()/next()/binary search
        if root.kind == 'call':
            inner = root
            name = inner.callee_name()
            flds = v.fields()
            if name == 'pop':
                vf = vec_field_of(prog, inner.args[0]) if inner.args else None
                return {('pop', vf)}
            if name == 'next' and 'Range' in (inner.extra['callee'].get('self_ty') or '') + ' '.join(inner.extra['callee'].get('gargs') or []):
                return {('range',)}
            if name in ('binary_search_by', 'binary_search_by_key', 'binary_search'):
                kind = 'ok' if 'as:Ok' in flds else ('err' if 'as:Err' in flds else 'any')
                return {('search', kind, inner.id)}
            if name in ('index', 'index_mut', 'get_unchecked', 'get_unchecked_mut', 'get', 'get_mut', 'first', 'last') and inner.args:      # (get / first / last: the payload of the Some side)
                vf = vec_field_of(prog, inner.args[0])
                if vf is not None:
                    return {('elem', vf)}
        if sf is not None:
            return {('field', sf)}
        return {('other', show(v, 3))}
    if k == 'call':
        name = v.callee_name()
        tgt = prog.resolve(v)
        if tgt is not None:
            summ = ret_summary(prog, tgt)
            out = set()
            for a in summ:
                out |= subst(prog, fn, a, v, _seen, depth)
            return out
        if name in UNWRAPS and v.args:
            inner = strip(v.args[0])
            if inner.kind == 'call':
                iname = inner.callee_name()
                if iname == 'pop' and inner.args:
                    return {('pop', vec_field_of(prog, inner.args[0]))}
            return origins(prog, fn, inner, _seen, depth)
        if name in ('unwrap_or_else', 'unwrap_or') and v.args:
            inner = strip(v.args[0])
            if inner.kind == 'call' and inner.callee_name() in ('binary_search_by', 'binary_search_by_key', 'binary_search'):
                return {('search', 'any', inner.id)}
        if name == 'len' and v.args:
            return {('len', vec_field_of(prog, v.args[0]))}
        if name in ('min', 'max', 'clone', 'into', 'from') and v.args:
            out = set()
            for a in v.args:
                out |= origins(prog, fn, a, _seen, depth)
            return out
        return {('other', 'call ' + (v.extra['callee'].get('path') or 'indirect'))}
    if k == 'bin':
        op = v.args[0]
        if op in ('Add', 'Sub', 'Mul', 'Shl', 'Shr', 'BitAnd', 'BitOr', 'BitXor', 'Div', 'Rem',
                  'AddWithOverflow', 'SubWithOverflow', 'MulWithOverflow', 'AddUnchecked', 'SubUnchecked'):
            return {('arith', op)}
        return {('other', op)}
    if k == 'agg':
        return {('other', 'agg')}
    if k == 'escaped':
        out = set()
        for d in fn.body.local_defs.get(v.args[0], []):
            out |= origins(prog, fn, d, _seen, depth)
        return out or {('other', 'escaped')}
    if k == 'update':
        return origins(prog, fn, v.args[0], _seen, depth) | origins(prog, fn, v.args[2], _seen, depth)
    return {('other', k)}


def captured_value(prog, fn, v):
    """if load v of closure fn reads a captured variable: (defining Fn, captured Val there)"""
    root = strip(v.args[0])
    if not (root.kind == 'param' and root.args[0] == 1):
        return None
    flds = v.fields()
    if len(flds) != 1 or not flds[0].startswith('upvar'):
        return None
    n = int(flds[0][5:])
    parent = prog.fns.get(fn.parent)
    if parent is None:
        return None
    for x in parent.body._vals:
        if x.kind == 'agg' and x.extra.get('akind') == 'closure' and x.extra.get('path') == fn.path and n < len(x.args):
            pv = strip(x.args[n])
            while pv.kind == 'ref' and not pv.fields():
                pv = strip(pv.args[0])
            return parent, pv
    return None


def record_writes(prog):
    """flow-insensitive summary of plain record types (not arena nodes): (ADT, field) -> [(fn, Val)] every value ever
    written to that field, by aggregate construction or by a store"""
    key = ('recordwrites',)
    if key in prog._summ_cache:
        return prog._summ_cache[key]
    out = {}
    for fn in prog.fns.values():
        b = fn.body
        for v in b._vals:
            if v.kind == 'agg' and v.extra.get('akind') == 'adt' and v.extra.get('variant'):
                names = v.extra['variant']['fields']
                if len(names) == len(v.args):
                    for nm, a in zip(names, v.args):
                        out.setdefault((v.extra['path'], nm), []).append((fn, a))
            elif v.kind == 'agg' and v.extra.get('akind') == 'tuple' and v.ty and v.ty.startswith('('):
                # tuples kept in memory (frames of an explicit stack): keyed by their type
                for i, a in enumerate(v.args):
                    out.setdefault(('tuple' + v.ty, str(i)), []).append((fn, a))
        for st in b.stores:
            if st.owner and st.fields():
                out.setdefault((st.owner, st.fields()[-1]), []).append((fn, st.value))
    prog._summ_cache[key] = out
    return out


def record_field_origins(prog, fn, v, _seen, depth):
    """origins of a u32 field read from a plain record whose provenance is not tracked (e.g. a frame of an
    explicit stack): the union over everything ever written to that field anywhere in the crate"""
    owner = v.extra.get('last_owner')
    if not owner or owner in prog.node_adts or owner in prog.tree_adts or owner in prog.pool_adts or v.ty != 'u32':
        return None
    if (owner not in prog.adts and not owner.startswith('tuple(')) or depth > 4:
        return None
    if prog.node_field(v) is not None:
        return None
    # (a field of `self` qualifies when self is such a record: an iterator that keeps a handle between calls)
    writes = record_writes(prog).get((owner, v.fields()[-1]))
    if not writes:
        return None
    out = set()
    for (wfn, val) in writes:
        sv = strip(val)
        if sv.kind == 'load' and strip(sv.args[0]).kind == 'param' and len(sv.fields()) == 1 and sv.fields()[0] in LINKS:
            # a link copied out of a node passed by reference: resolve the reference at the callers
            k = strip(sv.args[0]).args[0]
            callers = prog.callers(wfn)
            resolved = bool(callers)
            for call, cfn in callers:
                arg = strip(call.args[k - 1]) if call.kind == 'call' and k - 1 < len(call.args) else None
                if arg is not None and prog.accessor_call(arg) is not None:
                    out.add(('link', ('opaque', 'node passed to %s' % wfn.name), sv.fields()[0]))
                else:
                    resolved = False
            if resolved:
                continue
        for a in origins(prog, wfn, val, None, depth + 1):
            if a[0] == 'param':
                # parameter of a constructor-like function: take what its callers pass
                k = a[1]
                callers = prog.callers(wfn)
                if not callers:
                    out.add(('other', 'param of uncalled %s' % wfn.name))
                for call, cfn in callers:
                    if call.kind == 'call' and k - 1 < len(call.args):
                        sub = origins(prog, cfn, call.args[k - 1], None, depth + 2)
                        out |= {x for x in sub}
            elif a[0] == 'link' and hasattr(a[1], 'kind'):
                # link of a node designated by a value of another function: keep it as a link of an opaque base
                out.add(('link', ('opaque', show(strip(a[1]), 2)), a[2]))
            else:
                out.add(a)
    return out


def subst_base(base, call):
    """instantiate the base of a summary link atom: ('param',k) -> argument Val; nested links recursively"""
    if isinstance(base, tuple):
        if base[0] == 'param':
            i = base[1]
            if i - 1 < len(call.args):
                return call.args[i - 1]
            return ('opaque', 'param?')
        if base[0] == 'link':
            return ('link', subst_base(base[1], call), base[2])
    return base


def subst(prog, fn, atom, call, _seen, depth):
    """instantiate a summary atom of the callee at a call site"""
    if atom[0] == 'param':
        i = atom[1]
        if i - 1 < len(call.args):
            if depth > 6:
                return {('other', 'deep')}
            return origins(prog, fn, call.args[i - 1], set(_seen), depth + 1)
        return {('other', 'param?')}
    if atom[0] == 'link':
        return {('link', subst_base(atom[1], call), atom[2])}
    return {atom}


_in_progress = set()


def summarise_base(prog, fn, base, depth=0):
    """turn the base Val of a link atom into summary form (set of alternatives)"""
    if not hasattr(base, 'kind'):
        return {base}
    sb = strip(base)
    if sb.kind == 'param':
        return {('param', sb.args[0])}
    if depth > 3:
        return {('opaque', show(sb, 2))}
    out = set()
    for a in origins(prog, fn, sb):
        if a[0] == 'link':
            for bb in summarise_base(prog, fn, a[1], depth + 1):
                out.add(('link', bb, a[2]))
        elif a[0] == 'param':
            out.add(a)
        else:
            out.add(('opaque', atom_str(a)))
    return out or {('opaque', show(sb, 2))}


def ret_summary(prog, fn):
    """origin atoms of the value returned by fn, over its parameters"""
    key = fn.path
    if key in prog._summ_cache:
        return prog._summ_cache[key]
    if key in _in_progress:
        return set()
    _in_progress.add(key)
    try:
        out = set()
        b = fn.body
        for r, v in b.ret_val.items():
            for a in origins(prog, fn, v):
                if a[0] == 'link':
                    for bb in summarise_base(prog, fn, a[1]):
                        out.add(('link', bb, a[2]))
                else:
                    out.add(a)
        prog._summ_cache[key] = out
        return out
    finally:
        _in_progress.discard(key)


def base_str(b, names=None):
    if hasattr(b, 'kind'):
        sb = strip(b)
        if sb.kind == 'param' and names:
            return names(sb.args[0])
        return show(sb, 3)
    if isinstance(b, tuple):
        if b[0] == 'param':
            return names(b[1]) if names else 'Param%d' % b[1]
        if b[0] == 'link':
            return 'node(%s).%s' % (base_str(b[1], names), b[2])
        if b[0] == 'opaque':
            return b[1]
    return str(b)


def atom_str(a, names=None):
    if a[0] == 'link':
        return 'node(%s).%s' % (base_str(a[1], names), a[2])
    if a[0] == 'search':
        return 'search:%s' % a[1]
    if a[0] == 'param' and names:
        return names(a[1])
    return ':'.join(str(x) for x in a)
