"""Origin analysis for arena indices (u32 links): where can a value come from?

Atoms
  ('root',)                       the collection's `root` field
  ('link', base, field)           field in {left,right,parent} of the arena element designated by base;
                                  base is a Val of the current function or ('param', k) inside a summary
                                  or ('atom', atom) for nested summary links
  ('const', name_or_value)        EMPTY_REF / NIL_INDEX / literal
  ('param', k)                    k-th MIR argument (1 = self)
  ('pop', fields)                 element popped from the Vec self.<fields>  (the allocator)
  ('elem', fields)                element read from the Vec self.<fields>
  ('range',)                      value produced by a numeric Range iterator
  ('len', fields)                 length of the Vec self.<fields>
  ('arith', op)                   result of integer arithmetic
  ('search', kind)                Ok/Err payload of a std binary search
  ('other', text)
"""
from ssa import strip, show

LINKS = ('left', 'right', 'parent')
UNWRAPS = ('unwrap', 'expect', 'unwrap_unchecked', 'unwrap_or_default')


def vec_field_of(prog, v):
    """fields tuple if v designates (a reference to) self.<fields> possibly through deref/as_slice calls"""
    seen = 0
    while v is not None and seen < 8:
        seen += 1
        if v.kind == 'call' and v.callee_name() in ('deref', 'deref_mut', 'as_slice', 'as_mut_slice', 'borrow', 'borrow_mut', 'as_ref', 'as_mut', 'iter', 'iter_mut') and v.args:
            v = v.args[0]
            continue
        break
    if v is None:
        return None
    f = prog.self_field(v)
    if f is not None:
        return f
    # element of an arena: chunk(i).buffer
    nf = prog.node_field(v)
    if nf is not None:
        return ('<elem>',) + nf[1]
    return None


def origins(prog, fn, v, _seen=None, depth=0):
    if _seen is None:
        _seen = set()
    v = strip(v)
    if v is None:
        return {('other', 'none')}
    if v.id in _seen:
        return set()
    _seen.add(v.id)
    k = v.kind
    if k == 'const':
        if v.args[1]:
            return {('const', v.args[1].split('::')[-1])}
        return {('const', v.args[0])}
    if k == 'param':
        return {('param', v.args[0])}
    if k == 'phi':
        out = set()
        for a in v.args:
            out |= origins(prog, fn, a, _seen, depth)
        return out
    if k == 'load':
        sf = prog.self_field(v)
        if sf == ('root',):
            return {('root',)}
        nf = prog.node_field(v)
        if nf is not None and len(nf[1]) == 1 and nf[1][0] in LINKS:
            return {('link', nf[0], nf[1][0])}
        root = v.args[0]
        # payload of Option returned by pop()/next()/binary search
        if root.kind == 'call':
            inner = root
            name = inner.callee_name()
            flds = v.fields()
            if name == 'pop':
                vf = vec_field_of(prog, inner.args[0]) if inner.args else None
                return {('pop', vf)}
            if name == 'next' and 'Range' in (inner.extra['callee'].get('self_ty') or '') + ' '.join(inner.extra['callee'].get('gargs') or []):
                return {('range',)}
            if name in ('binary_search_by', 'binary_search_by_key', 'binary_search'):
                kind = 'ok' if 'as:Ok' in flds else ('err' if 'as:Err' in flds else 'any')
                return {('search', kind, inner.id)}
            if name in ('index', 'index_mut', 'get_unchecked', 'get_unchecked_mut') and inner.args:
                vf = vec_field_of(prog, inner.args[0])
                if vf is not None:
                    return {('elem', vf)}
        if sf is not None:
            return {('field', sf)}
        return {('other', show(v, 3))}
    if k == 'call':
        name = v.callee_name()
        tgt = prog.resolve(v)
        if tgt is not None:
            summ = ret_summary(prog, tgt)
            out = set()
            for a in summ:
                out |= subst(prog, fn, a, v, _seen, depth)
            return out
        if name in UNWRAPS and v.args:
            inner = strip(v.args[0])
            if inner.kind == 'call':
                iname = inner.callee_name()
                if iname == 'pop' and inner.args:
                    return {('pop', vec_field_of(prog, inner.args[0]))}
            return origins(prog, fn, inner, _seen, depth)
        if name in ('unwrap_or_else', 'unwrap_or') and v.args:
            inner = strip(v.args[0])
            if inner.kind == 'call' and inner.callee_name() in ('binary_search_by', 'binary_search_by_key', 'binary_search'):
                return {('search', 'any', inner.id)}
        if name == 'len' and v.args:
            return {('len', vec_field_of(prog, v.args[0]))}
        if name in ('min', 'max', 'clone', 'into', 'from') and v.args:
            out = set()
            for a in v.args:
                out |= origins(prog, fn, a, _seen, depth)
            return out
        return {('other', 'call ' + (v.extra['callee'].get('path') or 'indirect'))}
    if k == 'bin':
        op = v.args[0]
        if op in ('Add', 'Sub', 'Mul', 'Shl', 'Shr', 'BitAnd', 'BitOr', 'BitXor', 'Div', 'Rem',
                  'AddWithOverflow', 'SubWithOverflow', 'MulWithOverflow', 'AddUnchecked', 'SubUnchecked'):
            return {('arith', op)}
        return {('other', op)}
    if k == 'agg':
        return {('other', 'agg')}
    if k == 'escaped':
        out = set()
        for d in fn.body.local_defs.get(v.args[0], []):
            out |= origins(prog, fn, d, _seen, depth)
        return out or {('other', 'escaped')}
    if k == 'update':
        return origins(prog, fn, v.args[0], _seen, depth) | origins(prog, fn, v.args[2], _seen, depth)
    return {('other', k)}


def subst_base(base, call):
    """instantiate the base of a summary link atom: ('param',k) -> argument Val; nested links recursively"""
    if isinstance(base, tuple):
        if base[0] == 'param':
            i = base[1]
            if i - 1 < len(call.args):
                return call.args[i - 1]
            return ('opaque', 'param?')
        if base[0] == 'link':
            return ('link', subst_base(base[1], call), base[2])
    return base


def subst(prog, fn, atom, call, _seen, depth):
    """instantiate a summary atom of the callee at a call site"""
    if atom[0] == 'param':
        i = atom[1]
        if i - 1 < len(call.args):
            if depth > 6:
                return {('other', 'deep')}
            return origins(prog, fn, call.args[i - 1], set(_seen), depth + 1)
        return {('other', 'param?')}
    if atom[0] == 'link':
        return {('link', subst_base(atom[1], call), atom[2])}
    return {atom}


_in_progress = set()


def summarise_base(prog, fn, base, depth=0):
    """turn the base Val of a link atom into summary form (set of alternatives)"""
    if not hasattr(base, 'kind'):
        return {base}
    sb = strip(base)
    if sb.kind == 'param':
        return {('param', sb.args[0])}
    if depth > 3:
        return {('opaque', show(sb, 2))}
    out = set()
    for a in origins(prog, fn, sb):
        if a[0] == 'link':
            for bb in summarise_base(prog, fn, a[1], depth + 1):
                out.add(('link', bb, a[2]))
        elif a[0] == 'param':
            out.add(a)
        else:
            out.add(('opaque', atom_str(a)))
    return out or {('opaque', show(sb, 2))}


def ret_summary(prog, fn):
    """origin atoms of the value returned by fn, over its parameters"""
    key = fn.path
    if key in prog._summ_cache:
        return prog._summ_cache[key]
    if key in _in_progress:
        return set()
    _in_progress.add(key)
    try:
        out = set()
        b = fn.body
        for r, v in b.ret_val.items():
            for a in origins(prog, fn, v):
                if a[0] == 'link':
                    for bb in summarise_base(prog, fn, a[1]):
                        out.add(('link', bb, a[2]))
                else:
                    out.add(a)
        prog._summ_cache[key] = out
        return out
    finally:
        _in_progress.discard(key)


def base_str(b, names=None):
    if hasattr(b, 'kind'):
        sb = strip(b)
        if sb.kind == 'param' and names:
            return names(sb.args[0])
        return show(sb, 3)
    if isinstance(b, tuple):
        if b[0] == 'param':
            return names(b[1]) if names else 'Param%d' % b[1]
        if b[0] == 'link':
            return 'node(%s).%s' % (base_str(b[1], names), b[2])
        if b[0] == 'opaque':
            return b[1]
    return str(b)


def atom_str(a, names=None):
    if a[0] == 'link':
        return 'node(%s).%s' % (base_str(a[1], names), a[2])
    if a[0] == 'search':
        return 'search:%s' % a[1]
    if a[0] == 'param' and names:
        return names(a[1])
    return ':'.join(str(x) for x in a)
