"""Scratch copies of /repo's current working tree (outside /repo and /verif; always removed)."""
import os, shutil, tempfile, contextlib


@contextlib.contextmanager
def scratch_copy(repo='/repo'):
    tmp = tempfile.mkdtemp(prefix='itree-scratch-')
    try:
        dst = os.path.join(tmp, 'repo')
        os.makedirs(dst)
        for name in os.listdir(repo):
            if name in ('.git', 'target'):
                continue
            s = os.path.join(repo, name)
            d = os.path.join(dst, name)
            if os.path.isdir(s):
                shutil.copytree(s, d)
            else:
                shutil.copy2(s, d)
        yield dst
    finally:
        shutil.rmtree(tmp, ignore_errors=True)


def apply_edit(root, file, old, new, count=1):
    p = os.path.join(root, file)
    if not os.path.exists(p):
        return False
    s = open(p).read()
    if s.count(old) != count:
        return False
    open(p, 'w').write(s.replace(old, new))
    return True
