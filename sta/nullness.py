"""Link nullness: which u32 link values are known to differ from EMPTY_REF at each point.

Forward must-analysis over SSA values with branch refinement and symbolic heap places
(DESIGN 2.2).  Interprocedural by optimistic fixpoint over parameter facts (call-site meet)
and return summaries."""
from ssa import strip, show, walk
from origins import origins, LINKS


def is_debug_assert(span):
    return bool(span and span[3] and any('debug_assert' in x for x in span[3]))


class FnNull:
    """result of analysing one function"""

    def __init__(self):
        self.site_state = {}     # call Val id -> (vals frozenset, heap frozenset) state before the call
        self.ret_nonempty = True
        self.arg_nonempty = {}   # call Val id -> [bool per arg]
        self.arg_nonroot = {}    # call Val id -> [bool per arg]: argument known to differ from the root
        self.arg_heap = {}       # call Val id -> {(k, field): bool}: link `field` of node(arg k) known NonEmpty at the call


class NullAnalysis:
    def __init__(self, prog, assumptions=None):
        self.prog = prog
        self.EMPTY = prog.EMPTY_REF
        self.param_fact = {}      # (fn.path, k) -> bool
        self.ret_fact = {}        # fn.path -> bool
        self.param_nr = {}        # (fn.path, k) -> bool: every caller passes a node known not to be the root
        self.param_heap = {}      # (fn.path, k, field) -> bool: every caller has established node(arg).field != EMPTY_REF
        self.results = {}
        # assumptions: set of (fn.path, val id) accepted as NonEmpty by a reasoned exception
        self.assumed = assumptions if assumptions is not None else set()
        self._intr_cache = {}
        self.rounds = 0

    # ---------------------------------------------------------------------------------------
    def u32_params(self, fn):
        b = fn.body
        return [k for k in range(1, b.arg_count + 1) if b.locals[k]['ty'] == 'u32']

    def solve(self):
        prog = self.prog
        fns = [f for f in prog.fns.values()]
        for f in fns:
            has_callers = bool(prog.callers(f)) and not f.trait_item
            for k in self.u32_params(f):
                self.param_fact[(f.path, k)] = True
                self.param_nr[(f.path, k)] = has_callers
                for fld in LINKS:
                    self.param_heap[(f.path, k, fld)] = has_callers
            self.ret_fact[f.path] = True
        changed = True
        while changed and self.rounds < 20:
            changed = False
            self.rounds += 1
            self._intr_cache = {}
            for f in fns:
                r = self.analyse(f)
                self.results[f.path] = r
                if self.ret_fact[f.path] and not r.ret_nonempty:
                    self.ret_fact[f.path] = False
                    changed = True
            # call-site meet for parameters
            for f in fns:
                r = self.results[f.path]
                for call in f.body.calls:
                    tgt = prog.resolve(call)
                    if tgt is None:
                        continue
                    flags = r.arg_nonempty.get(call.id)
                    if flags is None:
                        continue    # unreachable call
                    nr = r.arg_nonroot.get(call.id, [])
                    hp = r.arg_heap.get(call.id, {})
                    for k in self.u32_params(tgt):
                        if k - 1 < len(flags) and not flags[k - 1]:
                            if self.param_fact.get((tgt.path, k)):
                                # public API handles are NonEmpty by contract: do not lower
                                if self.contract_param(tgt, k):
                                    continue
                                self.param_fact[(tgt.path, k)] = False
                                changed = True
                        if self.param_nr.get((tgt.path, k)) and not (k - 1 < len(nr) and nr[k - 1]):
                            self.param_nr[(tgt.path, k)] = False
                            changed = True
                        for fld in LINKS:
                            if self.param_heap.get((tgt.path, k, fld)) and not hp.get((k, fld)):
                                self.param_heap[(tgt.path, k, fld)] = False
                                changed = True
        return self

    def contract_param(self, fn, k):
        """handle parameters of public trait methods are valid handles by the C10 contract"""
        return bool(fn.trait_item)

    # ---------------------------------------------------------------------------------------
    def intrinsic(self, fn, v, _seen=None):
        """NonEmpty regardless of program point"""
        v = strip(v)
        if v is None:
            return False
        key = (fn.path, v.id)
        if key in self._intr_cache:
            return self._intr_cache[key]
        if key in self.assumed:
            return True
        if _seen is None:
            _seen = set()
        if v.id in _seen:
            return True     # optimistic on cycles
        _seen.add(v.id)
        r = False
        k = v.kind
        if k == 'const':
            r = v.args[0] is not None and v.args[0] != self.EMPTY
        elif k == 'param':
            r = self.param_fact.get((fn.path, v.args[0]), False)
        elif k == 'call':
            tgt = self.prog.resolve(v)
            if tgt is not None:
                r = self.ret_fact.get(tgt.path, False) and tgt.body.locals[0]['ty'] == 'u32'
            else:
                ats = origins(self.prog, fn, v)
                r = bool(ats) and all(a[0] == 'pop' for a in ats)
        elif k == 'load':
            ats = origins(self.prog, fn, v)
            r = bool(ats) and all(a[0] == 'pop' for a in ats)
            if not r and fn.is_closure:
                cap = self.captured(fn, v)
                if cap is not None:
                    pfn, pval = cap
                    r = self.intrinsic(pfn, pval)
        elif k == 'phi':
            r = all(self.intrinsic(fn, a, _seen) for a in v.args)
        if not _seen or len(_seen) == 1:
            self._intr_cache[key] = r
        return r

    def captured(self, fn, v):
        """if v reads a captured variable of closure fn: (parent Fn, captured Val in the parent)"""
        root = strip(v.args[0])
        if not (root.kind == 'param' and root.args[0] == 1):
            return None
        flds = v.fields()
        if len(flds) != 1 or not flds[0].startswith('upvar'):
            return None
        n = int(flds[0][5:])
        parent = self.prog.fns.get(fn.parent)
        if parent is None:
            return None
        for x in parent.body._vals:
            if x.kind == 'agg' and x.extra.get('akind') == 'closure' and x.extra.get('path') == fn.path and n < len(x.args):
                pv = strip(x.args[n])
                while pv.kind == 'ref' and not pv.fields():
                    pv = strip(pv.args[0])
                return parent, pv
        return None

    def heap_key(self, fn, v):
        """key of the heap place a load reads, if it is a link field of an arena element or self.root"""
        if v.kind != 'load':
            return None
        sf = self.prog.self_field(v)
        if sf == ('root',):
            return ('root',)
        nf = self.prog.node_field(v)
        if nf is not None and len(nf[1]) == 1 and nf[1][0] in LINKS:
            return ('node', strip(nf[0]).id, nf[1][0])
        # any other u32 read through a pointer value (explicit-stack frames, `node` references held in a local)
        if v.ty == 'u32' and '*' in v.args[1] and not any(isinstance(p, tuple) for p in v.args[1]):
            return ('mem', v.args[0].id, v.args[1])
        return None

    def kills_heap(self, fn, call):
        """does this call possibly write collection state?"""
        prog = self.prog
        tgt = prog.resolve(call)
        if tgt is not None and tgt.path in prog.accessors:
            return False
        if tgt is not None and tgt.info.get('mir') and not tgt.is_closure and tgt.body.arg_count == len(call.args):
            # the callee's own signature says what it may write (`self.height()` from a `&mut self` method hands out `&*self`)
            return any((tgt.body.locals[i]['ty'] or '').startswith('&mut') for i in range(1, tgt.body.arg_count + 1))
        for a in call.args:
            if (a.ty or '').startswith('&mut'):
                return True
        return False

    # ---------------------------------------------------------------------------------------
    def analyse(self, fn):
        prog = self.prog
        b = fn.body
        cfg = b.cfg
        res = FnNull()
        # events per block
        events = {bb: [] for bb in cfg.rpo}
        for v in b._vals:
            if v.kind == 'load' and v.point and v.point[0] in events and v.point[1] >= 0:
                hk = self.heap_key(fn, v)
                if hk is not None:
                    events[v.point[0]].append((v.point[1], 0, 'load', v, hk))
        for st in b.stores:
            if st.point[0] in events:
                events[st.point[0]].append((st.point[1], 1, 'store', st, None))
        for bb, call in b.call_at.items():
            if bb in events:
                events[bb].append((call.point[1], 2, 'call', call, None))
        for bb in events:
            events[bb].sort(key=lambda e: (e[0], e[1]))
        TOP = None
        inn = {bb: TOP for bb in cfg.rpo}
        v0, h0 = set(), set()
        for k in self.u32_params(fn):
            pv = b.params.get(k)
            if pv is None:
                continue
            if self.param_nr.get((fn.path, k)):
                v0.add(('nr', pv.id))
            for fld in LINKS:
                if self.param_heap.get((fn.path, k, fld)):
                    h0.add(('node', pv.id, fld))
        inn[0] = (frozenset(v0), frozenset(h0), ())
        out_edge = {}
        work = [0]
        inwork = {0}
        iters = 0
        while work and iters < 5000:
            iters += 1
            bb = work.pop(0)
            inwork.discard(bb)
            st = inn[bb]
            if st is TOP:
                continue
            vals, heap, alias = set(st[0]), set(st[1]), dict(st[2])
            for (_, _, kind, obj, hk) in events[bb]:
                if kind == 'load':
                    alias[obj.id] = hk
                    if hk in heap:
                        vals.add(obj.id)
                    elif hk[0] == 'node' and hk[2] == 'parent' and ('nr', hk[1]) in vals:
                        vals.add(obj.id)        # only the root has an empty parent link
                elif kind == 'store':
                    f = obj.fields()
                    if f and (f[-1] in LINKS or f[-1] == 'root'):
                        heap.clear()
                        alias.clear()
                    else:
                        # other memory writes only invalidate the generic places
                        for hk2 in [h for h in heap if h[0] == 'mem']:
                            heap.discard(hk2)
                        for a2 in [a for a, h in alias.items() if h[0] == 'mem']:
                            del alias[a2]
                elif kind == 'call':
                    res.site_state[obj.id] = (frozenset(vals), frozenset(heap))
                    res.arg_nonempty[obj.id] = [self.nonempty(fn, a, vals) for a in obj.args]
                    res.arg_nonroot[obj.id] = [('nr', strip(a).id) in vals for a in obj.args]
                    hp = {}
                    for i, a in enumerate(obj.args):
                        aid = strip(a).id
                        for fld in LINKS:
                            hp[(i + 1, fld)] = ('node', aid, fld) in heap or (fld == 'parent' and ('nr', aid) in vals)
                    res.arg_heap[obj.id] = hp
                    if self.kills_heap(fn, obj):
                        heap.clear()
                        alias.clear()
            if b.mir['blocks'][bb]['term']['k'] == 'return':
                rv = b.ret_val.get(bb)
                if rv is not None and b.locals[0]['ty'] == 'u32':
                    if not self.nonempty(fn, rv, vals):
                        res.ret_nonempty = False
            for s in cfg.succ[bb]:
                v2, h2 = set(vals), set(heap)
                self.refine(fn, bb, s, v2, h2, alias)
                # phis of s
                for l, ph in b.phis.get(s, {}).items():
                    try:
                        i = ph.extra['preds'].index(bb)
                    except ValueError:
                        continue
                    out_edge[(bb, s, ph.id)] = self.nonempty(fn, ph.args[i], v2)
                new = (frozenset(v2), frozenset(h2), tuple(sorted(alias.items())))
                old = inn[s]
                if old is TOP:
                    merged = new
                else:
                    a_old = dict(old[2])
                    merged_alias = tuple(sorted((k, v) for k, v in alias.items() if a_old.get(k) == v))
                    merged = (old[0] & new[0], old[1] & new[1], merged_alias)
                # phi facts
                mv = set(merged[0])
                for l, ph in b.phis.get(s, {}).items():
                    flags = [out_edge.get((p, s, ph.id)) for p in ph.extra['preds']]
                    known = [f for f in flags if f is not None]
                    if known and all(known):
                        mv.add(ph.id)
                    else:
                        mv.discard(ph.id)
                merged = (frozenset(mv), merged[1], merged[2])
                if merged != old:
                    inn[s] = merged
                    if s not in inwork:
                        work.append(s)
                        inwork.add(s)
        self._last_in = inn
        return res

    def nonempty(self, fn, v, vals):
        v = strip(v)
        if v is None:
            return False
        if v.id in vals:
            return True
        return self.intrinsic(fn, v)

    def refine(self, fn, bb, succ, vals, heap, alias):
        b = fn.body
        t = b.mir['blocks'][bb]['term']
        if t['k'] != 'switch' or bb not in b.switch_discr:
            return
        if is_debug_assert(t['span']):
            return
        if any(s2 not in b.cfg.can_return for s2 in b.cfg.succ[bb]):
            return      # assertion (one side only panics): exists in one configuration only, never refine on it
        d = strip(b.switch_discr[bb])
        if d.kind != 'bin' and (d.ty == 'u32' or t.get('dty') == 'u32') and self.EMPTY is not None:
            # `match index { EMPTY_REF => .., i => .. }`: a switch on the value itself
            listed = [val for val, _ in t['targets']]
            if self.EMPTY in listed:
                empty_target = [tb for val, tb in t['targets'] if val == self.EMPTY][0]
                if succ != empty_target:
                    self.learn(d, vals, heap, alias)
            return
        if d.kind == 'bin' and d.args[0] in ('Lt', 'Gt') and self.EMPTY is not None:
            # x < EMPTY_REF (= u32::MAX) is x != EMPTY_REF
            x0, y0 = strip(d.args[1]), strip(d.args[2])
            small, big = (x0, y0) if d.args[0] == 'Lt' else (y0, x0)
            if self.prog.is_empty_ref(big):
                tvv = None
                for val, tb in t['targets']:
                    if tb == succ and t['otherwise'] != succ:
                        tvv = val
                if tvv is None and t['otherwise'] == succ:
                    listed = [val for val, _ in t['targets']]
                    tvv = 1 if listed == [0] else (0 if listed == [1] else None)
                if tvv:
                    self.learn(small, vals, heap, alias)
            return
        if d.kind != 'bin' or d.args[0] not in ('Eq', 'Ne'):
            return
        if is_debug_assert(d.span):
            return
        x, y = strip(d.args[1]), strip(d.args[2])
        root_side = None
        for a, c in ((x, y), (y, x)):
            if c.kind == 'load' and self.prog.self_field(c) == ('root',):
                root_side = a
        # which successor means "true"
        tv = None
        for val, tb in t['targets']:
            if tb == succ and t['otherwise'] != succ:
                tv = val
        if tv is None and t['otherwise'] == succ:
            # otherwise edge: value is anything not listed; for bool with target 0 listed -> true
            listed = [val for val, _ in t['targets']]
            if listed == [0]:
                tv = 1
            elif listed == [1]:
                tv = 0
        if tv is None:
            return
        truth = bool(tv)
        equal = truth if d.args[0] == 'Eq' else (not truth)
        if root_side is not None and not equal:
            vals.add(('nr', root_side.id))      # x != root: x is a non-root node (persistent: not a heap fact)
        for a, c in ((x, y), (y, x)):
            if self.prog.is_empty_ref(c) and not equal:
                self.learn(a, vals, heap, alias)
            elif equal and (c.id in vals or self.intrinsic(fn, c)) and not self.prog.is_empty_ref(c):
                # a == c and c is NonEmpty
                if c.kind != 'const' or c.args[0] != self.EMPTY:
                    self.learn(a, vals, heap, alias)

    def learn(self, a, vals, heap, alias):
        vals.add(a.id)
        hk = alias.get(a.id)
        if hk is not None:
            heap.add(hk)
