import os
"""Rule engine plumbing: instances, context, evidence."""
import json, os, time
from program import Program, fn_key


class Instance:
    __slots__ = ('rule', 'key', 'fn', 'file', 'line', 'verdict', 'msg', 'props', 'details', 'nontrivial')

    def __init__(self, rule, key, fn, file, line, verdict, msg, props, details=None, nontrivial=True):
        self.rule = rule
        self.key = key
        self.fn = fn
        self.file = file
        self.line = line
        self.verdict = verdict          # ok | violation | exception | info
        self.msg = msg
        self.props = set(props)
        self.details = details or {}
        self.nontrivial = nontrivial

    def to_json(self):
        return {'rule': self.rule, 'key': self.key, 'function': self.fn, 'file': self.file, 'line': self.line,
                'verdict': self.verdict, 'msg': self.msg, 'props': sorted(self.props), 'details': self.details}


class Ctx:
    def __init__(self, prog, config='debug'):
        self.prog = prog
        self.config = config
        self.instances = []
        self.rule_stats = {}
        self.crashed = {}               # rule id -> traceback tail of a rule module that raised
        # anchor floors are the counts confirmed on the reference tree.  The frozen reference (fixtures/base) is held to them
        # exactly on every run (that is what detects a rotten extractor or recogniser); the tree under analysis may have
        # consolidated code (helpers merged, duplicated searches folded into one), so it is held to half of them: a
        # collapse is still reported, a merge is not
        self.floor_scale = 0.5

    def add(self, rule, fn, sig, verdict, msg, props, line=None, details=None, nontrivial=True):
        """fn: Fn or None; sig: line-free instance signature"""
        if fn is not None:
            fk = fn_key(fn)
            file = fn.rel
            line = line if line is not None else fn.line
        else:
            fk, file = '<crate>', ''
            line = line or 0
        key = '%s|%s|%s' % (rule, fk, sig)
        inst = Instance(rule, key, fk, file, line, verdict, msg, props, details, nontrivial)
        self.instances.append(inst)
        return inst

    def anchor_missing(self, rule, what, props, found=None, floor=None):
        msg = 'anchor-missing: %s' % what
        if floor is not None:
            msg += ' (found %s, floor %s)' % (found, floor)
            import math
            if isinstance(found, int) and found >= max(1, math.ceil(floor * self.floor_scale)):
                return self.add(rule, None, 'anchor:' + what, 'info', 'fewer anchors than on the reference tree: %s (found %s, reference %s): accepted as consolidation' % (what, found, floor), props, nontrivial=False)
        return self.add(rule, None, 'anchor:' + what, 'violation', msg, props)

    def stat(self, rule, **kw):
        self.rule_stats.setdefault(rule, {}).update(kw)


def span_line(v, default=0):
    sp = getattr(v, 'span', None)
    if sp:
        return sp[1]
    return default
