"""SSA construction over MIR locals and a small symbolic value language.

Every read of a local resolves to exactly one Val.  Memory reads through pointers are
`load(root, path)` terms that are *not* time-stamped: rules that depend on the heap being
unchanged between two points must check that with CFG queries (Body.stores / calls)."""
import sys
from cfg import CFG

sys.setrecursionlimit(10000)


class Val:
    __slots__ = ('id', 'kind', 'args', 'ty', 'point', 'span', 'extra', '_key')

    def __init__(self, vid, kind, args=(), ty=None, point=None, span=None, extra=None):
        self.id = vid
        self.kind = kind
        self.args = args
        self.ty = ty
        self.point = point
        self.span = span
        self.extra = extra or {}
        self._key = None

    def __repr__(self):
        return show(self, 4)

    # convenience ---------------------------------------------------------------------------
    def is_const(self, value=None):
        return self.kind == 'const' and (value is None or self.args[0] == value)

    @property
    def callee(self):
        return self.extra.get('callee') if self.kind == 'call' else None

    def callee_name(self):
        c = self.callee
        return c.get('name') if c and c.get('path') else None

    def fields(self):
        """for load/ref: the path without deref markers"""
        return tuple(p for p in self.args[1] if p != '*')


def show(v, depth=6):
    if v is None:
        return 'None'
    if depth <= 0:
        return '..'
    k = v.kind
    if k == 'param':
        return 'Param%d' % v.args[0]
    if k == 'const':
        if v.args[1]:
            return v.args[1].split('::')[-1]
        return str(v.args[0]) if v.args[0] is not None else 'const(%s)' % v.args[2]
    if k == 'fn':
        return 'fn:' + v.args[0]['path']
    if k == 'phi':
        return 'phi%d(_%d@bb%d)' % (v.id, v.extra['local'], v.extra['block'])
    if k in ('load', 'ref'):
        p = '.'.join(str(x) if not isinstance(x, tuple) else '[%s]' % show(x[1], depth - 1) for x in v.args[1])
        return '%s(%s%s)' % ('ld' if k == 'load' else 'ref', show(v.args[0], depth - 1), ('.' + p) if p else '')
    if k == 'call':
        c = v.extra['callee']
        name = (c.get('path') or 'indirect').split('::')[-1]
        if c.get('trait'):
            name = c['trait'].split('::')[-1] + '::' + name
        return '%s#%d(%s)' % (name, v.id, ', '.join(show(a, depth - 1) for a in v.args))
    if k == 'bin':
        return '%s(%s, %s)' % (v.args[0], show(v.args[1], depth - 1), show(v.args[2], depth - 1))
    if k == 'un':
        return '%s(%s)' % (v.args[0], show(v.args[1], depth - 1))
    if k == 'cast':
        return 'cast(%s as %s)' % (show(v.args[0], depth - 1), v.ty)
    if k == 'discr':
        return 'discr(%s)' % show(v.args[0], depth - 1)
    if k == 'agg':
        e = v.extra
        nm = e['path'].split('::')[-1] if e['path'] else e['akind']
        if e.get('variant'):
            nm += '::' + e['variant']['name']
        return '%s{%s}' % (nm, ', '.join(show(a, depth - 1) for a in v.args))
    if k == 'update':
        return 'upd(%s.%s := %s)' % (show(v.args[0], depth - 1), '.'.join(map(str, v.args[1])), show(v.args[2], depth - 1))
    if k == 'escaped':
        return 'esc(_%d)' % v.args[0]
    return k


class Store:
    """a write through a pointer: *root.path := value"""
    __slots__ = ('root', 'path', 'value', 'point', 'span', 'via_call', 'owner', 'phi_pred')

    def __init__(self, root, path, value, point, span, via_call=False):
        self.root = root
        self.path = path
        self.value = value
        self.point = point
        self.span = span
        self.via_call = via_call
        self.owner = None
        self.phi_pred = None

    def fields(self):
        return tuple(p for p in self.path if p != '*')

    def __repr__(self):
        return 'store(%s.%s := %s @%s)' % (show(self.root), '.'.join(map(str, self.path)), show(self.value), self.point)


class Body:
    def __init__(self, fn):
        self.fn = fn
        self.path = fn['path']
        self.mir = fn['mir']
        self.cfg = CFG(self.mir)
        self.locals = self.mir['locals']
        self.nlocals = len(self.locals)
        self.arg_count = self.mir['arg_count']
        self.names = {}
        for d in self.mir['debug']:
            v = d['value']
            if 'l' in v and not v['p']:
                self.names.setdefault(v['l'], d['name'])
        self.upvar_names = {}
        for d in self.mir['debug']:
            v = d['value']
            if 'l' in v and v['p']:
                # closure upvar: _1.upvarN or (*_1).upvarN [deref]
                for e in v['p']:
                    if isinstance(e, list) and e[0] == 'field' and e[2].startswith('upvar'):
                        self.upvar_names[e[2]] = d['name']
        self._vals = []
        self.stores = []          # Store objects (heap writes through pointers)
        self.calls = []           # call Vals in block order
        self.call_at = {}         # bb -> call Val (terminator)
        self.switch_discr = {}    # bb -> Val of the switch discriminant
        self.assert_cond = {}     # bb -> Val
        self.ret_val = {}         # return bb -> Val of _0
        self.phis = {}            # bb -> {local: phi Val}
        self.local_defs = {}      # local -> [Val] all values ever assigned (incl. partial updates)
        self.use_vals = {}        # (bb, idx, tag) -> Val : operands as evaluated
        self.stmt_vals = {}       # (bb, idx) -> Val assigned by that statement (whole-local defs and stores' value)
        self.escaped = self._find_escaped()
        self._build()

    # ------------------------------------------------------------------------------------
    def new(self, kind, args=(), ty=None, point=None, span=None, extra=None):
        v = Val(len(self._vals), kind, args, ty, point, span, extra)
        self._vals.append(v)
        return v

    def _find_escaped(self):
        esc = set()
        for b in self.mir['blocks']:
            for s in b['stmts']:
                if s['k'] != 'assign':
                    continue
                rv = s['rv']
                if rv['k'] in ('ref', 'rawptr') and rv.get('mut'):
                    pl = rv['place']
                    if 'deref' not in [e for e in pl['p'] if isinstance(e, str)]:
                        esc.add(pl['l'])
        return esc

    def _defsites(self):
        """blocks in which each (non-escaped) local is (re)defined"""
        sites = {}
        for bi in self.cfg.rpo:
            b = self.mir['blocks'][bi]
            for s in b['stmts']:
                if s['k'] in ('assign', 'setdiscr'):
                    pl = s['place']
                    if not pl['p'] or pl['p'][0] != 'deref':
                        sites.setdefault(pl['l'], set()).add(bi)
            t = b['term']
            if t['k'] == 'call':
                pl = t['dest']
                if not pl['p'] or pl['p'][0] != 'deref':
                    sites.setdefault(pl['l'], set()).add(bi)
        return sites

    def _liveness(self):
        blocks = self.mir['blocks']
        use, defs = {}, {}

        def place_uses(pl, acc, d):
            if pl['l'] not in d:
                acc.add(pl['l'])
            for e in pl['p']:
                if isinstance(e, list) and e[0] == 'index' and e[1] not in d:
                    acc.add(e[1])

        def op_uses(o, acc, d):
            if o and o.get('k') in ('copy', 'move'):
                place_uses(o['place'], acc, d)

        for bi in self.cfg.rpo:
            b = blocks[bi]
            u, d = set(), set()
            for s in b['stmts']:
                if s['k'] == 'assign':
                    rv = s['rv']
                    for key in ('op', 'a', 'b'):
                        if isinstance(rv.get(key), dict):
                            op_uses(rv[key], u, d)
                    if 'place' in rv:
                        place_uses(rv['place'], u, d)
                    for o in rv.get('ops', []):
                        op_uses(o, u, d)
                if s['k'] in ('assign', 'setdiscr'):
                    pl = s['place']
                    if pl['p']:
                        place_uses(pl, u, d)
                    else:
                        d.add(pl['l'])
            t = b['term']
            if t['k'] == 'call':
                for a in t['args']:
                    op_uses(a, u, d)
                if not t['callee'].get('path'):
                    op_uses(t['callee'].get('indirect'), u, d)
                pl = t['dest']
                if pl['p']:
                    place_uses(pl, u, d)
                else:
                    d.add(pl['l'])
            elif t['k'] == 'switch':
                op_uses(t['discr'], u, d)
            elif t['k'] == 'assert':
                op_uses(t['cond'], u, d)
                for o in t['ops']:
                    op_uses(o, u, d)
            elif t['k'] == 'return':
                if 0 not in d:
                    u.add(0)
            elif t['k'] == 'drop':
                place_uses(t['place'], u, d)
            use[bi], defs[bi] = u, d
        live_in = {b: set() for b in self.cfg.rpo}
        changed = True
        while changed:
            changed = False
            for b in reversed(self.cfg.rpo):
                out = set()
                for s in self.cfg.succ[b]:
                    out |= live_in.get(s, set())
                new = use[b] | (out - defs[b])
                if new != live_in[b]:
                    live_in[b] = new
                    changed = True
        return live_in

    def _build(self):
        cfg = self.cfg
        sites = self._defsites()
        df = cfg.dom_frontier()
        live_in = self._liveness()
        # phi placement (pruned: only where the local is live-in)
        for l, blocks in sites.items():
            if l in self.escaped:
                continue
            work = list(blocks)
            if l <= self.arg_count and l != 0:
                pass  # params are defined at entry; entry has no preds in practice
            placed = set()
            while work:
                x = work.pop()
                for y in df.get(x, ()):
                    if y not in placed:
                        placed.add(y)
                        if l not in live_in[y] and l != 0:
                            if y not in blocks:
                                work.append(y)
                            continue
                        ph = self.new('phi', [], ty=self.locals[l]['ty'], point=(y, -1),
                                      extra={'block': y, 'local': l, 'preds': []})
                        self.phis.setdefault(y, {})[l] = ph
                        if y not in blocks:
                            work.append(y)
        # dominator tree children
        children = {b: [] for b in cfg.rpo}
        for b in cfg.rpo:
            if b != 0:
                children[cfg.idom[b]].append(b)
        cur = {}
        for l in range(self.nlocals):
            if 1 <= l <= self.arg_count:
                cur[l] = self.new('param', (l,), ty=self.locals[l]['ty'], point=(0, -1))
            else:
                cur[l] = self.new('undef', (l,), ty=self.locals[l]['ty'])
        self.params = {l: cur[l] for l in range(1, self.arg_count + 1)}
        self._rename(0, cur, children)
        # dedupe phi operands / record
        for b, d in self.phis.items():
            for l, ph in d.items():
                self.local_defs.setdefault(l, []).append(ph)
        # trivial phis (all operands the same value, ignoring self references) are transparent: strip() follows them
        changed = True
        while changed:
            changed = False
            for b, d in self.phis.items():
                for l, ph in d.items():
                    if 'same_as' in ph.extra:
                        continue
                    ops = set()
                    for a in ph.args:
                        sa = strip(a)
                        if sa is not ph:
                            ops.add(sa.id)
                            last = sa
                    if len(ops) == 1 and last.kind != 'undef':
                        ph.extra['same_as'] = last
                        changed = True
        # a component read from a merge of aggregates (`let (a, b) = if c { (x, y) } else { (z, w) }`, a tuple returned by
        # an expanded helper through several returns) is the merge of the components
        for v in list(self._vals):
            if v.kind != 'load' or not v.args[1]:
                continue
            P = strip(v.args[0])
            if P is None or P.kind != 'phi' or P.extra.get('anyof') or not P.args:
                continue
            path = v.args[1]
            if path[0] == '*' or not isinstance(path[0], str):
                continue
            comps = []
            for a in P.args:
                sa = strip(a)
                if sa is None or sa.kind != 'agg':
                    comps = None
                    break
                c = self.mk_load(sa, tuple(path), v.ty, v.point, v.span)
                if c.kind == 'load' and strip(c.args[0]) is sa:
                    comps = None        # not resolvable inside the aggregate
                    break
                comps.append(c)
            if comps:
                ids = {strip(c).id for c in comps}
                if len(ids) == 1:
                    v.extra['same_as'] = strip(comps[0])
                else:
                    n = self.new('phi', list(comps), ty=v.ty, point=v.point, span=v.span, extra={'block': P.extra['block'], 'local': -1, 'preds': list(P.extra['preds'])})
                    v.extra['same_as'] = n

    def _rename(self, b, cur, children):
        cur = dict(cur)
        for l, ph in self.phis.get(b, {}).items():
            cur[l] = ph
        blk = self.mir['blocks'][b]
        for i, s in enumerate(blk['stmts']):
            if s['k'] == 'assign':
                v = self._rvalue(s['rv'], cur, (b, i), s['span'], self.locals[s['place']['l']]['ty'] if not s['place']['p'] else s['place'].get('ty'))
                self._assign(s['place'], v, cur, (b, i), s['span'])
            elif s['k'] == 'setdiscr':
                v = self.new('const', (s['variant'], None, 'variant'), point=(b, i), span=s['span'])
                pl = dict(s['place'])
                pl['p'] = pl['p'] + [['field', -1, '<discr>', '', '']]
                self._assign(pl, v, cur, (b, i), s['span'])
        t = blk['term']
        pt = (b, len(blk['stmts']))
        k = t['k']
        if k == 'call':
            args = tuple(self._operand(a, cur, pt, t['span']) for a in t['args'])
            c = t['callee']
            if not c.get('path'):
                ind = self._operand(c['indirect'], cur, pt, t['span'])
                c = dict(c)
                c['indirect_val'] = ind
            cpath = c.get('path') or ''
            a0 = strip(args[0]) if args else None
            if cpath.endswith('mem::replace') and len(args) == 2 and a0.kind == 'ref':
                # mem::replace(&mut place, v)  ==  { let old = place; place = v; old }
                v = self.mk_load(a0, ('*',), ty=t['dest'].get('ty'), pt=pt, span=t['span'])
                self.stores.append(Store(a0.args[0], a0.args[1], args[1], (b, pt[1] + 0.5), t['span'], via_call=True))
                self._assign(t['dest'], v, cur, pt, t['span'])
            elif cpath.endswith('mem::swap') and len(args) == 2 and a0.kind == 'ref' and strip(args[1]).kind == 'ref':
                a1 = strip(args[1])
                x = self.mk_load(a0, ('*',), pt=pt, span=t['span'])
                y = self.mk_load(a1, ('*',), pt=pt, span=t['span'])
                self.stores.append(Store(a0.args[0], a0.args[1], y, (b, pt[1] + 0.5), t['span'], via_call=True))
                self.stores.append(Store(a1.args[0], a1.args[1], x, (b, pt[1] + 0.5), t['span'], via_call=True))
                v = self.new('const', (None, None, '()'), point=pt, span=t['span'])
                self._assign(t['dest'], v, cur, pt, t['span'])
            else:
                v = self.new('call', args, ty=t['dest'].get('ty'), point=pt, span=t['span'], extra={'callee': c, 'bb': b, 'fn_span': t['fn_span']})
                self.calls.append(v)
                self.call_at[b] = v
                self._assign(t['dest'], v, cur, pt, t['span'])
        elif k == 'switch':
            self.switch_discr[b] = self._operand(t['discr'], cur, pt, t['span'])
        elif k == 'assert':
            self.assert_cond[b] = self._operand(t['cond'], cur, pt, t['span'])
            self.use_vals[(b, 'assert_ops')] = [self._operand(o, cur, pt, t['span']) for o in t['ops']]
        elif k == 'return':
            self.ret_val[b] = self._read_local(0, cur, pt)
        elif k == 'drop':
            pass
        for s in self.cfg.succ[b]:
            for l, ph in self.phis.get(s, {}).items():
                ph.args.append(self._read_local(l, cur, pt))
                ph.extra['preds'].append(b)
        for c in children[b]:
            self._rename(c, cur, children)

    # ---- reads -------------------------------------------------------------------------------
    def _read_local(self, l, cur, pt):
        if l in self.escaped:
            return self.new('escaped', (l,), ty=self.locals[l]['ty'], point=pt)
        return cur[l]

    def _place_read(self, pl, cur, pt, span):
        base = self._read_local(pl['l'], cur, pt)
        path = self._path(pl['p'], cur, pt)
        if not path:
            return base
        v = self.mk_load(base, path, pl.get('ty'), pt, span)
        if v.kind == 'load':
            # owner ADT of the last field projected (for flow-insensitive record-field summaries)
            for e in reversed(pl['p']):
                if isinstance(e, list) and e[0] == 'field':
                    v.extra.setdefault('last_owner', e[3])
                    break
            else:
                sb = strip(base)
                if sb.kind == 'ref' and sb.extra.get('last_owner'):
                    v.extra.setdefault('last_owner', sb.extra['last_owner'])
        return v

    def _path(self, proj, cur, pt):
        out = []
        for e in proj:
            if e == 'deref':
                out.append('*')
            elif e[0] == 'field':
                out.append(e[2])
            elif e[0] == 'index':
                out.append(('idx', self._read_local(e[1], cur, pt)))
            elif e[0] == 'downcast':
                out.append('as:' + e[1])
            elif e[0] == 'constindex':
                out.append('[%d]' % e[1])
            else:
                out.append('<%s>' % e[0])
        return tuple(out)

    def _literal_iter_elems(self, root, path):
        """`for x in [a, b]`: the payload of next() on an iterator built from an array literal -> its elements"""
        if not (root.kind == 'call' and root.callee_name() == 'next' and len(root.args) == 1 and tuple(path[:2]) == ('as:Some', '0')):
            return None
        it = strip(root.args[0])
        while it is not None and it.kind == 'ref' and not it.fields():
            it = strip(it.args[0])
        if it is None or it.kind != 'escaped':
            return None
        defs = self.local_defs.get(it.args[0], [])
        if len(defs) != 1:
            return None
        d = strip(defs[0])
        if d.kind != 'call' or d.callee_name() != 'into_iter' or len(d.args) != 1:
            return None
        arr = strip(d.args[0])
        if arr.kind != 'agg' or arr.extra.get('akind') != 'array' or not arr.args:
            return None
        return arr.args

    def mk_load(self, root, path, ty=None, pt=None, span=None):
        # normalise through refs, loads, aggregates, updates
        keep_pt = False
        elems = self._literal_iter_elems(root, path) if root is not None and path else None
        if elems is not None:
            blk = root.point[0] if root.point else 0
            sel = self.new('phi', list(elems), ty=ty, point=pt, span=span, extra={'block': blk, 'local': -1, 'preds': [blk] * len(elems), 'anyof': True})
            rest = tuple(path[2:])
            return self.mk_load(sel, rest, ty, pt, span) if rest else sel
        while True:
            if not path:
                return root
            if root.kind == 'ref' and path[0] == '*':
                root, path = root.args[0], root.args[1] + path[1:]
                if not path:
                    return root
                continue
            if root.kind == 'load':
                if path[0] != '*' and root.point is not None:
                    # projection of a value that was already read from memory: the read happened there
                    pt = root.extra.get('read_point', root.point)
                    keep_pt = True
                root, path = root.args[0], root.args[1] + path
                continue
            if root.kind == 'agg' and isinstance(path[0], str) and path[0].startswith('as:') and root.extra.get('variant') and root.extra['variant'].get('name') == path[0][3:]:
                path = path[1:]         # downcast to the variant the aggregate was built with
                if not path:
                    return root
                continue
            if root.kind == 'agg' and path[0] != '*' and isinstance(path[0], str):
                e = root.extra
                idx = None
                if e['akind'] == 'tuple' and path[0].isdigit():
                    idx = int(path[0])
                elif e['akind'] == 'adt' and e.get('variant') and path[0] in e['variant']['fields'] and len(root.args) == len(e['variant']['fields']):
                    idx = e['variant']['fields'].index(path[0])
                elif e['akind'] == 'closure' and path[0].startswith('upvar'):
                    idx = int(path[0][5:])
                if idx is not None and idx < len(root.args):
                    root, path = root.args[idx], path[1:]
                    continue
            if root.kind == 'update' and path[0] != '*':
                upath = root.args[1]
                n = min(len(upath), len(path))
                if upath[:n] == path[:n]:
                    if len(path) >= len(upath):
                        root, path = root.args[2], path[len(upath):]
                        continue
                    # reading a prefix of the updated path: keep as is
                    break
                else:
                    root = root.args[0]
                    continue
            break
        return self.new('load', (root, path), ty=ty, point=pt, span=span, extra={'read_point': pt} if keep_pt else None)

    def mk_ref(self, root, path, mut, ty, pt, span):
        # &(*x) == x ;  ref of load(r,p) == ref(r, p)
        if root.kind == 'ref' and path and path[0] == '*':
            root, path = root.args[0], root.args[1] + path[1:]
        if root.kind == 'load':
            root, path = root.args[0], root.args[1] + path
        if path == ('*',):
            return root
        return self.new('ref', (root, path), ty=ty, point=pt, span=span, extra={'mut': mut})

    def _operand(self, o, cur, pt, span):
        k = o['k']
        if k in ('copy', 'move'):
            return self._place_read(o['place'], cur, pt, span)
        if k == 'const':
            if o.get('fn'):
                return self.new('fn', (o['fn'],), ty=o['ty'], point=pt, span=span)
            if o.get('promoted'):
                pr = o['promoted']
                inner = self.new('const', (pr['val'], pr.get('def'), pr['text']), ty=pr['ty'], point=pt, span=span)
                return self.new('ref', (inner, ()), ty=o['ty'], point=pt, span=span, extra={'mut': False, 'promoted': True})
            return self.new('const', (o['val'], o.get('def'), o['text']), ty=o['ty'], point=pt, span=span)
        return self.new('const', (None, None, k), point=pt, span=span)

    def _rvalue(self, rv, cur, pt, span, ty):
        k = rv['k']
        if k == 'use':
            return self._operand(rv['op'], cur, pt, span)
        if k in ('ref', 'rawptr'):
            pl = rv['place']
            base = self._read_local(pl['l'], cur, pt)
            path = self._path(pl['p'], cur, pt)
            r = self.mk_ref(base, path, rv.get('mut', False), ty, pt, span)
            if r.kind == 'ref':
                # owner of the last field the reference designates (reads / writes through the reference inherit it)
                for e in reversed(pl['p']):
                    if isinstance(e, list) and e[0] == 'field':
                        r.extra.setdefault('last_owner', e[3])
                        break
                else:
                    if strip(base).kind == 'ref' and strip(base).extra.get('last_owner'):
                        r.extra.setdefault('last_owner', strip(base).extra['last_owner'])
            return r
        if k == 'bin':
            return self.new('bin', (rv['op'], self._operand(rv['a'], cur, pt, span), self._operand(rv['b'], cur, pt, span)), ty=ty, point=pt, span=span)
        if k == 'un':
            return self.new('un', (rv['op'], self._operand(rv['a'], cur, pt, span)), ty=ty, point=pt, span=span)
        if k == 'cast':
            return self.new('cast', (self._operand(rv['op'], cur, pt, span),), ty=rv['ty'], point=pt, span=span, extra={'kind': rv['kind']})
        if k == 'discr':
            return self.new('discr', (self._place_read(rv['place'], cur, pt, span),), ty=ty, point=pt, span=span)
        if k == 'agg':
            ops = tuple(self._operand(o, cur, pt, span) for o in rv['ops'])
            return self.new('agg', ops, ty=ty, point=pt, span=span, extra={'akind': rv['akind'], 'path': rv['path'], 'variant': rv['variant']})
        if k == 'repeat':
            return self.new('agg', (self._operand(rv['op'], cur, pt, span),), ty=ty, point=pt, span=span, extra={'akind': 'repeat', 'path': '', 'variant': None})
        return self.new('unknown', (), ty=ty, point=pt, span=span, extra={'rv': k})

    # ---- writes ------------------------------------------------------------------------------
    def _assign(self, pl, v, cur, pt, span):
        l = pl['l']
        proj = pl['p']
        if not proj:
            self.stmt_vals[pt] = v
            self.local_defs.setdefault(l, []).append(v)
            if l not in self.escaped:
                cur[l] = v
            return
        path = self._path(proj, cur, pt)
        if proj[0] == 'deref':
            base = self._read_local(l, cur, pt)
            root, full = base, path
            # normalise pointer
            if root.kind == 'ref':
                root, full = root.args[0], root.args[1] + path[1:]
            elif root.kind == 'load':
                root, full = root.args[0], root.args[1] + path
            sb0 = strip(base)
            if sb0.kind == 'phi' and len(path) >= 1 and path[0] == '*' and sb0.args and all(strip(a) is not None and strip(a).kind == 'ref' for a in sb0.args) and len(sb0.args) == len(sb0.extra.get('preds', ())):
                # a write through a reference chosen among several places (`let link = if c { &mut p.left } else { &mut p.right };
                # *link = v`): one store per candidate place
                seen_t = {}
                for a, pb_ in zip(sb0.args, sb0.extra['preds']):
                    ra = strip(a)
                    key_t = (strip(ra.args[0]).id, tuple(map(str, ra.args[1])))
                    if key_t in seen_t:
                        seen_t[key_t].phi_pred = None        # reached from several sides: no single deciding edge
                        continue
                    st = Store(ra.args[0], ra.args[1] + path[1:], v, pt, span)
                    seen_t[key_t] = st
                    st.phi_pred = pb_                        # the side of the choice on which this place is the one written
                    st.owner = ra.extra.get('last_owner')
                    st.via_call = 'may'
                    self.stores.append(st)
                self.stmt_vals[pt] = v
                return
            sv0 = strip(v)
            if sv0 is not None and sv0.kind == 'agg' and sv0.extra.get('akind') == 'adt' and sv0.extra.get('variant') and sv0.extra['variant'].get('fields') \
                    and len(sv0.extra['variant']['fields']) == len(sv0.args) and len(sv0.args) >= 2 and not sv0.extra['variant']['fields'][0].isdigit():
                # `*place = Struct { a, b, .. }` is a write of every field
                for fname, comp in zip(sv0.extra['variant']['fields'], sv0.args):
                    sc = strip(comp)
                    if sc is not None and sc.kind == 'load' and strip(sc.args[0]) is strip(root) and tuple(sc.args[1]) == tuple(full) + (fname,):
                        continue        # `..*place` (struct update syntax): the field keeps its value, nothing is written
                    stf = Store(root, tuple(full) + (fname,), comp, pt, span)
                    stf.owner = sv0.extra.get('path')
                    self.stores.append(stf)
                self.stmt_vals[pt] = v
                return
            st = Store(root, full, v, pt, span)
            for e in reversed(proj):
                if isinstance(e, list) and e[0] == 'field':
                    st.owner = e[3]
                    break
            else:
                sb = strip(base)
                if sb.kind == 'ref' and sb.extra.get('last_owner'):
                    st.owner = sb.extra['last_owner']
            self.stores.append(st)
            self.stmt_vals[pt] = v
            return
        # partial write into a local
        old = self._read_local(l, cur, pt)
        nv = self.new('update', (old, path, v), ty=self.locals[l]['ty'], point=pt, span=span)
        self.local_defs.setdefault(l, []).append(nv)
        self.stmt_vals[pt] = v
        if l not in self.escaped:
            cur[l] = nv
        else:
            self.stores.append(Store(self.new('escaped', (l,), point=pt), path, v, pt, span))

    # ---- queries -----------------------------------------------------------------------------
    def local_name(self, l):
        return self.names.get(l, '_%d' % l)

    def point_before(self, p, q):
        """can execution reach point q after point p (p != q)?  conservative (True if possibly)"""
        (b1, i1), (b2, i2) = p, q
        if b1 == b2 and i1 < i2:
            return True
        return b2 in self.cfg.reachable_from(b1) and (b1 != b2 or b1 in self._loop_blocks())

    def _loop_blocks(self):
        if not hasattr(self, '_lb'):
            lb = set()
            for h, body in self.cfg.loops().items():
                lb |= body
            self._lb = lb
        return self._lb


def strip(v):
    """look through casts, copies and trivial phis"""
    while v is not None:
        if v.kind == 'cast':
            v = v.args[0]
        elif v.kind in ('phi', 'load') and 'same_as' in v.extra:
            v = v.extra['same_as']
        else:
            break
    return v


def walk(v, seen=None):
    """all Vals reachable from v (through args; phi operands included)"""
    if seen is None:
        seen = set()
    stack = [v]
    while stack:
        x = stack.pop()
        if x is None or x.id in seen:
            continue
        seen.add(x.id)
        yield x
        if x.kind in ('load', 'phi') and 'same_as' in x.extra:
            stack.append(x.extra['same_as'])      # transparent: what it stands for, not what it was read from
            continue
        if x.kind in ('load', 'ref'):
            stack.append(x.args[0])
            for p in x.args[1]:
                if isinstance(p, tuple):
                    stack.append(p[1])
        elif x.kind == 'update':
            stack.append(x.args[0])
            stack.append(x.args[2])
        elif x.kind in ('bin',):
            stack.extend(x.args[1:])
        elif x.kind == 'un':
            stack.append(x.args[1])
        elif x.kind in ('phi', 'call', 'agg', 'cast', 'discr'):
            stack.extend(x.args)
