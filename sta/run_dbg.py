import sys, json, importlib
sys.path.insert(0, '/verif/sta')
from mirlib import extract
from program import Program
from engine import Ctx
args=[a for a in sys.argv[2:] if not a.startswith('-')]; src = args[0] if args else '/repo'
facts, info = extract(src)
prog = Program(facts, info)
ctx = Ctx(prog)
mod = importlib.import_module('rules.' + sys.argv[1])
mod.run(ctx)
for i in ctx.instances:
    print(i.verdict.upper(), i.key, '@%s:%d' % (i.file, i.line), sorted(i.props))
    print('    ', i.msg)
    if '-v' in sys.argv:
        print('    ', json.dumps(i.details, default=str)[:1500])
print(ctx.rule_stats)
