"""Loader and basic data model for the JSON facts written by driver/ (itree-facts)."""
import json, os, subprocess, tempfile, shutil, time

VERIF = os.path.dirname(os.path.dirname(os.path.abspath(__file__)))
DRIVER = os.path.join(VERIF, 'driver', 'target', 'release', 'itree-facts')

_sysroot = None
def sysroot():
    global _sysroot
    if _sysroot is None:
        _sysroot = subprocess.check_output(['rustc', '+nightly', '--print', 'sysroot'], text=True).strip()
    return _sysroot

CONFIGS = {
    # name -> extra rustflags
    'debug': '',
    'release': '-C debug-assertions=off -C overflow-checks=off',
}

class ExtractError(Exception):
    pass

def extract(src_dir, config='debug', keep=False):
    """Run the fact driver over the cargo package in src_dir with a FRESH target dir.
    Returns (facts dict, info dict). Raises ExtractError when the build fails or no facts appear."""
    if not os.path.exists(DRIVER):
        raise ExtractError('driver not built: %s (run MANIFEST.setup_cmd)' % DRIVER)
    tmp = tempfile.mkdtemp(prefix='itree-facts-')
    t0 = time.time()
    try:
        facts_dir = os.path.join(tmp, 'facts')
        os.makedirs(facts_dir)
        env = dict(os.environ)
        env['LD_LIBRARY_PATH'] = os.path.join(sysroot(), 'lib') + ':' + env.get('LD_LIBRARY_PATH', '')
        env['RUSTFLAGS'] = ('-Zmir-opt-level=0 -Awarnings ' + CONFIGS[config]).strip()
        env['RUSTC_WORKSPACE_WRAPPER'] = DRIVER
        env['CARGO_TARGET_DIR'] = os.path.join(tmp, 'target')
        env['ITREE_FACTS_OUT'] = facts_dir
        env['CARGO_NET_OFFLINE'] = 'true'
        env.pop('RUSTC_WRAPPER', None)
        p = subprocess.run(['cargo', '+nightly', 'check', '--offline', '--lib', '-q'],
                           cwd=src_dir, env=env, capture_output=True, text=True)
        if p.returncode != 0:
            raise ExtractError('cargo check failed in %s:\n%s' % (src_dir, p.stderr[-4000:]))
        files = [f for f in os.listdir(facts_dir) if f.endswith('.json')]
        if len(files) != 1:
            raise ExtractError('expected exactly one facts file, found %r' % files)
        path = os.path.join(facts_dir, files[0])
        if os.path.getmtime(path) < t0 - 1:
            raise ExtractError('stale facts file')
        with open(path) as fh:
            facts = json.load(fh)
        info = {'config': config, 'src_dir': src_dir, 'extract_s': round(time.time() - t0, 3),
                'facts_bytes': os.path.getsize(path), 'n_fns': len(facts['fns'])}
        return facts, info
    finally:
        if not keep:
            shutil.rmtree(tmp, ignore_errors=True)

def extract_file(rs_file, config='debug', edition='2021'):
    """Run the driver directly on a single-file library crate (fixtures)."""
    tmp = tempfile.mkdtemp(prefix='itree-fx-')
    try:
        facts_dir = os.path.join(tmp, 'facts'); os.makedirs(facts_dir)
        env = dict(os.environ)
        env['LD_LIBRARY_PATH'] = os.path.join(sysroot(), 'lib') + ':' + env.get('LD_LIBRARY_PATH', '')
        env['ITREE_FACTS_OUT'] = facts_dir
        flags = ['-Zmir-opt-level=0', '-Awarnings'] + CONFIGS[config].split()
        if config == 'debug':
            flags += ['-C', 'debug-assertions=on', '-C', 'overflow-checks=on']
        name = os.path.splitext(os.path.basename(rs_file))[0]
        p = subprocess.run([DRIVER, 'rustc', '--crate-type', 'lib', '--crate-name', name, '--edition', edition,
                            '--emit=metadata', '--out-dir', tmp, rs_file] + flags,
                           env=env, capture_output=True, text=True)
        if p.returncode != 0:
            raise ExtractError('driver failed on %s:\n%s' % (rs_file, p.stderr[-4000:]))
        with open(os.path.join(facts_dir, name + '.json')) as fh:
            return json.load(fh)
    finally:
        shutil.rmtree(tmp, ignore_errors=True)

# ---------------------------------------------------------------------------------------------
# pretty printing (debugging aid and report excerpts)

def fmt_place(p):
    s = '_%d' % p['l']
    for e in p['p']:
        if e == 'deref':
            s = '(*%s)' % s
        elif e[0] == 'field':
            s = '%s.%s' % (s, e[2])
        elif e[0] == 'index':
            s = '%s[_%d]' % (s, e[1])
        elif e[0] == 'downcast':
            s = '(%s as %s)' % (s, e[1])
        else:
            s = '%s.<%s>' % (s, e[0])
    return s

def fmt_op(o):
    if o is None:
        return 'None'
    k = o['k']
    if k in ('copy', 'move'):
        return ('move ' if k == 'move' else '') + fmt_place(o['place'])
    if k == 'const':
        if o.get('fn'):
            return 'fn ' + o['fn']['path']
        if o.get('def'):
            return 'const %s(=%s)' % (o['def'], o['val'])
        return 'const %s:%s' % (o['val'] if o['val'] is not None else o['text'], o['ty'])
    return k

def fmt_rv(rv):
    k = rv['k']
    if k == 'use': return fmt_op(rv['op'])
    if k == 'ref': return '&%s%s' % ('mut ' if rv['mut'] else '', fmt_place(rv['place']))
    if k == 'rawptr': return '&raw %s' % fmt_place(rv['place'])
    if k == 'bin': return '%s(%s, %s)' % (rv['op'], fmt_op(rv['a']), fmt_op(rv['b']))
    if k == 'un': return '%s(%s)' % (rv['op'], fmt_op(rv['a']))
    if k == 'cast': return '%s as %s [%s]' % (fmt_op(rv['op']), rv['ty'], rv['kind'])
    if k == 'discr': return 'discriminant(%s)' % fmt_place(rv['place'])
    if k == 'agg': return '%s %s(%s)' % (rv['akind'], rv['path'], ', '.join(fmt_op(o) for o in rv['ops']))
    return k

def fmt_term(t):
    k = t['k']
    if k == 'goto': return 'goto bb%d' % t['target']
    if k == 'switch':
        return 'switch(%s: %s) [%s, otherwise: bb%d]' % (fmt_op(t['discr']), t['dty'], ', '.join('%d: bb%d' % (v, b) for v, b in t['targets']), t['otherwise'])
    if k == 'call':
        c = t['callee']
        name = c.get('path') or ('indirect ' + fmt_op(c.get('indirect')))
        extra = ''
        if c.get('trait'): extra = ' {trait %s self=%s%s}' % (c['trait'], c['self_ty'], ' PARAM' if c['self_param'] else '')
        if c.get('resolved'): extra += ' => ' + c['resolved']['path']
        return '%s = %s(%s)%s -> %s' % (fmt_place(t['dest']), name, ', '.join(fmt_op(a) for a in t['args']), extra,
                                        'bb%d' % t['target'] if t['target'] is not None else '!')
    if k == 'assert':
        return 'assert(%s == %s, %s) -> bb%d' % (fmt_op(t['cond']), t['expected'], t['msg'], t['target'])
    if k == 'drop': return 'drop(%s) -> bb%d' % (fmt_place(t['place']), t['target'])
    return k

def fmt_span(sp):
    f = os.path.basename(sp[0]) if sp else '?'
    e = ''
    if sp and sp[3]:
        e = ' <' + ';'.join(x[:40] for x in sp[3]) + '>'
    return '%s:%d%s' % (f, sp[1], e)

def show_fn(f, out=None):
    import sys
    out = out or sys.stdout
    m = f['mir']
    out.write('fn %s  [%s] lines %s\n' % (f['path'], f['kind'], f['lines']))
    names = {}
    for d in m['debug']:
        v = d['value']
        if 'l' in v:
            names.setdefault(fmt_place(v), d['name'])
    for l in m['locals']:
        out.write('  let _%d: %s%s\n' % (l['i'], l['ty'], ('  // ' + names['_%d' % l['i']]) if '_%d' % l['i'] in names else ''))
    for d in m['debug']:
        v = d['value']
        if 'l' in v and v['p']:
            out.write('  debug %s => %s\n' % (d['name'], fmt_place(v)))
    for i, b in enumerate(m['blocks']):
        out.write(' bb%d%s:\n' % (i, ' (cleanup)' if b['cleanup'] else ''))
        for s in b['stmts']:
            if s['k'] == 'assign':
                out.write('    %s = %s    // %s\n' % (fmt_place(s['place']), fmt_rv(s['rv']), fmt_span(s['span'])))
            else:
                out.write('    %s\n' % s['k'])
        out.write('    %s    // %s\n' % (fmt_term(b['term']), fmt_span(b['term']['span'])))

if __name__ == '__main__':
    import sys
    facts, info = extract(sys.argv[1], sys.argv[3] if len(sys.argv) > 3 else 'debug')
    pat = sys.argv[2]
    for f in facts['fns']:
        if pat in f['path']:
            show_fn(f)
            print()
