"""Runs the rules for one property and writes evidence."""
import os, sys, json, time, importlib, hashlib

VERIF = os.path.dirname(os.path.dirname(os.path.abspath(__file__)))

from mirlib import extract, ExtractError
from program import Program
from engine import Ctx
import catalog


def load_known():
    p = os.path.join(VERIF, 'known_findings.json')
    if not os.path.exists(p):
        return []
    return json.load(open(p)).get('findings', [])


def run_rules(repo, config):
    facts, info = extract(repo, config)
    prog = Program(facts, info)
    ctx = Ctx(prog, config)
    for name in catalog.RULE_MODULES:
        mod = importlib.import_module('rules.' + name)
        t0 = time.time()
        try:
            mod.run(ctx)
        except Exception:                      # a rule that cannot digest the program decides nothing: fail closed, per rule
            import traceback
            tb = traceback.format_exc()
            for rid in catalog.MODULE_RULES.get(name, [name.upper()]):
                ctx.crashed[rid] = tb[-1200:]
        ctx.stat(getattr(mod, 'RULE', name.upper()), wall_s=round(time.time() - t0, 3))
    return prog, ctx


def source_excerpt(repo, file, line, ctxlines=3):
    try:
        lines = open(os.path.join(repo, file)).read().split('\n')
    except OSError:
        return []
    lo = max(0, line - 1 - ctxlines)
    hi = min(len(lines), line + ctxlines)
    return ['%5d%s %s' % (i + 1, '>' if i + 1 == line else ' ', lines[i]) for i in range(lo, hi)]


def check(prop, tier, repo, write_evidence=True):
    t0 = time.time()
    seed = int(os.environ.get('VERIF_SEED', '0') or 0)
    if prop not in catalog.PROPS:
        print('property %s is not claimed by this framework (see MANIFEST.json not_applicable)' % prop)
        return 2
    spec = catalog.PROPS[prop]
    configs = ['debug'] if tier == 'quick' else ['debug', 'release']
    per_config = {}
    violations = []       # (Instance, config)
    all_insts = {}
    extraction = []
    fail_closed = []
    for cfg in configs:
        try:
            prog, ctx = run_rules(repo, cfg)
        except ExtractError as e:
            fail_closed.append('extraction failed (%s): %s' % (cfg, str(e)[-1500:]))
            continue
        extraction.append(dict(prog.info))
        mine = [i for i in ctx.instances if prop in i.props]
        per_config[cfg] = (prog, ctx, mine)
        for i in mine:
            all_insts.setdefault(i.key, (i, cfg))
    # fail closed: floors
    if 'debug' in per_config:
        prog, ctx, mine = per_config['debug']
        by_rule = {}
        for i in mine:
            by_rule.setdefault(i.rule, []).append(i)
        for rule, floor in spec.get('floors', {}).items():
            n = len([i for i in by_rule.get(rule, []) if i.verdict != 'info'])
            import math
            if n < max(1, math.ceil(floor * ctx.floor_scale)):
                fail_closed.append('rule %s produced %d instances for %s, floor is %d (an extractor or recogniser lost its anchors)' % (rule, n, prop, floor))
        for rid, tb in sorted(ctx.crashed.items()):
            if rid in spec.get('floors', {}):
                fail_closed.append('rule %s could not be evaluated on this tree (internal error of the checker, property undecided): %s' % (rid, tb))
        if prog.info.get('n_fns', 0) < catalog.MIN_FUNCTIONS:
            fail_closed.append('only %d function bodies seen, expected at least %d' % (prog.info.get('n_fns', 0), catalog.MIN_FUNCTIONS))
    # configurations must agree (thorough)
    disagreements = []
    if len(per_config) == 2:
        a = {i.key: i.verdict for i in per_config['debug'][2] if i.rule not in catalog.CONFIG_DEPENDENT_RULES}
        b = {i.key: i.verdict for i in per_config['release'][2] if i.rule not in catalog.CONFIG_DEPENDENT_RULES}
        for k in sorted(set(a) | set(b)):
            if a.get(k) != b.get(k):
                disagreements.append({'key': k, 'debug': a.get(k), 'release': b.get(k)})
    known = load_known()
    known_keys = {(f['property'], f['key']): f for f in known if f.get('status') == 'known'}
    vio_out = []
    known_out = []
    insts = [i for (i, _) in all_insts.values()]
    for i in insts:
        if i.verdict != 'violation':
            continue
        kf = known_keys.get((prop, i.key))
        if kf:
            known_out.append((i, kf))
        else:
            vio_out.append(i)
    # extra stages (fixtures, witnesses, sweep) -------------------------------------------------
    extra = {}
    stage_failures = []
    try:
        import stages
        extra, stage_failures = stages.run(prop, tier, repo, spec)
    except ImportError:
        pass
    # reports ------------------------------------------------------------------------------------
    vdir = os.path.join(VERIF, 'evidence', 'violations')
    lines = []
    n = 0
    if write_evidence:
        os.makedirs(vdir, exist_ok=True)
        for f in os.listdir(vdir):
            if f.startswith(prop + '.'):
                os.remove(os.path.join(vdir, f))

    def report(kind, payload):
        nonlocal n
        path = os.path.join(vdir, '%s.%d.json' % (prop, n))
        n += 1
        payload = dict(payload)
        payload['property'] = prop
        payload['kind'] = kind
        if write_evidence:
            json.dump(payload, open(path, 'w'), indent=1, default=str)
        lines.append('VIOLATION property=%s replay=%s' % (prop, path))

    for i in vio_out:
        d = i.to_json()
        d['excerpt'] = source_excerpt(repo, i.file, i.line)
        report('rule-violation', d)
        print('  [%s] %s:%d %s\n      %s' % (i.rule, i.file, i.line, i.fn, i.msg))
    for msg in fail_closed:
        report('fail-closed', {'msg': msg})
        print('  [fail-closed] ' + msg)
    for dsg in disagreements:
        report('config-disagreement', dsg)
        print('  [config-disagreement] %s' % dsg)
    for msg in stage_failures:
        report('stage-failure', {'msg': msg})
        print('  [stage] ' + msg)
    for (i, kf) in known_out:
        print('KNOWN-FINDING: property=%s %s (%s)' % (prop, kf.get('what', i.msg), i.key))
    for l in lines:
        print(l)
    # evidence -------------------------------------------------------------------------------------
    wall = round(time.time() - t0, 3)
    if write_evidence:
        ev = build_evidence(prop, tier, seed, spec, insts, per_config, extraction, len(lines), wall, extra, known_out)
        os.makedirs(os.path.join(VERIF, 'evidence'), exist_ok=True)
        json.dump(ev, open(os.path.join(VERIF, 'evidence', prop + '.json'), 'w'), indent=1, default=str)
    ok = not lines
    print('%s %s: %d instances (%d ok, %d excepted, %d violations, %d known) in %.1fs [%s]' % (
        prop, 'HOLDS (clauses decided)' if ok else 'VIOLATED', len(insts),
        sum(1 for i in insts if i.verdict == 'ok'), sum(1 for i in insts if i.verdict == 'exception'),
        len(vio_out), len(known_out), wall, tier))
    return 0 if ok else 1


def build_evidence(prop, tier, seed, spec, insts, per_config, extraction, nviol, wall, extra, known_out):
    by_rule = {}
    for i in insts:
        r = by_rule.setdefault(i.rule, {'instances': 0, 'ok': 0, 'exception': 0, 'violation': 0, 'info': 0})
        r['instances'] += 1
        r[i.verdict] = r.get(i.verdict, 0) + 1
    decided = [i for i in insts if i.verdict in ('ok', 'exception', 'violation')]
    distinct_nontrivial = len({i.key for i in decided if i.nontrivial})
    samples = []
    seen_rules = set()
    for i in decided:
        if i.rule not in seen_rules or len(samples) < 3:
            seen_rules.add(i.rule)
            samples.append({'rule': i.rule, 'key': i.key, 'at': '%s:%d' % (i.file, i.line), 'verdict': i.verdict, 'msg': i.msg[:300],
                            'details': json.loads(json.dumps(i.details, default=str)[:4000]) if len(json.dumps(i.details, default=str)) < 4000 else '(large)'})
        if len(samples) >= 12:
            break
    stats = {}
    if 'debug' in per_config:
        stats = per_config['debug'][1].rule_stats
    cov = {
        'explanation': spec['explanation'],
        'evaluations': len(decided),
        'distinct_nontrivial': distinct_nontrivial,
        'rule': 'one evaluation = one rule instance (a site, loop, function or obligation the rule had to decide) attributed to this property; non-trivial = the rule had a real obligation there (instances marked trivial, e.g. a dereference whose index is a constant, are excluded); distinct = distinct line-free keys',
        'obligations': len(decided),
        'discharged': sum(1 for i in decided if i.verdict in ('ok', 'exception')),
        'excepted_by_reasoned_table': sum(1 for i in decided if i.verdict == 'exception'),
        'samples': samples,
        'per_rule': by_rule,
        'rule_stats': {k: v for k, v in stats.items() if k in by_rule},
        'configurations': extraction,
        'exhaustive': True,
        'checker_cmd': './check %s --tier %s' % (prop, tier),
        'trusted_base': ['rustc front end and MIR construction (nightly 1.97)', 'documented contracts of Vec/slice methods', 'the rule engine in /verif/sta'],
    }
    cov.update(extra or {})
    return {
        'property_id': prop, 'tier': tier, 'seed': seed, 'level': 'other',
        'coverage': cov,
        'assumptions': spec['assumptions'],
        'wall_s': wall,
        'violations': nviol,
        'known_findings_reported': [kf.get('what') for (_, kf) in known_out],
    }


def explain(path):
    d = json.load(open(path))
    print('property  : %s' % d.get('property'))
    print('kind      : %s' % d.get('kind'))
    if d.get('kind') == 'rule-violation':
        print('rule      : %s' % d['rule'])
        print('key       : %s' % d['key'])
        print('function  : %s' % d['function'])
        print('location  : %s:%s' % (d['file'], d['line']))
        print('message   : %s' % d['msg'])
        print('source:')
        for l in d.get('excerpt', []):
            print('   ' + l)
        print('details   : %s' % json.dumps(d.get('details'), indent=1, default=str)[:6000])
    else:
        print(json.dumps(d, indent=1)[:6000])
    return 0
