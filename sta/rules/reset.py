"""RESET: `clear` re-establishes what `new` establishes (DESIGN section 4, C12).

For each collection (the self type of an implementation of a trait method named `clear`) and each
of its fields: the field is reset on every path through clear (root := EMPTY_REF; Vec cleared; every
element of a Vec of buckets cleared by a full iter_mut loop), or nothing ever writes it after
construction (immutable), or it is exempt with a reason."""
from ssa import strip, show, walk
from engine import span_line

RULE = 'RESET'
PROPS = ['C12']

EXEMPT = {
    # (ADT last segment, field) -> reason
    ('store',): 'arena contents are unreachable once root is EMPTY_REF; slot accounting is decided by POOL (C11)',
}


def vec_base_field(prog, v):
    v = strip(v)
    seen = 0
    while v is not None and v.kind == 'call' and v.callee_name() in ('deref', 'deref_mut', 'as_mut_slice', 'as_slice') and v.args and seen < 4:
        v = strip(v.args[0])
        seen += 1
    return prog.self_field(v) if v is not None else None


def clears_vec_field(prog, fn, field):
    """is there a call clear()/truncate(0) on self.<field> that dominates every return?"""
    b = fn.body
    for c in b.calls:
        nm = c.callee_name()
        if prog.classify(c) != 'std' or not c.args:
            continue
        if nm == 'clear' or (nm == 'truncate' and len(c.args) > 1 and strip(c.args[1]).is_const(0)):
            if vec_base_field(prog, c.args[0]) == (field,):
                if all(b.cfg.dominates(c.point[0], r) for r in b.cfg.returns):
                    return c
    # path-wise: on every path the vector is emptied, or is known to be empty already (`if !v.is_empty() { v.truncate(0) }`)
    from rules.gate import edge_truth
    from program import VEC_MUTATORS
    empties, fills = {}, set()
    first = None
    for c in b.calls:
        nm = c.callee_name()
        if prog.classify(c) != 'std' or not c.args or vec_base_field(prog, c.args[0]) != (field,):
            continue
        if nm == 'clear' or (nm == 'truncate' and len(c.args) > 1 and strip(c.args[1]).is_const(0)):
            empties[c.point[0]] = c
            first = first or c
        elif nm in VEC_MUTATORS and (c.args[0].ty or '').startswith('&mut'):
            fills.add(c.point[0])
    if not empties:
        return None
    state = {0: False}
    work = [0]
    out = {}
    while work:
        x = work.pop()
        cur = state.get(x, False)
        if x in fills:
            cur = False
        if x in empties:
            cur = True
        if out.get(x) == cur and x in out:
            continue
        out[x] = cur
        t = b.mir['blocks'][x]['term']
        d = strip(b.switch_discr[x]) if x in b.switch_discr else None
        neg = False
        while d is not None and d.kind == 'un' and d.args[0] == 'Not':
            d = strip(d.args[1])
            neg = not neg
        for s2 in b.cfg.succ[x]:
            nxt = cur
            if d is not None and d.kind == 'call' and d.callee_name() == 'is_empty' and d.args and vec_base_field(prog, d.args[0]) == (field,):
                tr = edge_truth(t, s2)
                if tr is not None and (tr != neg):
                    nxt = True
            old = state.get(s2)
            new = nxt if old is None else (old and nxt)
            if old != new or s2 not in out:
                state[s2] = new
                work.append(s2)
    if all(out.get(r, False) for r in b.cfg.returns):
        return first
    return None


def resets_all_vec_fields(prog, fn):
    """callee summary: clears every Vec field of its self type"""
    adt = prog.adts.get(fn.self_adt)
    if not adt:
        return False
    vec_fields = [f['name'] for f in adt['variants'][0]['fields'] if f['ty'].startswith('std::vec::Vec<')]
    return bool(vec_fields) and all(clears_vec_field(prog, fn, f) for f in vec_fields)


def iterator_source(b, v, depth=0):
    """the call that produced the iterator v, looking through &mut, the loop's hidden local and into_iter"""
    v = strip(v)
    while v is not None and depth < 10:
        depth += 1
        if v.kind == 'ref' and not v.fields():
            v = strip(v.args[0])
            continue
        if v.kind == 'escaped':
            defs = b.local_defs.get(v.args[0], [])
            if len(defs) != 1:
                return None
            v = strip(defs[0])
            continue
        if v.kind == 'call' and v.callee_name() == 'into_iter' and v.args:
            v = strip(v.args[0])
            continue
        break
    return v


def full_loop_reset(prog, fn, field):
    """`for x in self.<field>.iter_mut() { x.reset() }` with no adapter and no early exit; also
    `self.<field>.iter_mut().for_each(|x| x.reset())` and `for i in 0..self.<field>.len() { accessor(i).reset() }`"""
    b = fn.body
    # for_each idiom
    for c in b.calls:
        if c.callee_name() == 'for_each' and c.args:
            src = strip(c.args[0])
            if src.kind == 'call' and src.callee_name() == 'iter_mut' and src.args and vec_base_field(prog, src.args[0]) == (field,):
                cls = prog.closures_passed(c)
                # `for_each(Chunk::clear)`: the reset function itself passed as the callback
                if len(c.args) == 2 and strip(c.args[1]).kind == 'fn':
                    fpath = strip(c.args[1]).args[0].get('path')
                    tgt = prog.fns.get(fpath)
                    if tgt is None:
                        # the driver prints generic arguments in fn items: match by the path without them
                        import re
                        bare = re.sub(r'::<[^>]*>', '', fpath or '')
                        for q in prog.fns.values():
                            if re.sub(r'::<[^>]*>', '', q.path) == bare:
                                tgt = q
                    if tgt is not None and resets_all_vec_fields(prog, tgt) and all(b.cfg.dominates(c.point[0], x) for x in b.cfg.returns):
                        return c, ''
                if len(cls) == 1:
                    cb = cls[0].body
                    ok = False
                    for r in cb.calls:
                        tgt = prog.resolve(r)
                        if tgt is not None and r.args and resets_all_vec_fields(prog, tgt):
                            a0 = strip(r.args[0])
                            while a0.kind in ('ref', 'load') and not a0.fields():
                                a0 = strip(a0.args[0])
                            if a0.kind == 'param' and a0.args[0] == 2 and all(cb.cfg.dominates(r.point[0], x) for x in cb.cfg.returns):
                                ok = True
                    if ok and all(b.cfg.dominates(c.point[0], x) for x in b.cfg.returns):
                        return c, ''
    # index loop idiom: for i in 0..len(field) { accessor(self, i).reset() }
    for rng in [v for v in b._vals if v.kind == 'agg' and v.extra.get('path', '').endswith('Range') and len(v.args) == 2]:
        lo, hi = strip(rng.args[0]), strip(rng.args[1])
        if not (lo.is_const(0) and hi.kind == 'call' and hi.callee_name() == 'len' and hi.args and vec_base_field(prog, hi.args[0]) == (field,)):
            continue
        nexts = [n for n in b.calls if n.callee_name() == 'next' and n.args and iterator_source(b, n.args[0]) is rng]
        if len(nexts) != 1:
            continue
        n = nexts[0]
        loops = b.cfg.loops()
        hdr = [h for h, body in loops.items() if n.point[0] in body]
        if not hdr:
            continue
        body = loops[sorted(hdr, key=lambda h: len(loops[h]))[0]]
        exits = [(x, s2) for x in body for s2 in b.cfg.succ[x] if s2 not in body and s2 in b.cfg.can_return]
        sw = [x for x in body if x in b.switch_discr and any(y is n for y in walk(b.switch_discr[x]))]
        if any(x not in sw for x, _ in exits):
            continue
        for r in b.calls:
            if r.point[0] not in body:
                continue
            tgt = prog.resolve(r)
            if tgt is None or not r.args or not resets_all_vec_fields(prog, tgt):
                continue
            acc = prog.accessor_call(strip(r.args[0]))
            if acc is not None and acc[0]['fields'] == (field,) and any(y is n for y in walk(acc[2])):
                latch = [x for x in body if min(body, key=lambda q: b.cfg.rpo.index(q)) in b.cfg.succ[x]]
                if all(b.cfg.dominates(r.point[0], l) for l in latch) and all(b.cfg.dominates(n.point[0], x) for x in b.cfg.returns):
                    return r, ''
    for c in b.calls:
        is_iter_mut = c.callee_name() == 'iter_mut'
        # `for x in &mut self.<field>`: IntoIterator for &mut Vec is iter_mut
        is_into_mut = c.callee_name() == 'into_iter' and c.args and (c.args[0].ty or '').startswith('&mut') and 'Vec<' in (c.args[0].ty or '')
        if not (is_iter_mut or is_into_mut) or not c.args or vec_base_field(prog, c.args[0]) != (field,):
            continue
        it = c
        # the iterator must reach `next` unchanged (through into_iter, which is the identity for iterators)
        def from_it(n, it=it, is_into_mut=is_into_mut):
            src = iterator_source(b, n.args[0])
            return src is it or (is_into_mut and src is strip(it.args[0]))
        nexts = [n for n in b.calls if n.callee_name() == 'next' and n.args and from_it(n)]
        if len(nexts) != 1:
            return None, 'iterator over %s is not consumed by exactly one plain loop' % field
        n = nexts[0]
        loops = b.cfg.loops()
        hdr = [h for h, body in loops.items() if n.point[0] in body]
        if not hdr:
            return None, 'next() is not in a loop'
        body = loops[sorted(hdr, key=lambda h: len(loops[h]))[0]]
        # exits of the loop: only from the block that switches on the result of next()
        exits = [(x, s) for x in body for s in b.cfg.succ[x] if s not in body and s in b.cfg.can_return]
        sw = [x for x in body if x in b.switch_discr and any(y is n for y in walk(b.switch_discr[x]))]
        if any(x not in sw for x, _ in exits):
            return None, 'the loop over %s can be left before the iterator is exhausted' % field
        # every iteration resets the element
        resetting = None
        for r in b.calls:
            if r.point[0] not in body:
                continue
            tgt = prog.resolve(r)
            if tgt is not None and r.args and any(y is n for y in walk(r.args[0])) and resets_all_vec_fields(prog, tgt):
                # the call must be on the Some-branch on every iteration: its block must dominate the back edge
                latch = [x for x in body if min(body, key=lambda q: b.cfg.rpo.index(q)) in b.cfg.succ[x]]
                if all(b.cfg.dominates(r.point[0], l) for l in latch):
                    resetting = r
        if resetting is None:
            return None, 'loop body does not reset every element of %s' % field
        if not all(b.cfg.dominates(c.point[0], r) for r in b.cfg.returns):
            return None, 'the loop is not on every path through clear'
        return resetting, ''
    return None, 'no iter_mut loop over %s' % field


def root_reset(prog, fn):
    """on every return path self.root is EMPTY_REF (forward must-dataflow)"""
    from rules.gate import edge_truth
    b = fn.body
    cfg = b.cfg
    stores = {}
    for st in b.stores:
        if strip(st.root).kind == 'param' and strip(st.root).args[0] == 1 and st.fields() == ('root',):
            stores.setdefault(st.point[0], []).append(st)
    if any(not prog.is_empty_ref(st.value) for sts in stores.values() for st in sts):
        return False, 'clear assigns root a value other than EMPTY_REF'
    state = {bb: None for bb in cfg.rpo}
    state[0] = False
    changed = True
    while changed:
        changed = False
        for bb in cfg.rpo:
            if state[bb] is None:
                continue
            out = state[bb] or bool(stores.get(bb))
            # calls that receive the whole collection mutably may write root
            c = b.call_at.get(bb)
            if c is not None and prog.resolve(c) is not None and c.args and strip(c.args[0]).kind == 'param' and (c.args[0].ty or '').startswith('&mut'):
                tgt = prog.resolve(c)
                if tgt.path not in prog.accessors and any(st.fields() == ('root',) for st in tgt.body.stores):
                    out = False
            for s in cfg.succ[bb]:
                e = out
                d = b.switch_discr.get(bb)
                if d is not None and not stores.get(bb):
                    d = strip(d)
                    neg_ = False
                    while d.kind == 'un' and d.args[0] == 'Not':
                        d = strip(d.args[1])
                        neg_ = not neg_
                    # `if self.is_empty()`: a crate predicate that returns root == EMPTY_REF
                    if d.kind == 'call' and prog.resolve(d) is not None and len(prog.resolve(d).body.cfg.returns) == 1 and prog.resolve(d).body.arg_count == 1:
                        hb = prog.resolve(d).body
                        rv = strip(hb.ret_val[hb.cfg.returns[0]])
                        if rv.kind == 'bin' and rv.args[0] == 'Eq':
                            hx, hy = strip(rv.args[1]), strip(rv.args[2])
                            for p2, q2 in ((hx, hy), (hy, hx)):
                                if p2.kind == 'load' and prog.self_field(p2) == ('root',) and prog.is_empty_ref(q2):
                                    tr = edge_truth(b.mir['blocks'][bb]['term'], s)
                                    if tr is not None and (tr != neg_):
                                        e = True
                    if d.kind == 'bin' and d.args[0] in ('Eq', 'Ne'):
                        x, y = strip(d.args[1]), strip(d.args[2])
                        for p, q in ((x, y), (y, x)):
                            if p.kind == 'load' and prog.self_field(p) == ('root',) and prog.is_empty_ref(q):
                                tr = edge_truth(b.mir['blocks'][bb]['term'], s)
                                if tr is not None and (tr if d.args[0] == 'Eq' else not tr):
                                    e = True
                new = e if state[s] is None else (state[s] and e)
                if new != state[s]:
                    state[s] = new
                    changed = True
    for r in cfg.returns:
        if not (state.get(r) or stores.get(r)):
            return False, 'a path through clear returns with root possibly != EMPTY_REF'
    return True, ''


def empty_only(prog, fn, store_block, ret):
    """every path to `ret` that avoids the store is taken because the collection is already empty (clear of an empty
    collection may be a no-op)"""
    from rules.bypass import bypass_paths, emptiness_edge
    is_tree = fn.self_adt in prog.tree_adts
    paths = bypass_paths(fn, {store_block}, ret)
    if paths is None:
        return False
    for p in paths:
        if not any(emptiness_edge(prog, fn, x, s2, is_tree) for x, s2 in zip(p, p[1:])):
            return False
    return True


def run(ctx):
    prog = ctx.prog
    clears = [f for f in prog.fns.values() if f.trait_method() == 'clear']
    # seven named collections: each is an anchor of its own
    for fam, kind, pred in (('map', 'tree', lambda f: f.self_adt in prog.tree_adts), ('set', 'tree', lambda f: f.self_adt in prog.tree_adts), ('key', 'tree', lambda f: f.self_adt in prog.tree_adts),
                            ('map', 'list', lambda f: f.self_adt in prog.list_adts), ('set', 'list', lambda f: f.self_adt in prog.list_adts), ('key', 'list', lambda f: f.self_adt in prog.list_adts),
                            ('seg', 'tree', lambda f: True)):
        if not any(f.family == fam and pred(f) for f in clears):
            ctx.anchor_missing(RULE, 'clear of the %s %s' % (fam, kind), PROPS, 0, 1)
    # the reset of an element type that a collection's clear applies to each of its elements (`Chunk::clear`) is held to the same
    # standard for the element's own fields
    elem_clears = []
    for fn in clears:
        for c in fn.body.calls:
            tgt = prog.resolve(c)
            if tgt is not None and not tgt.is_closure and not tgt.trait_item and tgt.self_adt and tgt.self_adt != fn.self_adt and tgt.family == fn.family \
                    and tgt.body.arg_count == 1 and (tgt.body.locals[1]['ty'] or '').startswith('&mut') and tgt.self_adt in prog.adts and tgt not in elem_clears \
                    and tgt.self_adt not in prog.pool_adts and tgt.self_adt not in prog.node_adts:
                elem_clears.append(tgt)
    for fn in clears + elem_clears:
        adt = prog.adts.get(fn.self_adt)
        if not adt:
            continue
        # all writers of each field, anywhere in the crate (excluding construction by aggregate)
        writers = {}
        for g in prog.fns.values():
            if g.self_adt != fn.self_adt:
                # a field of this type written from outside, through a reference to one of its values (`chunk.scan_time = ..` in the
                # iterator): a writer all the same
                if g.info.get('mir'):
                    for st in g.body.stores:
                        if getattr(st, 'owner', None) == fn.self_adt and st.fields() and strip(st.root).kind != 'param':
                            writers.setdefault(st.fields()[-1], set()).add(g.name)
                continue
            for st in g.body.stores:
                r = strip(st.root)
                if r.kind == 'param' and r.args[0] == 1 and st.fields():
                    writers.setdefault(st.fields()[0], set()).add(g.name)
            from program import VEC_MUTATORS
            for c in g.body.calls:
                if prog.classify(c) == 'std' and c.callee_name() in VEC_MUTATORS and c.args:
                    sf = vec_base_field(prog, c.args[0])
                    if sf:
                        writers.setdefault(sf[0], set()).add(g.name)
                # &mut self.<field> handed to a crate function
                tgt = prog.resolve(c)
                if tgt is not None:
                    for a in c.args:
                        sa = strip(a)
                        if sa.kind == 'ref' and sa.extra.get('mut'):
                            sf = prog.self_field(sa)
                            if sf:
                                writers.setdefault(sf[0], set()).add(g.name)
                # iter_mut over a field
                if c.callee_name() == 'iter_mut' and c.args:
                    sf = vec_base_field(prog, c.args[0])
                    if sf:
                        writers.setdefault(sf[0], set()).add(g.name)
        for f in adt['variants'][0]['fields']:
            name, ty = f['name'], f['ty']
            sig = 'field(%s)' % name
            line = fn.line
            if 'PhantomData' in ty:
                ctx.add(RULE, fn, sig, 'ok', 'zero-sized marker', PROPS, line, nontrivial=False)
                continue
            if name == 'root' and ty == 'u32':
                ok, why = root_reset(prog, fn)
                ctx.add(RULE, fn, sig, 'ok' if ok else 'violation', 'root is EMPTY_REF on every path out of clear (what new sets)' if ok else why, PROPS, line)
                continue
            if ty.startswith('std::vec::Vec<'):
                c = clears_vec_field(prog, fn, name)
                if c is not None:
                    ctx.add(RULE, fn, sig, 'ok', '%s.clear() dominates every return: empty, as after new' % name, PROPS, span_line(c, line))
                    continue
                r, why = full_loop_reset(prog, fn, name)
                if r is not None:
                    ctx.add(RULE, fn, sig, 'ok', 'every element of %s is reset by a full iter_mut loop without early exit' % name, PROPS, span_line(r, line))
                    continue
                ctx.add(RULE, fn, sig, 'violation', 'clear does not reset %s on every path: %s' % (name, why), PROPS, line)
                continue
            w = writers.get(name, set()) - {'new'}
            if not w:
                ctx.add(RULE, fn, sig, 'ok', 'never written after construction (immutable)', PROPS, line)
                continue
            if (name,) in EXEMPT:
                ctx.add(RULE, fn, sig, 'exception', EXEMPT[(name,)], PROPS, line)
                continue
            # scalar cache: reset to the constructor's value?
            stores = [st for st in fn.body.stores if strip(st.root).kind == 'param' and st.fields() == (name,)]
            if stores and all(fn.body.cfg.dominates(stores[0].point[0], r) or empty_only(prog, fn, stores[0].point[0], r) for r in fn.body.cfg.returns):
                ctx.add(RULE, fn, sig, 'ok', 'assigned on every path through clear on which the collection was not already empty (%s)' % show(strip(stores[0].value), 3), PROPS, line)
            else:
                ctx.add(RULE, fn, sig, 'violation', 'field %s is written by %s but not reset by clear' % (name, sorted(w)), PROPS, line)
