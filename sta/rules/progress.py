"""PROGRESS: no loop whose exit conditions cannot change (C10: "never hangs").

For every natural loop of every library function: collect the conditions of its exits (edges that leave the loop towards a
return).  A condition can change from one round to the next only if it depends on
  - a loop-carried value whose in-loop update depends on something that varies or is computed by arithmetic on itself,
  - memory, when the loop writes memory (a store, or a call that receives a `&mut`), or
  - the result of a call that may have effects (receives a `&mut`) or whose arguments vary.
If no exit condition can change, the loop either is never entered or never ends once the second round starts: that is
reported.  This is a definite-bug pattern (sound to report, far from complete for termination): it catches a cursor
that is no longer advanced, a removal dropped from a purge loop, a counter that is no longer updated."""
from ssa import strip, show, walk
from engine import span_line

RULE = 'PROGRESS'
PROPS = ['C10']


def run(ctx):
    prog = ctx.prog
    n_loops = 0
    for f in sorted(prog.fns.values(), key=lambda x: x.path):
        if not f.info.get('mir'):
            continue
        b = f.body
        cfg = b.cfg
        loops = cfg.loops()
        if not loops:
            continue
        ordinal = 0
        for h, body in sorted(loops.items(), key=lambda kv: cfg.rpo.index(kv[0]) if kv[0] in cfg.rpo else 10 ** 6):
            if h not in cfg.reach:
                continue
            n_loops += 1
            ordinal += 1
            # does the loop write memory / call something with effects?
            writes = any(st.point[0] in body for st in b.stores)
            eff_calls = [c for c in b.calls if c.point[0] in body and passes_mut(b, c)]
            mem_varies = writes or bool(eff_calls)
            memo = {}

            def varies(v, depth=0):
                v = strip(v)
                if v is None:
                    return False
                if v.id in memo:
                    return memo[v.id]
                memo[v.id] = False      # cycles: decided by the non-cyclic operands
                r = False
                k = v.kind
                inside = v.point is not None and v.point[0] in body
                if k in ('const', 'param'):
                    r = False
                elif k == 'phi':
                    blk = v.extra['block']
                    if blk not in body:
                        r = False
                    elif blk == h:
                        steps = [a for a, p in zip(v.args, v.extra['preds']) if p in body]
                        r = any(step_varies(strip(a), v) for a in steps)
                    else:
                        r = any(varies(a, depth + 1) for a in v.args) or True   # a merge inside the loop selects by a branch: may differ per round if the branch does
                        if r:
                            # be precise: a merge of invariant values under invariant branches is invariant; we do not track
                            # branches, so only call it varying if some operand varies or the operands differ
                            ops = {strip(a).id for a in v.args}
                            r = any(varies(a, depth + 1) for a in v.args) or len(ops) > 1
                elif not inside:
                    r = False           # computed once before the loop
                elif k == 'load':
                    r = mem_varies or varies(v.args[0], depth + 1) or any(isinstance(p, tuple) and any(varies(x, depth + 1) for x in p if hasattr(x, 'kind')) for p in v.args[1])
                elif k == 'call':
                    r = passes_mut(b, v) or any(varies(a, depth + 1) for a in v.args) or (mem_varies and not pure_of_memory(prog, v))
                elif k in ('bin', 'un', 'cast', 'discr', 'agg', 'ref', 'update'):
                    r = any(varies(a, depth + 1) for a in v.args if hasattr(a, 'kind'))
                    if k in ('ref',) and mem_varies:
                        r = True
                else:
                    r = True            # unknown construct: assume it can change
                memo[v.id] = r
                return r

            def step_varies(a, phi):
                """the in-loop update of a header phi: varies unless it is the phi itself or an invariant value"""
                if a is phi:
                    return False
                # arithmetic on the phi itself (i += 1) changes it
                for x in walk(a):
                    if x is phi:
                        return True
                return varies(a)

            exits = []
            for x in sorted(body):
                for s2 in cfg.succ[x]:
                    if s2 not in body and s2 in cfg.can_return:
                        exits.append((x, s2))
            if not exits:
                continue        # no exit towards a return at all: an intended endless loop would be a different finding
            conds = []
            undecidable = False
            for (x, s2) in exits:
                d = b.switch_discr.get(x)
                if d is None:
                    undecidable = True      # leaves through a call edge or similar: do not judge
                    continue
                conds.append((x, d))
            if undecidable or not conds:
                continue
            line = b.mir['blocks'][h]['term'].get('span', [None, f.line])[1] if b.mir['blocks'][h]['term'].get('span') else f.line
            if any(varies(d) for _, d in conds):
                ctx.add(RULE, f, 'loop@%s' % loop_sig(prog, f, conds, ordinal), 'ok', 'an exit condition of the loop depends on something the loop changes', PROPS, line, nontrivial=True)
            else:
                ctx.add(RULE, f, 'loop@%s' % loop_sig(prog, f, conds, ordinal), 'violation',
                        'none of the loop\'s exit conditions (%s) depends on anything the loop changes (no cursor update, no memory write, no effectful call feeds them): once the second round starts the loop cannot end' % '; '.join(show(d, 3) for _, d in conds[:2]),
                        PROPS, line)
    ctx.stat(RULE, loops=n_loops)
    if n_loops < 30:
        ctx.anchor_missing(RULE, 'loops of the library', PROPS, n_loops, 30)


def passes_mut(b, call):
    """does the call receive a `&mut` (type of the operand as passed, not of the value it was reborrowed from)?"""
    t = b.mir['blocks'][call.point[0]]['term']
    if t.get('k') != 'call':
        return True
    for o in t['args']:
        ty = o.get('ty') or (o.get('place') or {}).get('ty') or ''
        if ty.startswith('&mut') or ty.startswith('*mut'):
            return True
    return False


def pure_of_memory(prog, call):
    """calls whose result does not depend on memory (constructors, arithmetic helpers): none assumed"""
    return False


def loop_sig(prog, f, conds, ordinal):
    """configuration- and line-free signature of a loop: ordinal among the function's loops + its exit conditions"""
    from rules.panicsite import sig_operand
    return '%d:%s' % (ordinal, ','.join(sorted(sig_operand(prog, f, d) for _, d in conds))[:70])
