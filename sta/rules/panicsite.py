"""PANICSITE: every panicking construct is discharged (DESIGN section 4; C10).

Sites are enumerated from MIR in a configuration-independent way: integer + - * << >> (with or without the
overflow assertion), slice/Vec indexing, unwrap/expect, ilog2, explicit panics (assert!/assert_eq!/debug_assert!),
Vec::{remove, insert, swap_remove}.  A site is discharged automatically by a dominating guard or a recognised
idiom, or by a frozen table entry carrying a one-line reason (entries were confirmed by reading each site)."""
from ssa import strip, show, walk
from engine import span_line
from origins import vec_field_of

RULE = 'PANICSITE'
PROPS = ['C10']
ARITH = ('Add', 'Sub', 'Mul', 'Shl', 'Shr', 'Div', 'Rem')

# frozen table: (module, function name, site signature) -> reason.  The signature is line-free.
T_BITS = 'constant-bounded bit loop: shift starts at 32 and halves 6 times; lt/rt/pt stay within 0..=62 (heap of 63 places); C14/C15 own the arithmetic'
T_LAYOUT = 'layout arithmetic over the domain bounds: value >= min and scale < 64 for in-domain coordinates (C14, assumed); construction refuses domains below 2^5 points before ilog2'
TABLE = {
    # pool
    ('pool', 'reserve', 'Add(len(buffer), length)'): 'new arena length: bounded by addressable memory (resize would fail first)',
    ('pool', 'reserve', 'Add(n, l)'): 'end of the new index range = new arena length, which fits u32 as long as fewer than 2^32 slots exist (EMPTY_REF = u32::MAX is never a slot)',
    ('pool', 'get_free_index', 'unwrap(pop)'): 'the free list is non-empty here: either it was, or reserve(capacity >= 8) has just extended it',
    ('pool', 'reserve', 'panic(debug_assert length > 0)'): 'length is capacity.max(8) or unused.capacity() >= 8',
    # tree
    ('tree', 'new', 'panic(assert_eq nil_index NIL_INDEX)'): 'a fresh pool hands out slot 0 first: reserve extends the free list with (0..n).rev() and pop takes the last element',
    ('tree', 'clear', 'Sub(len(store.unused), n)'): 'n counts the slots pushed onto the free list in the previous pass, so n <= len',
    ('tree', 'clear', 'index(store.unused)'): 'i ranges over i0..len of the same vector, which only grows inside the loop',
    # export
    ('array', 'create_ordered_list', 'Sub(len(store.buffer), len(store.unused))'): 'the free list holds distinct slots of the arena, so unused.len() <= buffer.len() (C11)',
    ('array', 'create_ordered_list', 'Sub(len(stack), 1)'): 'inside `while !stack.is_empty()`',
    ('array', 'create_ordered_list', 'index_mut(stack)'): 'last_stack_index = len - 1 inside `while !stack.is_empty()`',
    ('array', 'height', 'Shl(height, 1)'): 'height counts black nodes on a root-to-leaf path: <= 2*log2(n+1) <= 64',
    # seg
    ('heap', '*', 'bit-loop'): T_BITS,
    ('bit', 'fill', 'bit-arith'): 'fill(start, end) is called with start <= end <= 62 (heap indices of in-domain buckets), so 1 <= end-start+1 <= 63 (C15)',
    ('layout', '*', 'layout-arith'): T_LAYOUT,
    ('heap', 'next', 'Sub(value, 1)'): 'BitIter::next: value != 0 on this path (tested just above)',
    ('tree', 'new', 'from_elem'): 'vec![Chunk::new(); count] with count <= 63',
}


def module_kind(fn):
    m = fn.module.split('/')[-1]
    return m


def sig_operand(prog, fn, v, depth=0):
    v = strip(v)
    if v is None or depth > 3:
        return '?'
    if v.kind == 'const':
        if v.args[1]:
            return v.args[1].split('::')[-1]
        return str(v.args[0])
    if v.kind == 'param':
        return fn.body.local_name(v.args[0])
    if v.kind == 'call':
        nm = v.callee_name()
        if nm in ('len', 'capacity') and v.args:
            vf = vec_field_of(prog, v.args[0])
            if vf:
                return '%s(%s)' % (nm, '.'.join(vf))
            a = strip(v.args[0])
            while a.kind in ('ref', 'load') and not a.fields():
                a = strip(a.args[0])
            if a.kind == 'escaped':
                return '%s(%s)' % (nm, fn.body.local_name(a.args[0]))
            if a.kind in ('ref', 'load'):
                return '%s(%s)' % (nm, '.'.join(a.fields()))
            return '%s(?)' % nm
        return nm or 'call'
    if v.kind == 'phi':
        return fn.body.local_name(v.extra['local'])
    if v.kind == 'load':
        root = strip(v.args[0])
        if root.kind == 'bin' and v.fields() == ('0',):
            return sig_operand(prog, fn, root, depth + 1)
        if root.kind == 'param':
            return '.'.join(v.fields())
        return 'ld.' + '.'.join(str(f) for f in v.fields())
    if v.kind == 'bin':
        return '%s(%s, %s)' % (v.args[0].replace('WithOverflow', ''), sig_operand(prog, fn, v.args[1], depth + 1), sig_operand(prog, fn, v.args[2], depth + 1))
    if v.kind == 'cast':
        return sig_operand(prog, fn, v.args[0], depth + 1)
    if v.kind == 'escaped':
        return fn.body.local_name(v.args[0])
    return v.kind


def dominating_guards(prog, b, point):
    """[(op, x, y)] comparisons known true on every path to `point` (normal edges)"""
    from rules.gate import edge_truth
    out = []
    cfg = b.cfg
    for s, d in b.switch_discr.items():
        d0 = strip(d)
        neg = False
        while d0.kind == 'un' and d0.args[0] == 'Not':
            d0 = strip(d0.args[1])
            neg = not neg
        t = b.mir['blocks'][s]['term']
        for succ in cfg.succ[s]:
            tr = edge_truth(t, succ)
            if tr is None or cfg.pred[succ] != [s] or not cfg.dominates(succ, point[0]):
                continue
            truth = tr != neg
            if d0.kind == 'bin' and d0.args[0] in ('Lt', 'Le', 'Gt', 'Ge', 'Eq', 'Ne'):
                op = d0.args[0]
                if not truth:
                    op = {'Lt': 'Ge', 'Le': 'Gt', 'Gt': 'Le', 'Ge': 'Lt', 'Eq': 'Ne', 'Ne': 'Eq'}[op]
                out.append((op, strip(d0.args[1]), strip(d0.args[2])))
            elif d0.kind == 'call' and d0.callee_name() == 'is_empty':
                out.append(('is_empty' if truth else 'not_empty', strip(d0.args[0]), None))
        # integer switch (`match x { 0 => .., n => .. }`): on the otherwise edge x differs from every listed value
        if t['k'] == 'switch' and (t.get('dty') or '') not in ('bool',) and d0.kind not in ('bin',) and not neg:
            listed = [tv for tv, _ in t['targets']]
            oth = t['otherwise']
            if cfg.pred[oth] == [s] and cfg.dominates(oth, point[0]) and oth not in [tb for _, tb in t['targets']]:
                for tv in listed:
                    out.append(('Ne', d0, _IntConst(tv)))
            for tv, tb in t['targets']:
                if cfg.pred[tb] == [s] and cfg.dominates(tb, point[0]) and tb != oth:
                    out.append(('Eq', d0, _IntConst(tv)))
    return out


class _IntConst:
    """stand-in for a constant Val in guards derived from integer switches"""
    kind = 'const'

    def __init__(self, v):
        self.args = (v, None, str(v))
        self.id = -1000 - v
        self.ty = 'int'

    def is_const(self, value=None):
        return value is None or self.args[0] == value


def same_val(a, b):
    a, b = strip(a), strip(b)
    if a is b:
        return True
    if a.kind == b.kind == 'load' and a.args[1] == b.args[1] and same_val(a.args[0], b.args[0]):
        return True
    if a.kind == b.kind == 'param' and a.args == b.args:
        return True
    if a.kind == b.kind == 'call' and a.callee_name() == b.callee_name() == 'len' and a.args and b.args and same_val(strip_ref(a.args[0]), strip_ref(b.args[0])):
        return True
    if a.kind == b.kind == 'ref' and a.args[1] == b.args[1] and same_val(a.args[0], b.args[0]):
        return True
    if a.kind == b.kind == 'escaped' and a.args == b.args:
        return True
    return False


def strip_ref(v):
    v = strip(v)
    while v.kind in ('ref',) and not v.fields():
        v = strip(v.args[0])
    return v


SHRINKERS = ('pop', 'remove', 'swap_remove', 'truncate', 'clear', 'retain', 'retain_mut', 'drain', 'split_off', 'set_len', 'dedup', 'dedup_by', 'dedup_by_key')


def pushes_and_shrinks(prog, f, _depth=0):
    """(fields pushed to on every path, fields possibly shrunk) of self's vectors by function f, as field-path suffixes"""
    key = ('pushshrink', f.path)
    if key in prog._summ_cache:
        return prog._summ_cache[key]
    prog._summ_cache[key] = (set(), {('*',)})          # recursion: assume the worst
    b = f.body
    must, may = set(), set()
    for c in b.calls:
        nm = c.callee_name()
        vf = vec_field_of(prog, c.args[0]) if c.args else None
        tgt = prog.resolve(c)
        if tgt is None and vf is not None:
            if nm == 'push' and all(r == c.point[0] or c.point[0] == 0 or not b.cfg.paths_avoiding(0, r, {c.point[0]}) for r in b.cfg.returns):
                must.add(vf)
            if nm in SHRINKERS:
                may.add(vf)
        elif tgt is not None and not tgt.is_closure and _depth < 4:
            recv = prog.self_field(strip_ref(c.args[0])) if c.args else None
            m2, y2 = pushes_and_shrinks(prog, tgt, _depth + 1)
            pre = recv if recv is not None else (() if c.args and strip_ref(c.args[0]).kind == 'param' else None)
            if pre is None:
                if y2:
                    may.add(('*',))
                continue
            if all(r == c.point[0] or c.point[0] == 0 or not b.cfg.paths_avoiding(0, r, {c.point[0]}) for r in b.cfg.returns):
                must |= {pre + q for q in m2}
            may |= {pre + q if q != ('*',) else q for q in y2}
    prog._summ_cache[key] = (must, may)
    return must, may


def pushed_before(prog, fn, len_call, site):
    """`v.len() - 1` is safe where a push onto v (direct, or through a crate function that pushes on all its paths) dominates the
    site and nothing that can shrink v lies between the two"""
    body = fn.body
    cfg = body.cfg
    P = vec_field_of(prog, len_call.args[0])
    if P is None:
        return None
    pushers, shrinkers = [], []
    for c in body.calls:
        nm = c.callee_name()
        tgt = prog.resolve(c)
        if tgt is None:
            vf = vec_field_of(prog, c.args[0]) if c.args else None
            if vf == P and nm == 'push':
                pushers.append(c)
            if vf == P and nm in SHRINKERS:
                shrinkers.append(c)
        elif not tgt.is_closure and c.args:
            recv = prog.self_field(strip_ref(c.args[0]))
            if recv is None and strip_ref(c.args[0]).kind == 'param':
                recv = ()
            if recv is None:
                continue
            m2, y2 = pushes_and_shrinks(prog, tgt)
            if any(recv + q == P for q in m2):
                pushers.append(c)
            if any(q == ('*',) or recv + q == P for q in y2):
                shrinkers.append(c)
    for pc in pushers:
        if not (pc.point < len_call.point and cfg.dominates(pc.point[0], len_call.point[0])):
            continue
        # blocks between the push and the site
        fwd, stack = set(), [pc.point[0]]
        while stack:
            x = stack.pop()
            if x in fwd:
                continue
            fwd.add(x)
            if x != len_call.point[0]:
                stack.extend(cfg.succ[x])
        bad = False
        for sc in shrinkers:
            if sc.point[0] in fwd and (sc.point[0] != pc.point[0] or sc.point > pc.point) and (sc.point[0] != len_call.point[0] or sc.point < len_call.point) \
                    and (sc.point[0] == len_call.point[0] or cfg.paths_avoiding(sc.point[0], len_call.point[0], set()) or sc.point[0] == pc.point[0]):
                bad = True
        if not bad:
            return 'len() - 1 of a vector that was pushed to on every path to this point, with nothing that shrinks it in between'
    return None


def pool_count(prog, fn, a, b):
    """arena.len() - free_list.len()  (anywhere: the free list holds distinct slots of the arena, C11), and
    (arena.len() [- free_list.len()]) - 1  (the sentinel slot is taken at construction and never released, so at least one
    slot exists and is in use) - also when the count comes out of a helper of the pool"""
    from rules.alloc import sizeform
    from rules.pool import pool_roles
    roles = pool_roles(prog)
    pairs = {(r['nodes'][-1], r['free'][-1]) for r in roles.values() if r.get('nodes') and r.get('free')}
    if not pairs:
        return None

    def form(x):
        f = sizeform(prog, fn, x)
        if f.kind != 'AFFINE' or f.const != 0:
            return None
        pos = [(t, c) for t, c in f.terms.items() if c > 0]
        neg = [(t, c) for t, c in f.terms.items() if c < 0]
        if len(pos) != 1 or pos[0][1] != 1 or pos[0][0][0] != 'len' or len(neg) > 1:
            return None
        nodes = pos[0][0][1]
        if neg:
            if neg[0][1] != -1 or neg[0][0][0] != 'len' or neg[0][0][1][:-1] != nodes[:-1]:
                return None
            if (nodes[-1], neg[0][0][1][-1]) in pairs:
                return 'in-use'
            return None
        if any(nodes[-1] == p[0] for p in pairs):
            return 'slots'
        return None
    fa = form(a)
    sb = strip(b)
    if fa == 'slots':
        fb = sizeform(prog, fn, b)
        if fb.kind == 'AFFINE' and fb.const == 0 and len(fb.terms) == 1:
            (t, c), = fb.terms.items()
            fa_t = list(sizeform(prog, fn, a).terms)[0]
            if c == 1 and t[0] == 'len' and t[1][:-1] == fa_t[1][:-1] and (fa_t[1][-1], t[1][-1]) in pairs:
                return 'the free list holds distinct slots of the arena, so its length never exceeds the arena\'s (C11)'
    if fa in ('slots', 'in-use') and sb.is_const(1):
        return 'the sentinel slot is taken at construction and never released: at least one slot exists and is in use (POOL, NILSTATE)'
    return None


def positive(prog, fn, v, depth=0):
    """is v >= 1 on every path? const >= 1; max(_, const >= 1); capacity() of a vector field that is created with a positive
    capacity and never shrunk; a parameter that is positive at every call site"""
    v = strip(v)
    if v is None or depth > 4:
        return False
    if v.kind == 'const':
        return isinstance(v.args[0], int) and v.args[0] >= 1
    if v.kind == 'cast':
        return positive(prog, fn, v.args[0], depth + 1)
    if v.kind == 'phi':
        # each incoming value is positive by itself, or under the branch that leads to its edge (`if c < MIN { MIN } else { c }`)
        def guarded(a, pred):
            for (g, x, y) in dominating_guards(prog, fn.body, (pred, 10 ** 6)):
                if y is None:
                    continue
                sy, sx = strip(y), strip(x)
                if same_val(x, a) and sy.kind == 'const' and isinstance(sy.args[0], int) and ((g == 'Ge' and sy.args[0] >= 1) or (g == 'Gt' and sy.args[0] >= 0)):
                    return True
                if same_val(y, a) and sx.kind == 'const' and isinstance(sx.args[0], int) and ((g == 'Le' and sx.args[0] >= 1) or (g == 'Lt' and sx.args[0] >= 0)):
                    return True
            return False
        preds = v.extra.get('preds') or [None] * len(v.args)
        return bool(v.args) and all(positive(prog, fn, a, depth + 1) or (p_ is not None and guarded(a, p_)) for a, p_ in zip(v.args, preds))
    if v.kind == 'call':
        nm = v.callee_name()
        if nm == 'max' and len(v.args) == 2 and prog.resolve(v) is None:
            return positive(prog, fn, v.args[0], depth + 1) or positive(prog, fn, v.args[1], depth + 1)
        if nm == 'clamp' and len(v.args) == 3 and prog.resolve(v) is None:
            return positive(prog, fn, v.args[1], depth + 1)          # clamp(x, lo, hi) >= lo
        if nm == 'capacity' and v.args and prog.resolve(v) is None:
            vf = vec_field_of(prog, v.args[0])
            if vf is None:
                return False
            fld = vf[-1]
            # every constructor of the owning type builds this field with a positive capacity, and nothing shrinks it
            owner = fn.self_adt
            made = False
            for g in prog.fns.values():
                if not g.info.get('mir') or g.is_closure:
                    continue
                for c in g.body.calls:
                    if c.callee_name() in ('shrink_to_fit', 'shrink_to') and c.args and (vec_field_of(prog, c.args[0]) or ())[-1:] == (fld,) and g.self_adt == owner:
                        return False
                for a in g.body._vals:
                    if a.kind == 'agg' and a.extra.get('akind') == 'adt' and a.extra.get('path') == owner and a.extra.get('variant'):
                        names = a.extra['variant']['fields']
                        if fld in names and len(names) == len(a.args):
                            init = strip(a.args[names.index(fld)])
                            if init.kind == 'call' and init.callee_name() == 'with_capacity' and init.args and positive(prog, g, init.args[0], depth + 1):
                                made = True
                            else:
                                return False
            return made
        return False
    if v.kind == 'param':
        k = v.args[0]
        callers = [(c, cf) for c, cf in prog.callers(fn) if c.kind == 'call']
        return bool(callers) and all(k - 1 < len(c.args) and positive(prog, cf, c.args[k - 1], depth + 1) for c, cf in callers)
    return False


def growth_amount_positive(prog, fn):
    """the premise of the pool's two reasoned entries: the growth function is only ever asked for a positive number of slots"""
    from rules.pool import pool_roles
    r = pool_roles(prog).get(fn.self_adt)
    if not r or not r.get('grow'):
        return False, 'no growth function recognised'
    for gfn in r['grow']:
        callers = [(c, cf) for c, cf in prog.callers(gfn) if c.kind == 'call']
        if not callers:
            return False, '%s is never called' % gfn.name
        for c, cf in callers:
            if len(c.args) < 2 or not positive(prog, cf, c.args[1]):
                return False, '%s may be asked for 0 slots by %s (%s is not provably >= 1)' % (gfn.name, cf.name, show(strip(c.args[1]), 3) if len(c.args) > 1 else '?')
    return True, ''


def counter_field(prog, fn, x, step):
    """x + small constant where x is a 64-bit field of self that the whole crate only ever sets to a constant or steps by a small
    constant (an entry counter): 2^64 steps are out of reach"""
    x, step = strip(x), strip(step)
    if not (step.kind == 'const' and isinstance(step.args[0], int) and 0 <= step.args[0] <= 16):
        return None
    if x.kind != 'load':
        return None
    fld = prog.self_field(x)
    if not fld or len(fld) != 1:
        return None
    for g in prog.fns.values():
        if g.self_adt != fn.self_adt or not g.info.get('mir'):
            continue
        for st in g.body.stores:
            if strip(st.root).kind != 'param' or tuple(p for p in st.path if p != '*' and isinstance(p, str))[:1] != fld:
                continue
            val = strip(st.value)
            if val.kind == 'load' and val.fields() == ('0',):
                val = strip(val.args[0])
            if val.kind == 'const':
                continue
            if val.kind == 'bin' and val.args[0].replace('WithOverflow', '').replace('Unchecked', '') in ('Add', 'Sub'):
                p_, q_ = strip(val.args[1]), strip(val.args[2])
                if q_.kind == 'const' and isinstance(q_.args[0], int) and abs(q_.args[0]) <= 16 and p_.kind == 'load' and prog.self_field(p_) == fld:
                    continue
            if val.kind == 'call' and val.callee_name() in ('saturating_sub', 'saturating_add', 'wrapping_sub', 'min') and val.args and strip(val.args[0]).kind == 'load' and prog.self_field(strip(val.args[0])) == fld:
                continue
            return None
    return 'entry counter in a 64-bit field (set to constants and stepped by small constants only): cannot overflow'


def auto_discharge(prog, fn, v, op, a, b):
    """reason string if the arithmetic site is discharged automatically"""
    body = fn.body
    sa, sb = strip(a), strip(b)
    if sa.kind == 'const' and sb.kind == 'const':
        return 'constant operands'
    guards = dominating_guards(prog, body, v.point)
    if op == 'Sub' and sb.kind == 'const' and isinstance(sb.args[0], int):
        c = sb.args[0]
        for (g, x, y) in guards:
            if y is not None and same_val(x, sa) and strip(y).kind == 'const' and isinstance(strip(y).args[0], int):
                k = strip(y).args[0]
                if (g == 'Gt' and k >= c - 1) or (g == 'Ge' and k >= c) or (g == 'Ne' and k == 0 and c == 1):
                    return 'minuend %s %s %d on every path' % (sig_operand(prog, fn, sa), {'Gt': '>', 'Ge': '>=', 'Ne': '!='}[g], k)
            if y is not None and same_val(y, sa) and strip(x).kind == 'const' and isinstance(strip(x).args[0], int):
                k = strip(x).args[0]
                if (g == 'Lt' and k >= c - 1) or (g == 'Le' and k >= c):
                    return 'minuend bounded below by a dominating comparison'
            if g == 'not_empty' and sa.kind == 'call' and sa.callee_name() == 'len' and c == 1 and same_val(strip_ref(sa.args[0]), strip_ref(x)):
                return 'len() - 1 under !is_empty()'
            # x > y for unsigned y means x >= 1
            if c == 1 and y is not None and not (v.ty or '').startswith(('i', '(i')) and ((g == 'Gt' and same_val(x, sa)) or (g == 'Lt' and same_val(y, sa))):
                return 'minuend is greater than an unsigned value on every path, hence >= 1'
    if op == 'Add' and sb.kind == 'const' and sb.args[0] == 1:
        # counter += 1 : bounded by the number of iterations / elements
        if sa.kind == 'phi':
            return 'counter incremented once per loop iteration (bounded by the number of stored elements, < 2^32)'
        # x + 1 with x < len known
        for (g, x, y) in guards:
            if g == 'Lt' and same_val(x, sa):
                return 'x + 1 with x < bound on every path'
            if g == 'Le' and same_val(x, sa) and y is not None and strip(y).kind == 'const' and isinstance(strip(y).args[0], int) and strip(y).args[0] < {'u8': 2 ** 8 - 1, 'u16': 2 ** 16 - 1, 'u32': 2 ** 32 - 1, 'i32': 2 ** 31 - 1, 'i64': 2 ** 63 - 1, 'isize': 2 ** 63 - 1}.get((strip(y).ty or '').strip(), 2 ** 64 - 1):
                return 'x + 1 with x <= a constant below the type maximum on every path'
        for (g, x, y) in guards:
            # (x as usize) + 1 < len  dominates  x + 1
            sx = strip(x)
            if g == 'Lt' and sx.kind == 'load' and sx.fields() == ('0',):
                sx = strip(sx.args[0])
            if g == 'Lt' and sx.kind == 'bin' and sx.args[0].startswith('Add') and same_val(strip(sx.args[1]), sa) and strip(sx.args[2]).is_const(1):
                return 'x + 1 < len checked in the wider type on every path (positions are u32 handles, so len <= 2^32)'
        if sa.kind == 'cast' or (sa.kind == 'param' and body.locals[sa.args[0]]['ty'] == 'u32' and v.ty in ('usize', '(usize, bool)')):
            return 'u32 value widened to usize before + 1'
    if op == 'Add' and sa.kind == 'phi' and sb.kind == 'const' and isinstance(sb.args[0], int) and sb.args[0] <= 2:
        return 'counter with constant step'
    if op == 'Add' and sb.kind == 'const' and isinstance(sb.args[0], int) and 0 <= sb.args[0] <= 16 and (v.ty or '').startswith(('usize', '(usize')):
        from origins import origins
        ats = origins(prog, fn, sa)
        if ats and all(a[0] in ('search', 'len') for a in ats):
            return 'a Vec position / length (at most isize::MAX) plus a small constant cannot overflow usize'
    # iteration counters in a 64-bit type: start at a small constant, grow by at most a small constant (or a bool) per
    # round; they and small linear functions of them cannot overflow unless a loop ran > 2^47 rounds (assumed impossible)
    wide = (v.ty or '').startswith(('usize', '(usize', 'u64', '(u64', 'i64', '(i64', 'isize', '(isize'))
    if wide:
        def small(x):
            x = strip(x)
            if x.kind == 'const' and isinstance(x.args[0], int) and 0 <= x.args[0] <= 65536:
                return True
            return x.ty == 'bool' or (x.kind == 'bin' and x.args[0] in ('Eq', 'Ne', 'Lt', 'Le', 'Gt', 'Ge'))     # a bool widened to an integer: 0 or 1

        def unov(x):
            x = strip(x)
            if x.kind == 'load' and x.fields() == ('0',):
                x = strip(x.args[0])
            return x

        def counter(x, depth=0, fam=None):
            """x is built only from small constants, truth values and `member + small` over a family of merges (the loop
            header's and the ones inside the loop body)"""
            x = unov(x)
            if small(x):
                return True
            if depth > 5:
                return False
            fam = set(fam or ())
            if x.kind == 'phi' and not x.extra.get('anyof'):
                if x.id in fam:
                    return True
                fam.add(x.id)
                for a2 in x.args:
                    a2 = unov(a2)
                    if small(a2) or (a2.kind == 'phi' and a2.id in fam):
                        continue
                    if a2.kind == 'bin' and a2.args[0].replace('WithOverflow', '').replace('Unchecked', '') == 'Add':
                        p1, p2 = unov(a2.args[1]), unov(a2.args[2])
                        if (small(p2) and counter(p1, depth + 1, fam)) or (small(p1) and counter(p2, depth + 1, fam)):
                            continue
                    if a2.kind == 'phi' and counter(a2, depth + 1, fam):
                        continue
                    return False
                return True
            return False
        if op == 'Add' and ((counter(sa) and small(sb)) or (counter(sb) and small(sa))):
            return 'iteration counter in a 64-bit type (grows by a small constant per round): cannot overflow'
        if op == 'Mul' and ((counter(sa) and small(sb)) or (counter(sb) and small(sa))):
            return 'small multiple of an iteration counter in a 64-bit type: cannot overflow'
        if op == 'Shl' and counter(sa) and sb.kind == 'const' and isinstance(sb.args[0], int) and sb.args[0] <= 16:
            return 'small shift of an iteration counter in a 64-bit type: cannot overflow'
    if op == 'Sub' and sa.kind == 'call' and sa.callee_name() == 'len' and sb.kind == 'call' and sb.callee_name() == 'len' and same_val(strip_ref(sa.args[0]), strip_ref(sb.args[0])) and sb.point < sa.point:
        # len(now) - len(before) of one vector that is only pushed to in between
        shrink = [m for m in body.calls if m.callee_name() in ('pop', 'remove', 'swap_remove', 'truncate', 'clear', 'retain', 'drain', 'split_off') and m.args
                  and same_val(strip_ref(m.args[0]), strip_ref(sa.args[0])) and body.cfg.dominates(sb.point[0], m.point[0])]
        if not shrink:
            return 'length of a vector minus its own earlier length, with nothing that shrinks it in between'
    if op == 'Add' and (v.ty or '').lstrip('(').startswith(('usize', 'u64', 'i64', 'isize')):
        why = counter_field(prog, fn, sa, sb) or counter_field(prog, fn, sb, sa)
        if why:
            return why
    if op in ('Shl', 'Shr') and sb.kind == 'call' and sb.callee_name() in ('trailing_zeros', 'leading_zeros') and sb.args:
        # x.trailing_zeros() < bit width of x whenever x != 0
        arg = strip(sb.args[0])
        wide = {'u64': 64, 'i64': 64, 'usize': 64, 'u32': 32, 'i32': 32}
        wa, wv = wide.get(arg.ty or ''), wide.get((v.ty or '').lstrip('(').split(',')[0])
        if wa and wv and wa <= wv:
            for (g, x, y) in guards:
                if y is not None and g == 'Ne' and strip(y).is_const(0) and same_val(x, arg):
                    return 'shift by the number of trailing/leading zeros of a value that is not 0 on this path: below its bit width'
                if y is not None and g == 'Ne' and strip(x).is_const(0) and same_val(y, arg):
                    return 'shift by the number of trailing/leading zeros of a value that is not 0 on this path: below its bit width'
                # the count itself tested against the width (`if pos == u64::BITS { return None }`): it is the width only for 0
                for p_, q_ in ((x, y), (y, x)):
                    if y is not None and g == 'Ne' and q_ is not None and strip(q_).is_const(wa) and same_val(p_, sb):
                        return 'shift by a count of trailing/leading zeros that is not the full width on this path: below the bit width'
                    if y is not None and g == 'Lt' and p_ is x and strip(q_).is_const(wa) and same_val(p_, sb):
                        return 'shift by a count of trailing/leading zeros tested below the bit width'
    if op == 'Sub' and sb.is_const(1) and sa.kind == 'load' and fn.self_adt in prog.tree_adts and prog.self_field(sa) and len(prog.self_field(sa)) == 1:
        # an entry counter stepped down in the removal: it counts the entries (ENTITY's counter discipline), and the entry that
        # is being removed is one of them
        from rules.entity import counter_discipline
        from rules.stale import removal_fns
        if fn.path in removal_fns(prog) and counter_discipline(prog, fn.self_adt, prog.self_field(sa)[0]) is None:
            return 'entry counter (zeroed by constructors and clear, +1 per slot taken for an entry, -1 per removal) stepped down in the removal of an existing entry'
    if op == 'Sub':
        why = pool_count(prog, fn, sa, sb)
        if why:
            return why
    if op == 'Sub' and sa.kind == 'call' and sa.callee_name() == 'len' and sb.is_const(1) and sa.args:
        why = pushed_before(prog, fn, sa, v)
        if why:
            return why
    if op == 'Sub' and sa.kind == 'call' and sa.callee_name() == 'len':
        # len - n where n <= len guarded
        for (g, x, y) in guards:
            if y is not None and ((g in ('Le', 'Lt') and same_val(x, sb) and same_val(y, sa)) or (g in ('Ge', 'Gt') and same_val(x, sa) and same_val(y, sb))):
                return 'subtrahend <= minuend on every path'
    return None


def run(ctx):
    prog = ctx.prog
    n = {'arith': 0, 'index': 0, 'unwrap': 0, 'panic': 0, 'vecop': 0}
    for fn in prog.fns.values():
        b = fn.body
        mk = module_kind(fn)
        name = fn.name if not fn.is_closure else (prog.fns[fn.parent].name if fn.parent in prog.fns else fn.name)
        seen_sigs = set()
        # ---- arithmetic ------------------------------------------------------------------------
        for v in b._vals:
            if v.kind != 'bin' or v.point is None or v.point[0] not in b.cfg.reach:
                continue
            op = v.args[0].replace('WithOverflow', '').replace('Unchecked', '')
            if op not in ARITH:
                continue
            ty = v.ty or ''
            if not any(t in ty for t in ('u8', 'u16', 'u32', 'u64', 'usize', 'i8', 'i16', 'i32', 'i64', 'isize')):
                continue
            if is_dbg_span(v.span):
                continue
            n['arith'] += 1
            a, c = v.args[1], v.args[2]
            sg = '%s(%s, %s)' % (op, sig_operand(prog, fn, a), sig_operand(prog, fn, c))
            line = v.span[1] if v.span else fn.line
            reason = auto_discharge(prog, fn, v, op, a, c)
            verdict, msg = None, None
            if reason:
                verdict, msg = 'ok', 'discharged: ' + reason
            else:
                key = table_key(mk, name, sg)
                if key:
                    verdict, msg = 'exception', 'accepted: ' + TABLE[key]
            if verdict is None:
                verdict = 'violation'
                hint = ''
                if op in ('Shl', 'Shr') and strip(c).kind != 'const':
                    hint = ' (shift by a non-constant amount)'
                msg = 'integer %s may overflow / underflow%s: no dominating guard discharges %s and no reasoned entry covers it' % (op.lower(), hint, sg)
            k = (sg, verdict)
            if k in seen_sigs:
                continue
            seen_sigs.add(k)
            ctx.add(RULE, fn, 'arith:' + sg, verdict, msg, PROPS + (['C13'] if fn.self_adt in prog.list_adts and fn.family != 'seg' else []) + (['C07'] if mk == 'array' else []), line)
        # ---- bounds-checked indexing of arrays / slices (Assert terminators) --------------------------
        for bb in b.cfg.reach_list():
            t = b.mir['blocks'][bb]['term']
            if t['k'] != 'assert' or t['msg'] != 'BoundsCheck':
                continue
            ops = b.use_vals.get((bb, 'assert_ops')) or []
            n['index'] += 1
            ln, ix = (strip(ops[0]), strip(ops[1])) if len(ops) == 2 else (None, None)
            line = t['span'][1]
            sg = 'bounds(%s < %s)' % (sig_operand(prog, fn, ix) if ix is not None else '?', sig_operand(prog, fn, ln) if ln is not None else '?')
            ok = None
            if ln is not None and ix is not None:
                if ln.kind == 'const' and ix.kind == 'const' and isinstance(ln.args[0], int) and isinstance(ix.args[0], int) and ix.args[0] < ln.args[0]:
                    ok = 'constant index below the constant length'
                else:
                    for (g, x, y) in dominating_guards(prog, b, (bb, 10 ** 6)):
                        if y is not None and g == 'Lt' and same_val(x, ix) and (same_val(y, ln) or (strip(y).kind == 'const' and ln.kind == 'const' and isinstance(strip(y).args[0], int) and strip(y).args[0] <= ln.args[0])):
                            ok = 'index < length checked on every path'
            extra = ['C07'] if mk == 'array' else (['C13'] if fn.self_adt in prog.list_adts and fn.family != 'seg' else [])
            if ok:
                ctx.add(RULE, fn, 'index:' + sg, 'ok', 'discharged: ' + ok, PROPS + extra, line)
            else:
                ctx.add(RULE, fn, 'index:' + sg, 'violation', 'bounds-checked indexing may panic: nothing bounds %s below %s' % (sig_operand(prog, fn, ix) if ix is not None else '?', sig_operand(prog, fn, ln) if ln is not None else '?'), PROPS + extra, line)
        # ---- calls ----------------------------------------------------------------------------
        for c in b.calls:
            if c.point[0] not in b.cfg.reach:
                continue
            nm = c.callee_name()
            cls = prog.classify(c)
            line = span_line(c, fn.line)
            if cls != 'std':
                continue
            if nm in ('unwrap', 'expect'):
                n['unwrap'] += 1
                inner = strip(c.args[0])
                sg = '%s(%s)' % (nm, inner.callee_name() if inner.kind == 'call' else inner.kind)
                key = table_key(mk, name, sg)
                if key == ('pool', 'get_free_index', 'unwrap(pop)'):
                    ok_, why_ = growth_amount_positive(prog, fn)
                    if not ok_:
                        key = None
                        ctx.add(RULE, fn, 'call:' + sg, 'violation', 'pop().unwrap() on the free list right after growing it: the growth may add nothing, ' + why_, PROPS, line)
                        continue
                if key:
                    ctx.add(RULE, fn, 'call:' + sg, 'exception', 'accepted: ' + TABLE[key], PROPS, line)
                elif nonempty_end(prog, fn, c, inner):
                    ctx.add(RULE, fn, 'call:' + sg, 'ok', 'discharged: the end element of a sequence tested non-empty on every path here, nothing removed in between', PROPS, line)
                else:
                    ctx.add(RULE, fn, 'call:' + sg, 'violation', '%s on a value that may be None/Err: no reasoned entry covers it' % nm, PROPS, line)
            elif nm in ('index', 'index_mut') and len(c.args) == 2:
                n['index'] += 1
                base = strip_ref(c.args[0])
                bs = sig_operand(prog, fn, base) if base.kind != 'ref' else '.'.join(base.fields())
                vf = vec_field_of(prog, c.args[0])
                sg = '%s(%s)' % (nm, '.'.join(vf) if vf else bs)
                key = table_key(mk, name, sg)
                from engine import Instance
                from program import fn_key as _fk
                unch = [i for i in ctx.instances if i.rule == 'UNCHECKED' and i.fn == _fk(fn) and i.line == line and '|list-read(' in i.key]
                if key:
                    ctx.add(RULE, fn, 'call:' + sg, 'exception', 'accepted: ' + TABLE[key], PROPS, line)
                elif unch and all(i.verdict == 'ok' for i in unch):
                    ctx.add(RULE, fn, 'call:' + sg, 'ok', 'discharged: the position is in bounds in every search outcome that reaches it (decided by UNCHECKED: %s)' % unch[0].msg, PROPS, line)
                else:
                    ctx.add(RULE, fn, 'call:' + sg, 'violation', 'checked indexing may panic: no reasoned entry covers it', PROPS, line)
            elif nm == 'ilog2':
                n['vecop'] += 1
                key = table_key(mk, name, 'ilog2')
                ctx.add(RULE, fn, 'call:ilog2', 'exception' if key else 'violation', ('accepted: ' + TABLE[key]) if key else 'ilog2 of a value that may be 0', PROPS, line)
            elif nm == 'from_elem':
                key = table_key(mk, name, 'from_elem')
                ctx.add(RULE, fn, 'call:from_elem', 'exception' if key else 'violation', ('accepted: ' + TABLE[key]) if key else 'vec![x; n] with unbounded n', PROPS, line)
            elif nm in ('panic', 'panic_fmt', 'assert_failed', 'unreachable_display', 'panic_explicit', 'unwrap_failed', 'expect_failed'):
                n['panic'] += 1
                exp = ';'.join(c.span[3]) if c.span and c.span[3] else ''
                if 'debug_assert' in exp:
                    what = 'debug_assert'
                elif 'assert_eq' in exp:
                    what = 'assert_eq'
                elif 'assert' in exp:
                    what = 'assert'
                else:
                    what = 'panic'
                txt = ''
                for a in c.args:
                    sa = strip(a)
                    if sa.kind == 'const' and isinstance(sa.args[2], str) and 'assertion failed' in sa.args[2]:
                        txt = sa.args[2].split('assertion failed:')[-1].strip().strip('"')[:60]
                sg = '%s(%s)' % (what, txt) if txt else what
                verdict, msg = classify_panic(prog, fn, mk, name, what, txt, c)
                ctx.add(RULE, fn, 'panic:' + sg, verdict, msg, PROPS, line)
    ctx.stat(RULE, **n)
    if n['arith'] < 30:
        ctx.anchor_missing(RULE, 'integer arithmetic sites', PROPS, n['arith'], 30)


def is_dbg_span(sp):
    return bool(sp and sp[3] and any('debug_assert' in x for x in sp[3]))


def commuted(sg):
    """`Add(a, b)` <-> `Add(b, a)` (also Mul): the same site with its operands written the other way round"""
    for op in ('Add(', 'Mul('):
        if sg.startswith(op) and sg.endswith(')'):
            inner = sg[len(op):-1]
            depth = 0
            for i, ch in enumerate(inner):
                if ch == '(':
                    depth += 1
                elif ch == ')':
                    depth -= 1
                elif ch == ',' and depth == 0:
                    return '%s%s, %s)' % (op, inner[i + 1:].strip(), inner[:i].strip())
    return None


def container_id(v):
    """identity of the sequence a call receives: ('esc', local) / ('fld', root id, fields) through refs and deref calls"""
    v = strip(v)
    hops = 0
    while v is not None and hops < 6:
        hops += 1
        if v.kind == 'call' and v.callee_name() in ('deref', 'deref_mut', 'as_slice', 'as_mut_slice') and v.args:
            v = strip(v.args[0])
            continue
        if v.kind == 'ref' and not v.fields():
            v = strip(v.args[0])
            continue
        break
    if v is None:
        return None
    if v.kind == 'escaped':
        return ('esc', v.args[0])
    if v.kind in ('ref', 'load') and v.fields():
        r = strip(v.args[0])
        if r is not None and r.kind in ('param', 'escaped'):
            return ('fld', r.kind, r.args[0], tuple(v.fields()))
    return None


def nonempty_end(prog, fn, c, inner):
    """unwrap(last / last_mut / first / first_mut (S)) where a test `!S.is_empty()` (or S.len() compared with 0) holds on every path
    to the call and no shrinking operation on S lies between the test and the call"""
    from rules.gate import edge_truth
    if inner is None or inner.kind != 'call' or inner.callee_name() not in ('last', 'last_mut', 'first', 'first_mut') or prog.classify(inner) != 'std' or not inner.args:
        return False
    cid = container_id(inner.args[0])
    if cid is None:
        return False
    b = fn.body
    cfg = b.cfg
    for sblk, d in b.switch_discr.items():
        sd = strip(d)
        neg = False
        while sd is not None and sd.kind == 'un' and sd.args[0] == 'Not':
            sd = strip(sd.args[1])
            neg = not neg
        nonempty_when = None
        if sd is not None and sd.kind == 'call' and sd.callee_name() == 'is_empty' and sd.args and container_id(sd.args[0]) == cid:
            nonempty_when = neg            # is_empty() == False  <=>  non-empty
        elif sd is not None and sd.kind == 'bin' and sd.args[0] in ('Eq', 'Ne', 'Gt', 'Lt'):
            x, y = strip(sd.args[1]), strip(sd.args[2])
            for p_, q_, op_ in ((x, y, sd.args[0]), (y, x, {'Gt': 'Lt', 'Lt': 'Gt'}.get(sd.args[0], sd.args[0]))):
                if p_ is not None and p_.kind == 'call' and p_.callee_name() == 'len' and p_.args and container_id(p_.args[0]) == cid and q_ is not None and q_.kind == 'const' and q_.args[0] == 0:
                    nonempty_when = {'Eq': False, 'Ne': True, 'Gt': True}.get(op_)
                    if nonempty_when is not None and neg:
                        nonempty_when = not nonempty_when
        if nonempty_when is None:
            continue
        t = b.mir['blocks'][sblk]['term']
        for succ in set(cfg.succ[sblk]):
            tr = edge_truth(t, succ)
            if tr is None or tr != nonempty_when or cfg.pred[succ] != [sblk] or not (succ == c.point[0] or cfg.dominates(succ, c.point[0])):
                continue
            shrink = False
            for c2 in b.calls:
                if c2 is c or prog.classify(c2) != 'std' or c2.callee_name() not in ('pop', 'remove', 'swap_remove', 'clear', 'truncate', 'drain', 'retain', 'split_off', 'set_len', 'dedup') or not c2.args:
                    continue
                if container_id(c2.args[0]) != cid:
                    continue
                if (c2.point[0] == c.point[0] and c2.point[1] < c.point[1] and (succ == c.point[0] or cfg.dominates(succ, c2.point[0]))) or \
                        (c2.point[0] != c.point[0] and cfg.dominates(succ, c2.point[0]) and cfg.dominates(c2.point[0], c.point[0])):
                    shrink = True
            if not shrink:
                return True
    return False


def table_key(mk, name, sg):
    for sg2 in (sg, commuted(sg)):
        if sg2 is None:
            continue
        for key in ((mk, name, sg2), (mk, '*', sg2)):
            if key in TABLE:
                return key
    # the function may have been moved to another file of the module
    for key in TABLE:
        if key[1] == name and key[2] == sg and name != '*':
            return key
    # families of sites
    if mk == 'heap' and name in ('range_to_intersect_mask', 'range_to_place_mask', 'range_to_fill_mask', 'order_to_heap_index'):
        return ('heap', '*', 'bit-loop')
    if mk == 'bit':
        return ('bit', 'fill', 'bit-arith')
    if mk == 'layout':
        return ('layout', '*', 'layout-arith')
    if mk == 'pool' and sg.startswith('Add(cast') or (mk == 'pool' and sg in ('Add(n, l)', 'Add(Param?, ?)')):
        return ('pool', 'reserve', 'Add(n, l)')
    if sg in ('unwrap(pop)', 'expect(pop)') and mk == 'pool':
        return ('pool', 'get_free_index', 'unwrap(pop)')
    if mk == 'tree' and name == 'clear' and sg.startswith('index('):
        return ('tree', 'clear', 'index(store.unused)')
    return None


def precondition_assert(prog, fn, c):
    """None if the branch that guards this assertion failure passes exactly when expiration(key) >= time; else the reason"""
    from evalrel import Evaluator
    from rules.gate import edge_truth
    b = fn.body
    blk = c.point[0]
    # the switch whose one side leads (only) to this panic
    for s0, d0 in b.switch_discr.items():
        succs = set(b.cfg.succ[s0])
        dead = [x for x in succs if x not in b.cfg.can_return]
        if not dead or not any(x == blk or blk in b.cfg.reachable_from(x) for x in dead):
            continue
        if not any(x.kind == 'call' and x.callee_name() == 'expiration' for x in walk(d0)):
            return None         # an assertion about something else (a position, a link): not the precondition's business
        calls = [x for x in walk(d0) if x.kind == 'call' and prog.classify(x) == 'callback' and prog.callback_kind(x) == 'compare' and len(x.args) == 2]
        if len(calls) != 1:
            return 'its condition is not one comparison of an expiration with the time (%s)' % show(strip(d0), 3)
        cmpc = calls[0]
        def is_exp(v):
            return any(x.kind == 'call' and x.callee_name() == 'expiration' for x in walk(v))
        e0, e1 = is_exp(cmpc.args[0]), is_exp(cmpc.args[1])
        if e0 == e1:
            return 'its condition does not compare an expiration with a time'
        site = {'call': cmpc, 'stored_arg': 0 if e0 else 1, 'method': cmpc.callee_name()}
        t = b.mir['blocks'][s0]['term']
        passes = set()
        for rel in ('<', '=', '>'):
            val = Evaluator(prog, [site], rel).ev(strip(d0))
            if val is None or isinstance(val, tuple):
                return 'its condition cannot be evaluated (%s)' % show(strip(d0), 3)
            iv = int(val) if isinstance(val, bool) else val
            chosen = t['otherwise']
            for tv, tb in t['targets']:
                if tv == iv:
                    chosen = tb
            if chosen in b.cfg.can_return:
                passes.add(rel)
        if passes != {'=', '>'}:
            return 'it passes when the expiration is %s the time; the contract allows exactly = and >' % '/'.join(sorted(passes))
        return None
    return None


def classify_panic(prog, fn, mk, name, what, txt, c):
    if what == 'debug_assert':
        if mk == 'pool':
            ok_, why_ = growth_amount_positive(prog, fn)
            if not ok_:
                return 'violation', 'the assertion that the pool grows by a positive amount can fail: ' + why_
            return 'exception', 'accepted: ' + TABLE[('pool', 'reserve', 'panic(debug_assert length > 0)')] + ' (checked: every call of the growth function passes a positive amount)'
        if mk == 'heap':
            return 'exception', 'accepted: bucket numbers are below 32 for in-domain coordinates (C14, assumed)'
        if 'expiration' in txt or 'expired' in txt.lower() or fn.trait_method() == 'insert':
            why_ = precondition_assert(prog, fn, c)
            if why_:
                return 'violation', 'the assertion does not restate the C10 precondition (expiration >= insertion time): ' + why_
            return 'exception', 'accepted: restates the C10 precondition expiration >= insertion time (checked: the assertion passes exactly when expiration >= time)'
        return 'exception', 'accepted: restates the parent/child link consistency of a valid tree (C02, assumed); absent in release builds'
    if what == 'assert' and name == 'new' and 'NIL_INDEX' in txt and '==' in txt:
        what = 'assert_eq'          # the same check spelled assert!(a == b)
    if what == 'assert_eq' and name == 'new':
        return 'exception', 'accepted: ' + TABLE[('tree', 'new', 'panic(assert_eq nil_index NIL_INDEX)')]
    # panics that belong to an overflow / bounds Assert are counted at the arithmetic site
    return 'violation', 'explicit panic reachable in contract: %s' % (txt or what)
