"""SEGFLOW: dataflow agreements of the segment tree (DESIGN section 4; C03, C16).

 1 insert   the mask stored in each copy IS the mask whose bits select the lists written, and it is the layout's
            place mask of (range.min, range.max) in that order; one push per bit, no user code in the loop
 2 query    the layout's visit mask of (range.min, range.max) feeds both the bit iterator and the iterator's mask
 3 gate     every Some(v) returned by next() is dominated by the keep side of the expiry test of that very item,
            and every copy the scan steps over has passed through that test
 4 dedupe   the return is conditioned on trailing_zeros(item.mask & self.mask) == current place, exactly
 5 cursor   the position stored before returning is the already advanced one; the place cursor advances only through
            the bit iterator and resets the position to 0 at the same point; find_next skips a place only if its
            list is empty and returns the out-of-range marker only when the bit iterator is exhausted
 6 in-place on the drop side the copy is swap_removed at the current position and control returns to the loop guard
            without advancing; the guard re-reads the list length in every iteration"""
from ssa import strip, show, walk
from engine import span_line
from rules import live as L
from rules.gate import liveness_keeps, edge_truth, ret_cases

RULE = 'SEGFLOW'
PROPS = ['C03', 'C16']


def derives(v, target):
    for x in walk(v):
        if x is target:
            return True
    return False


def callee_names_transitive(prog, fn, depth=0, seen=None):
    seen = seen if seen is not None else set()
    out = set()
    if fn.path in seen or depth > 4:
        return out
    seen.add(fn.path)
    for c, t in prog.callees(fn):
        out.add(t.name)
        out |= callee_names_transitive(prog, t, depth + 1, seen)
    return out


def mask_call(prog, fn, want):
    """the call in fn whose callee (transitively) computes the `want` ('place' | 'intersect') mask"""
    for c in fn.body.calls:
        t = prog.resolve(c)
        if t is None:
            continue
        names = {t.name} | callee_names_transitive(prog, t)
        if any(want in n for n in names):
            other = 'intersect' if want == 'place' else 'place'
            if any(other in n for n in names):
                return c, 'ambiguous'
            return c, None
    return None, None


def mask_chain_problem(prog, call, want, depth=0):
    """The mask a caller receives IS the layout's mask of the two bounds it handed in: from the call down to the mask function
    every hop returns the next hop's result (nothing stored, cached or merged in), passes the two bounds on in order, and the last
    hop turns each bound into its position with one and the same position function.  Returns a description of the first hop that
    does not, or None."""
    tgt = prog.resolve(call)
    if tgt is None or depth > 4 or not tgt.info.get('mir'):
        return 'undecided: the %s mask comes from a call that cannot be followed' % want
    tb = tgt.body
    if want in tgt.name and tb.cfg.loops():
        return None                     # the mask function itself (HEAPMASK decides what it computes)
    rets = [strip(tb.ret_val[rb]) for rb in tb.cfg.returns]
    if len(rets) != 1 or rets[0].kind != 'call':
        return 'the %s mask handed out by %s is not the result of the mask computation for this range (%s)' % (want, tgt.name, show(rets[0], 2) if rets else 'no result')
    inner = rets[0]
    it = prog.resolve(inner)
    if it is None:
        return 'undecided: the %s mask comes from a call that cannot be followed' % want
    coords = [a for a in inner.args if (a.ty or '') in ('i64', 'u32', 'i32', 'u64', 'usize')]
    if len(coords) != 2:
        return 'undecided: %s does not hand two coordinates to %s' % (tgt.name, it.name)
    # the two coordinates: the hop's own bounds in order, raw or each through the same position function
    def bound_of(v):
        sv = strip(v)
        if sv is not None and sv.kind == 'param':
            return ('raw', sv.args[0])
        if sv is not None and sv.kind == 'call':
            pt = prog.resolve(sv)
            ps = [strip(a) for a in sv.args if strip(a) is not None and strip(a).kind == 'param' and (a.ty or '') in ('i64', 'u32', 'i32', 'u64', 'usize')]
            if pt is not None and len(ps) == 1:
                return (pt.path, ps[0].args[0])
        return None
    b0, b1 = bound_of(coords[0]), bound_of(coords[1])
    if b0 is None or b1 is None:
        bad = coords[0] if b0 is None else coords[1]
        return 'in %s the %s coordinate of the %s mask is %s, not the position of the bound handed in' % (tgt.name, 'first' if b0 is None else 'second', want, show(bad, 3))
    if b0[0] != b1[0]:
        return 'in %s the two bounds are turned into positions in different ways' % tgt.name
    if not (b0[1] < b1[1]):
        return 'in %s the bounds are passed on in the wrong order' % tgt.name
    return mask_chain_problem(prog, inner, want, depth + 1)


def range_args_ok(c):
    """args 1,2 derive from range.min, range.max in that order"""
    def field_of(v):
        for x in walk(v):
            if x.kind == 'load' and strip(x.args[0]).kind == 'param' and x.fields() in (('min',), ('max',)):
                return x.fields()[0]
        return None
    if len(c.args) < 3:
        return False
    return field_of(c.args[1]) == 'min' and field_of(c.args[2]) == 'max'


def run(ctx):
    prog = ctx.prog
    seg_fns = [f for f in prog.fns.values() if f.family == 'seg' and not f.is_closure]
    ins = [f for f in seg_fns if f.trait_method() == 'insert_by_range']
    qry = [f for f in seg_fns if f.trait_method() == 'iter_by_range']
    nxt = []
    for f in seg_fns:
        if f.trait_method() == 'next':
            g = with_scan_helpers(prog, f)
            if liveness_keeps(prog, g):
                nxt.append((f, g))
    # each of the three entry points is an anchor of its own: a scan that is no longer recognised must not pass as a
    # "consolidation" of the other two
    for what, found in (('insert_by_range of the segment tree', ins), ('iter_by_range of the segment tree', qry), ('Iterator::next of the query iterator with the expiry test of the scanned copy', nxt)):
        if not found:
            ctx.anchor_missing(RULE, what, PROPS, 0, 1)
    if ins:
        check_insert(ctx, prog, ins[0])
    if qry:
        check_query(ctx, prog, qry[0])
    if nxt:
        check_next(ctx, prog, nxt[0][1], nxt[0][0])
        check_start(ctx, prog, nxt[0][0])


def emptiness_helper(prog, call):
    """a list type's own `is_empty` is held to what its name says: None if it returns `buffer.is_empty()` / `buffer.len() == 0`"""
    tgt = prog.resolve(call)
    if tgt is None:
        return None          # std's
    for rv in tgt.body.ret_val.values():
        rv = strip(rv)
        if rv.kind == 'call' and rv.callee_name() == 'is_empty' and prog.resolve(rv) is None:
            continue
        if rv.kind == 'bin' and rv.args[0] == 'Eq':
            x, y = strip(rv.args[1]), strip(rv.args[2])
            if any(p.kind == 'call' and p.callee_name() == 'len' and q.is_const(0) for p, q in ((x, y), (y, x))):
                continue
        return 'the emptiness test of the lists (%s) is not `buffer.is_empty()` / `len() == 0` (it returns %s): a list it calls empty although it holds entries is skipped by every query' % (tgt.name, show(rv, 3))
    return None


def check_start(ctx, prog, nxt):
    """the iterator's FIRST place also comes out of the bit iterator: the constructor stores the place helper's result into the
    place cursor on every path (a literal start place is scanned without being taken off the mask - so it is scanned again when
    its bit comes up, or scanned although the query does not select it)"""
    b = nxt.body
    place = None
    for st in b.stores:
        if strip(st.root).kind == 'param' and len(st.fields()) == 1:
            v = strip(st.value)
            tgt = prog.resolve(v) if v is not None and v.kind == 'call' else None
            if tgt is not None and any(c.callee_name() in ('next', 'find') for c in tgt.body.calls):
                place = (st.fields()[0], tgt)
    if place is None:
        return
    fld, helper = place
    ctors = [f for f in prog.fns.values() if f.family == 'seg' and not f.is_closure and f.info.get('mir') and f.body.locals[0]['ty'].split('<')[0] == nxt.self_adt]
    for f in ctors:
        fb = f.body
        if not any(v.kind == 'agg' and v.extra.get('akind') == 'adt' and v.extra.get('path') == nxt.self_adt for v in fb._vals):
            continue        # hands on an iterator somebody else built
        ok = False
        # (a) a store `iter.<place> = helper(..)` that every return passes
        for st in fb.stores:
            v = strip(st.value)
            if st.fields() and st.fields()[-1] == fld and v is not None and v.kind == 'call' and prog.resolve(v) is helper:
                if all(r == st.point[0] or st.point[0] == 0 or not fb.cfg.paths_avoiding(0, r, {st.point[0]}) for r in fb.cfg.returns):
                    ok = True
        # (b) the aggregate is built with the helper's result, or with the exhaustion marker
        for v in fb._vals:
            if v.kind == 'agg' and v.extra.get('akind') == 'adt' and v.extra.get('path') == nxt.self_adt and v.extra.get('variant'):
                names = v.extra['variant']['fields']
                if fld in names and len(names) == len(v.args):
                    init = strip(v.args[names.index(fld)])
                    if init.kind == 'call' and prog.resolve(init) is helper:
                        ok = True
        ctx.add(RULE, f, 'start(first place from the mask)', 'ok' if ok else 'violation',
                'the constructor takes the first place from the bit iterator (through %s)' % helper.name if ok else
                'the iterator is handed out with a place cursor that was not taken from the bit iterator (%s is not called on every path of %s): the literal start place is scanned without its bit being consumed - scanned twice when the bit comes up (values reported twice), or scanned although the query does not select it' % (helper.name, f.name),
                PROPS, f.line)


def with_scan_helpers(prog, fn):
    """`next` with the private helpers of the iterator that contain a loop spliced in (a scan extracted into a helper
    is still next's own scan); the function itself if there is nothing to splice"""
    import copy, inline
    from program import Fn
    host = None
    for _ in range(3):
        cur = fn if host is None else Fn(prog, dict(fn.info, mir=host))
        sites = []
        for c in cur.body.calls:
            tgt = prog.resolve(c)
            if tgt is None or tgt.is_closure or tgt.trait_item or (tgt.self_adt != fn.self_adt and tgt.family != fn.family) or tgt.path in prog.accessors or not tgt.info.get('mir'):
                continue
            tb = tgt.body
            if not tb.cfg.loops() or inline.recursive(prog, tgt):
                continue
            if not any(x.callee_name() in ('swap_remove', 'remove', 'retain', 'expiration') or (prog.resolve(x) is not None and prog.resolve(x).path in prog.accessors) for x in tb.calls):
                continue        # e.g. the advance over the mask bits: a cursor helper, recognised as such by check_next
            if not liveness_keeps(prog, tgt):
                continue
            sites.append((c.point[0], tgt))
        if not sites:
            break
        if host is None:
            host = copy.deepcopy(fn.info['mir'])
        blk, tgt = sites[0]
        t = host['blocks'][blk]['term']
        if t['k'] != 'call':
            break
        inline.splice(host, blk, tgt.info['mir'], t['args'], t['dest'], t.get('target'), t['span'], tgt.name)
        inline.thread_discriminants(host)
    if host is None:
        return fn
    return Fn(prog, dict(fn.info, mir=host))


# ---- 1 ---------------------------------------------------------------------------------------------
def check_insert(ctx, prog, fn):
    b = fn.body
    problems = []
    mc, amb = mask_call(prog, fn, 'place')
    line = fn.line
    if mc is None:
        problems.append('undecided: no call that computes the layout\'s place mask')
    else:
        line = span_line(mc, fn.line)
        if not range_args_ok(mc):
            problems.append('the place mask is not computed from (range.min, range.max) in that order')
        cp = mask_chain_problem(prog, mc, 'place')
        if cp:
            problems.append(cp)
        # bit iterator over that very mask
        iters = [c for c in b.calls if prog.resolve(c) is not None and prog.resolve(c).name == 'new' and c.args and strip(c.args[-1]) is mc and len(c.args) == 1]
        ents = [c for c in b.calls if prog.resolve(c) is not None and prog.resolve(c).name == 'new' and len(c.args) == 2]
        if not iters:
            problems.append('the lists written are not selected by the bits of the place mask')
        if not ents or not any(strip(e.args[1]) is mc for e in ents):
            problems.append('the mask stored in the copies is not the place mask that selects the lists written')
        # the loop: next() of that iterator -> chunk_mut(index).insert(entity)
        from rules.reset import iterator_source
        nexts = [c for c in b.calls if c.callee_name() == 'next' and c.args and iters and iterator_source(b, c.args[0]) is iters[0]]
        from rules.layer import fn_visible_mutation
        pushes = [c for c in b.calls if prog.resolve(c) is not None and fn_visible_mutation(prog, prog.resolve(c)) and prog.resolve(c).path not in prog.accessors]
        pushes += [c for c in b.calls if prog.classify(c) == 'std' and c.callee_name() in ('push', 'insert', 'extend') and c.args and (c.args[0].ty or '').startswith('&mut') and strip(c.args[0]).kind != 'escaped']
        if len(nexts) != 1:
            problems.append('the bit iterator is not consumed by exactly one loop')
        elif len(pushes) != 1:
            problems.append('expected exactly one list insertion per bit, found %d mutating calls' % len(pushes))
        else:
            p = pushes[0]
            tgt_v = strip(p.args[0])
            acc = prog.accessor_call(tgt_v)
            for _ in range(4):
                # `self.chunk_mut(i).buffer.push(e)`: the list of the selected place, written without a helper
                if acc is not None or tgt_v.kind not in ('ref', 'load'):
                    break
                tgt_v = strip(tgt_v.args[0])
                acc = prog.accessor_call(tgt_v)
            if acc is None or not derives(acc[2], nexts[0]):
                problems.append('the copy is not pushed into the list selected by the current bit')
            if ents and strip(p.args[1]) is not ents[0]:
                problems.append('the value pushed is not the entity carrying the place mask')
            # through a helper of the list type (`Chunk::insert`): the helper pushes its parameter exactly once on every path
            hp = prog.resolve(p)
            if hp is not None and not hp.is_closure:
                from rules.pool import release_counts
                hb = hp.body
                hpush = [c for c in hb.calls if prog.classify(c) == 'std' and c.callee_name() in ('push', 'insert', 'extend', 'push_within_capacity') and c.args]
                per_block = {}
                for c in hpush:
                    per_block[c.point[0]] = per_block.get(c.point[0], 0) + 1
                counts = release_counts(hb, per_block)
                for ret in hb.cfg.returns:
                    cs = counts.get(ret, {0})
                    if cs != {1}:
                        problems.append('%s stores %s copies per call depending on the path; exactly one copy per selected list is expected' % (hp.name, sorted(cs)))
                        break
                for c in hpush:
                    if len(c.args) >= 2 and strip(c.args[-1]).kind != 'param' and c.callee_name() == 'push':
                        problems.append('%s pushes %s, not the copy it was given' % (hp.name, show(strip(c.args[-1]), 2)))
            loops = b.cfg.loops()
            inl = [h for h, body in loops.items() if p.point[0] in body and nexts[0].point[0] in body]
            if not inl:
                problems.append('the insertion is not inside the loop over the mask bits')
    sig = 'insert(place-mask agreement)'
    if problems:
        ctx.add(RULE, fn, sig, 'violation', '; '.join(problems[:3]), PROPS + ['C15'], line)
    else:
        ctx.add(RULE, fn, sig, 'ok', 'one copy per bit of the place mask of (min, max); the copies carry that same mask', PROPS + ['C15'], line)


# ---- 2 ---------------------------------------------------------------------------------------------
def check_query(ctx, prog, fn):
    b = fn.body
    problems = []
    mc, amb = mask_call(prog, fn, 'intersect')
    line = fn.line
    if mc is None:
        problems.append('undecided: no call that computes the layout\'s visit (intersect) mask')
    else:
        line = span_line(mc, fn.line)
        if not range_args_ok(mc):
            problems.append('the visit mask is not computed from (range.min, range.max) in that order')
        cp = mask_chain_problem(prog, mc, 'intersect')
        if cp:
            problems.append(cp)
        ctor = [c for c in b.calls if prog.resolve(c) is not None and any(strip(a) is mc for a in c.args)]
        if not ctor:
            problems.append('the visit mask does not reach the iterator')
        else:
            c = ctor[0]
            t = prog.resolve(c)
            k = [i for i, a in enumerate(c.args) if strip(a) is mc][0] + 1
            # in the constructor: param k feeds the `mask` field and the bit iterator
            tb = t.body
            agg = [v for v in tb._vals if v.kind == 'agg' and v.extra.get('akind') == 'adt' and v.extra.get('variant') and 'mask' in v.extra['variant']['fields']]
            if not agg:
                problems.append('undecided: iterator constructor does not build a value with a mask field')
            else:
                a = agg[0]
                names = a.extra['variant']['fields']
                fm = strip(a.args[names.index('mask')])
                if not (fm.kind == 'param' and fm.args[0] == k):
                    problems.append('the iterator\'s mask field is not the visit mask')
                bi = [strip(x) for n, x in zip(names, a.args) if 'iter' in n]
                if not bi or not (bi[0].kind == 'call' and bi[0].args and strip(bi[0].args[0]).kind == 'param' and strip(bi[0].args[0]).args[0] == k):
                    problems.append('the bit iterator is not built from the visit mask')
                # time passes through
                if 'time' in names:
                    tv = strip(a.args[names.index('time')])
                    if not (tv.kind == 'param' and tv.args[0] - 1 < len(c.args) and strip(c.args[tv.args[0] - 1]).kind == 'param'):
                        problems.append('the iterator\'s time is not the query\'s time parameter')
    sig = 'query(visit-mask agreement)'
    if problems:
        ctx.add(RULE, fn, sig, 'violation', '; '.join(problems[:3]), PROPS + ['C15'], line)
    else:
        ctx.add(RULE, fn, sig, 'ok', 'the visit mask of (min, max) feeds both the bit iterator and the de-duplication mask; time passed through', PROPS + ['C15'], line)


# ---- 3..6 --------------------------------------------------------------------------------------------
def check_next(ctx, prog, fn, report_fn=None):
    b = fn.body
    cfg = b.cfg
    keeps = liveness_keeps(prog, fn)
    loops = cfg.loops()
    # the scan loop: innermost loop containing the expiry test; its cursor = index of the tested item
    if not keeps:
        ctx.add(RULE, fn, 'gate', 'violation', 'undecided: no expiry test with a clean keep/drop split in next()', PROPS, fn.line)
        return
    idx, acc, keep_succ, sw, tval = keeps[0]
    inner = sorted([(len(body), h) for h, body in loops.items() if sw in body])
    if not inner or idx.kind != 'phi' or idx.extra['block'] != inner[0][1]:
        ctx.add(RULE, fn, 'gate', 'violation', 'undecided: the tested item is not designated by the scan loop\'s cursor', PROPS, fn.line)
        return
    header = inner[0][1]
    body = loops[header]
    cursor = idx
    line = b.mir['blocks'][sw]['term']['span'][1]
    # -- 3 gate
    problems = []
    n_yield = 0
    for blk, v in ret_cases(b):
        v = strip(v)
        if v.kind == 'agg' and v.extra.get('variant') and v.extra['variant']['name'] == 'Some':
            n_yield += 1
            item_acc = [x for x in walk(v) if prog.accessor_call(x) is not None and prog.accessor_call(x)[0]['fields'] == ('buffer',)]
            if not item_acc:
                problems.append('a yielded value does not come from a scanned list entry')
                continue
            ok = False
            for (kidx, kacc, ks, sb, tv) in keeps:
                if kacc is item_acc[0] and cfg.pred[ks] == [sb] and cfg.dominates(ks, blk):
                    ok = True
            if not ok:
                problems.append('a value is yielded on a path that does not pass the keep side of the expiry test of that very entry (an expired value can be reported)')
    if n_yield == 0:
        problems.append('undecided: next() never returns Some(..)')
    ctx.add(RULE, fn, 'gate(yield after expiry test)', 'violation' if problems else 'ok',
            '; '.join(problems[:2]) if problems else 'every yielded value passed the keep side of its own expiry test', ['C03'], line)
    problems = []
    # every advance of the cursor passes through the expiry test; staying in place only after a removal
    drop_blocks = None
    for a, p in zip(cursor.args, cursor.extra['preds']):
        if p not in body:
            continue
        sa = strip(a)
        if sa is cursor:
            continue
        if not cfg.dominates(sw, p):
            problems.append('the scan can step over a stored copy without testing its expiration (cursor advanced at bb%d outside the expiry test)' % p)
    ctx.add(RULE, fn, 'gate(every copy stepped over is tested)', 'violation' if problems else 'ok',
            '; '.join(problems[:2]) if problems else 'every copy the scan steps over was tested for expiry (so expired copies in scanned lists are dropped)', ['C16'], line)
    # -- 6 in place
    problems = []
    t = b.mir['blocks'][sw]['term']
    drop_succ = [s for s in cfg.succ[sw] if s != keep_succ]
    removes = [c for c in b.calls if c.callee_name() in ('swap_remove', 'remove') and prog.classify(c) == 'std']
    if len(removes) != 1:
        problems.append('expected exactly one physical removal in the scan, found %d' % len(removes))
    else:
        r = removes[0]
        if not any(cfg.dominates(ds, r.point[0]) for ds in drop_succ):
            problems.append('the physical removal is not on the drop side of the expiry test')
        if strip(r.args[1]) is not cursor:
            problems.append('the removal is applied to position %s, not to the position that was tested' % show(strip(r.args[1]), 3))
        if r.callee_name() == 'swap_remove':
            # the element moved into the cursor slot must be examined: no advance on the path removal -> header
            for a, p in zip(cursor.args, cursor.extra['preds']):
                if p in body and cfg.dominates(r.point[0], p):
                    if strip(a) is not cursor:
                        problems.append('after swap_remove the cursor is advanced: the element moved into the freed slot is skipped')
            # and the path from the removal must return to the loop guard (not leave the loop or fall into the keep path)
            reach = cfg.reachable_from(r.point[0], avoid={header})
            if any(x in reach for x in [keep_succ]) and not cfg.dominates(keep_succ, r.point[0]):
                problems.append('after the removal control continues into the keep path with the stale item')
            exits = [x for x in reach if x not in body and x in cfg.can_return]
            if exits:
                problems.append('after the removal the scan of this list can be abandoned before the guard is re-evaluated')
    # guard re-reads the length
    g = b.switch_discr.get(header)
    gd = strip(g) if g is not None else None
    if gd is None or gd.kind != 'bin' or gd.args[0] not in ('Lt', 'Gt', 'Le', 'Ge', 'Ne'):
        # guard may be in the next block
        gd = None
        for blk in body:
            d = b.switch_discr.get(blk)
            if d is not None and strip(d).kind == 'bin' and any(strip(x) is cursor for x in strip(d).args[1:]) and any(strip(x).kind == 'call' and strip(x).callee_name() == 'len' for x in strip(d).args[1:]):
                gd = strip(d)
    if gd is None:
        problems.append('undecided: no loop guard comparing the cursor with the list length')
    else:
        lens = [strip(x) for x in gd.args[1:] if strip(x).kind == 'call' and strip(x).callee_name() == 'len']
        if not lens or lens[0].point[0] not in body:
            problems.append('the loop guard uses a length read before the loop: after a removal the scan runs past the end')
        op = gd.args[0]
        x, y = strip(gd.args[1]), strip(gd.args[2])
        if not ((op == 'Lt' and x is cursor) or (op == 'Gt' and y is cursor)):
            problems.append('the loop guard is not cursor < len')
    ctx.add(RULE, fn, 'in-place(remove without advancing)', 'violation' if problems else 'ok',
            '; '.join(problems[:2]) if problems else 'expired copy swap_removed at the tested position, cursor unchanged, guard re-reads the length', ['C16', 'C03'], line)
    # -- 4 dedupe
    problems = []
    dd = None
    for blk in body:
        d = b.switch_discr.get(blk)
        if d is None:
            continue
        d = strip(d)
        if d.kind == 'bin' and d.args[0] in ('Eq', 'Ne') and any(x.kind == 'call' and x.callee_name() == 'trailing_zeros' for x in walk(d)):
            dd = (blk, d)
    if dd is None:
        problems.append('undecided: no de-duplication test (trailing_zeros of a mask intersection compared with the current place)')
    else:
        blk, d = dd
        tz = [x for x in walk(d) if x.kind == 'call' and x.callee_name() == 'trailing_zeros'][0]
        inter = strip(tz.args[0])
        sides = [strip(d.args[1]), strip(d.args[2])]
        place = [s for s in sides if not derives(s, tz)]
        if not (inter.kind == 'bin' and inter.args[0] == 'BitAnd'):
            problems.append('the common places are not computed as item.mask & query mask')
        else:
            ops = [strip(inter.args[1]), strip(inter.args[2])]
            item_mask = [o for o in ops if o.kind == 'load' and prog.node_field(o) is not None and prog.node_field(o)[2] is acc and o.fields()[-1:] == ('mask',)]
            self_mask = [o for o in ops if o.kind == 'load' and prog.self_field(o) == ('mask',)]
            if not item_mask:
                problems.append('the de-duplication does not use the mask of the entry being examined')
            if not self_mask:
                problems.append('the de-duplication does not use the query\'s visit mask')
        if not place or not (place[0].kind == 'load' and prog.self_field(place[0]) is not None and place[0] .fields() == acc.args[0].args[1].fields() if False else True):
            pass
        # current place: the same self field that selects the list being scanned
        chunk_call = strip(acc.args[0])
        cacc = prog.accessor_call(chunk_call)
        cur_place = strip(cacc[2]) if cacc else None
        if place and cur_place is not None:
            pf = prog.self_field(place[0]) if place[0].kind == 'load' else None
            cf = prog.self_field(cur_place) if cur_place.kind == 'load' else None
            if pf is None or pf != cf:
                problems.append('the first common place is not compared with the place whose list is being scanned')
        # yield on the equal side only
        tterm = b.mir['blocks'][blk]['term']
        for succ in cfg.succ[blk]:
            tr = edge_truth(tterm, succ)
            if tr is None:
                continue
            equal = tr if d.args[0] == 'Eq' else not tr
            yields = any(cfg.dominates(succ, rb) and strip(v).kind == 'agg' and strip(v).extra.get('variant', {}) and strip(v).extra['variant']['name'] == 'Some' for rb, v in ret_cases(b))
            if yields and not equal:
                problems.append('a copy is reported when the current place is NOT the first common place (duplicates)')
            if equal and not yields:
                problems.append('a copy at its first common place is not reported (losses)')
        # the test must dominate every yield
        for rb, v in ret_cases(b):
            sv = strip(v)
            if sv.kind == 'agg' and sv.extra.get('variant') and sv.extra['variant']['name'] == 'Some' and not cfg.dominates(blk, rb):
                problems.append('a value is yielded without the de-duplication test')
    ctx.add(RULE, fn, 'dedupe(first common place)', 'violation' if problems else 'ok',
            '; '.join(problems[:2]) if problems else 'reported exactly when trailing_zeros(item.mask & visit mask) == the place being scanned', ['C03'], line)
    # -- 5 cursor discipline
    problems = []
    pos_stores = []
    place_stores = []
    chunk_call = strip(acc.args[0])
    cacc = prog.accessor_call(chunk_call)
    place_field = prog.self_field(strip(cacc[2])) if cacc and strip(cacc[2]).kind == 'load' else None
    init_pos = [strip(a) for a, p in zip(cursor.args, cursor.extra['preds']) if p not in body]
    pos_field = prog.self_field(init_pos[0]) if init_pos and init_pos[0].kind == 'load' else None
    if place_field is None or pos_field is None:
        problems.append('undecided: cannot identify the place cursor / position cursor fields of the iterator')
    else:
        for st in b.stores:
            if strip(st.root).kind == 'param' and st.fields() == pos_field:
                pos_stores.append(st)
            if strip(st.root).kind == 'param' and st.fields() == place_field:
                place_stores.append(st)
        # before returning Some: position := cursor + 1 (already advanced)
        for rb, v in ret_cases(b):
            sv = strip(v)
            if sv.kind == 'agg' and sv.extra.get('variant') and sv.extra['variant']['name'] == 'Some':
                dom = [st for st in pos_stores if cfg.dominates(st.point[0], rb) and cfg.dominates(header, st.point[0])]
                if not dom:
                    problems.append('the scan position is not saved before a value is returned (the same copy is reported again)')
                else:
                    val = strip(dom[-1].value)
                    if val.kind == 'load' and val.fields() == ('0',):
                        val = strip(val.args[0])
                    adv = val.kind == 'bin' and val.args[0].startswith('Add') and strip(val.args[1]) is cursor and strip(val.args[2]).is_const(1)
                    if not adv:
                        problems.append('the position saved before returning is %s, not the advanced cursor (cursor + 1)' % show(val, 3))
        # place advance: only via the bit iterator helper, with position := 0 alongside
        for st in place_stores:
            v = strip(st.value)
            tgt = prog.resolve(v) if v.kind == 'call' else None
            if tgt is None or not any(c.callee_name() in ('next', 'find') for c in tgt.body.calls):
                problems.append('the place cursor is assigned %s, not the next selected place from the bit iterator' % show(v, 3))
            zero = [p for p in pos_stores if p.point[0] == st.point[0] or cfg.dominates(st.point[0], p.point[0]) or cfg.dominates(p.point[0], st.point[0])]
            zero = [p for p in zero if strip(p.value).is_const(0)]
            if not zero:
                problems.append('the position is not reset to 0 when the place cursor advances')
            else:
                # the reset and the advance must be in the same straight-line region (outside the scan loop)
                if zero[0].point[0] in body or st.point[0] in body:
                    problems.append('place advance / position reset happen inside the scan loop')
        if not place_stores:
            problems.append('the place cursor is never advanced')
        # find_next helper
        for st in place_stores:
            v = strip(st.value)
            tgt = prog.resolve(v) if v.kind == 'call' else None
            if tgt is not None:
                problems.extend(check_find_next(prog, tgt))
    ctx.add(RULE, fn, 'cursor(discipline)', 'violation' if problems else 'ok',
            '; '.join(problems[:2]) if problems else 'advanced position saved before each yield; place advanced only through the bit iterator with position reset; empty lists skipped, marker only on exhaustion', PROPS, line)


def check_find_next(prog, fn):
    b = fn.body
    cfg = b.cfg
    problems = []
    nexts = [c for c in b.calls if c.callee_name() == 'next']
    finds = [c for c in b.calls if c.callee_name() == 'find' and prog.classify(c) == 'std']
    if not nexts and len(finds) == 1:
        # `bits.find(|&i| !self.chunk(i).is_empty()).unwrap_or(MARKER)`: Iterator::find pulls until the predicate holds
        f = finds[0]
        cl = prog.closures_passed(f)
        if len(cl) != 1:
            return ['undecided: the predicate of the place search is not a closure literal']
        cb = cl[0].body
        for rv in cb.ret_val.values():
            d = strip(rv)
            neg = False
            while d.kind == 'un' and d.args[0] == 'Not':
                d = strip(d.args[1])
                neg = not neg
            if not (d.kind == 'call' and d.callee_name() == 'is_empty'):
                problems.append('undecided: the place search does not select by list emptiness')
            elif not neg:
                problems.append('a place is selected when its list IS empty')
        for blk, v in ret_cases(b):
            v = strip(v)
            if v.kind == 'call' and v.callee_name() == 'unwrap_or' and len(v.args) == 2 and strip(v.args[0]) is f:
                m = strip(v.args[1])
                if not (m.kind == 'const' and isinstance(m.args[0], int) and m.args[0] >= (1 << 16)):
                    problems.append('the exhaustion marker %s is a valid place number' % show(m, 2))
            elif not derives(v, f):
                problems.append('place helper returns %s' % show(v, 3))
        return problems
    if len(nexts) != 1:
        return ['undecided: place helper does not pull from the bit iterator exactly once per round']
    n = nexts[0]
    for blk, v in ret_cases(b):
        v = strip(v)
        if v.kind == 'const':
            # out-of-range marker: only on exhaustion
            sw = [x for x, d in b.switch_discr.items() if any(y is n for y in walk(d))]
            if not sw:
                problems.append('undecided: marker return not tied to iterator exhaustion')
                continue
            t = b.mir['blocks'][sw[0]]['term']
            none_succ = [tb for tv, tb in t['targets'] if tv == 0]
            if not none_succ and [tv for tv, _ in t['targets']] == [1]:
                none_succ = [t['otherwise']]
            if not none_succ or not cfg.dominates(none_succ[0], blk):
                problems.append('the out-of-range marker is returned although selected places remain')
            if v.args[0] is not None and v.args[0] < (1 << 16):
                problems.append('the exhaustion marker %s is a valid place number' % v.args[0])
        elif derives(v, n):
            # conditioned on the list being non-empty
            ok = False
            for s, d in b.switch_discr.items():
                d = strip(d)
                neg = False
                while d.kind == 'un' and d.args[0] == 'Not':
                    d = strip(d.args[1])
                    neg = not neg
                if d.kind == 'call' and d.callee_name() == 'is_empty' and derives(d, n):
                    t = b.mir['blocks'][s]['term']
                    for succ in cfg.succ[s]:
                        tr = edge_truth(t, succ)
                        if tr is None:
                            continue
                        empty = tr != neg
                        if not empty and cfg.dominates(succ, blk):
                            ok = True
                        if empty and cfg.dominates(succ, blk):
                            problems.append('a place is selected when its list IS empty')
            if not ok and not any('IS empty' in p for p in problems):
                pass        # returning a possibly empty place is harmless (the scan loop handles an empty list)
        else:
            problems.append('place helper returns %s' % show(v, 3))
    # skipping: a selected place is passed over (the loop pulls the next one) only on the empty side of its list's emptiness
    # test - a place skipped for any other reason is never scanned, so its expired copies are never dropped (C16) and, if the
    # reason is wrong, its live values never reported (C03)
    loops = cfg.loops()
    inl = [h for h, body in loops.items() if n.point[0] in body]
    if inl:
        h = min(inl, key=lambda x: len(loops[x]))
        body = loops[h]
        empty_edges = set()
        for s0, d0 in b.switch_discr.items():
            d = strip(d0)
            neg = False
            while d.kind == 'un' and d.args[0] == 'Not':
                d = strip(d.args[1])
                neg = not neg
            if d.kind == 'call' and d.callee_name() == 'is_empty' and derives(d, n):
                why_e = emptiness_helper(prog, d)
                if why_e:
                    problems.append(why_e)
                    continue
                t = b.mir['blocks'][s0]['term']
                for succ in set(cfg.succ[s0]):
                    tr = edge_truth(t, succ)
                    if tr is not None and (tr != neg):
                        empty_edges.add((s0, succ))
        # the Some side of the pull
        sw = [x for x, d in b.switch_discr.items() if strip(d).kind == 'discr' and any(y is n for y in walk(d))]
        starts = []
        for x in sw:
            t = b.mir['blocks'][x]['term']
            for tv, tb in t['targets']:
                if tv == 1:
                    starts.append(tb)
            if [tv for tv, _ in t['targets']] == [0]:
                starts.append(t['otherwise'])
        seen, stack = set(), list(starts)
        skipped_nonempty = False
        while stack:
            x = stack.pop()
            if x in seen or x not in body:
                continue
            seen.add(x)
            for s2 in cfg.succ[x]:
                if (x, s2) in empty_edges:
                    continue
                if s2 == h:
                    skipped_nonempty = True
                elif s2 in body:
                    stack.append(s2)
        if skipped_nonempty and starts:
            problems.append('a selected place can be passed over on a path that has not found its list empty: that list is never scanned (expired copies stay, values may be missed)')
    return problems
