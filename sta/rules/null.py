"""NULL: a link is dereferenced only when known not to be EMPTY_REF (DESIGN section 4)."""
from ssa import strip, show
from origins import origins, atom_str
from nullness import NullAnalysis
from engine import span_line

RULE = 'NULL'


def vsig(prog, fn, v, depth=0, _visiting=None):
    """line-free structural signature of an index value"""
    v = strip(v)
    names = fn.body.local_name
    if _visiting is None:
        _visiting = set()
    if v is not None and v.kind == 'phi':
        if v.id in _visiting:
            return '<loop>'
        _visiting = _visiting | {v.id}

    def bsig(b, d):
        if hasattr(b, 'kind'):
            if d > 3:
                return '..'
            return vsig(prog, fn, b, d + 1, _visiting)
        if isinstance(b, tuple) and b[0] == 'link':
            return 'node(%s).%s' % (bsig(b[1], d + 1), b[2])
        if isinstance(b, tuple) and b[0] == 'param':
            return names(b[1])
        if isinstance(b, tuple) and b[0] == 'opaque':
            return b[1]
        return str(b)
    parts = []
    for a in origins(prog, fn, v):
        if a[0] == 'link':
            parts.append('node(%s).%s' % (bsig(a[1], depth), a[2]))
        elif a[0] == 'param':
            parts.append(names(a[1]))
        elif a[0] == 'search':
            parts.append('search:' + a[1])
        elif a[0] in ('elem', 'pop', 'len', 'field'):
            parts.append('%s:%s' % (a[0], '.'.join(a[1]) if a[1] else '?'))
        else:
            parts.append(':'.join(str(x) for x in a))
    return '|'.join(sorted(set(parts)))


# Shape-invariant exception table (frozen after reading each site; one entry covers the three
# copies map/set/key).  key: (function name, signature of the index) -> reason.
R_ROT = ('inner child of a rotated node: the function re-parents its parameter node and moves one of its child links (a rotation); '
         'a rotation is only requested around a node whose inner child exists (insert repair cases 4/5: the red parent and the new node; '
         'delete repair cases 2/5/6: the sibling or its red child); the rotated node itself is checked at every call site by the parameter meet')
R_SIBLING = ('sibling of the examined node in the delete repair: the examined node is known not to be the root (tested against self.root), so it has a parent, '
             'and a double-black node always has a sibling because black heights of the two subtrees were equal before the removal (C02); '
             'accepted only in functions reachable from the removal transaction alone')
R_NIL = ('the sentinel was linked under a NonEmpty parent by create_nil_node/set_nil_parents_child in the same removal (NILSTATE) '
         'and rotations re-parent it only under existing nodes')
R_CLEAR = 'only NonEmpty indices are ever released to the free list (POOL checks every put_back argument)'


def removal_only(prog):
    """functions reachable from a removal transaction but from no public entry point other than through it"""
    key = ('removalonly',)
    if key in prog._summ_cache:
        return prog._summ_cache[key]
    from rules.stale import removal_fns
    rem = removal_fns(prog)
    R = set()
    for f in rem.values():
        R |= {g.path for g in prog.closure(f)}
    I = set()
    stack = [f for f in prog.fns.values() if (f.trait_item or f.vis == 'Public') and not f.is_closure]
    while stack:
        f = stack.pop()
        if f.path in I or f.path in rem:
            continue
        I.add(f.path)
        for _, t in prog.callees(f):
            stack.append(t)
    out = R - I - set(rem)
    prog._summ_cache[key] = out
    return out


def structural_exception(prog, fn, call, idx, na, allow_region=False):
    """reason string if the possibly-empty index is covered by a reasoned shape invariant, recognised structurally
    (no function names): returns None otherwise"""
    from rules.pool import pool_roles
    from summaries import node_writes
    atoms = origins(prog, fn, idx)
    if not atoms:
        return None
    free_fields = {r['free'][-1] for r in pool_roles(prog).values() if r.get('free')}
    if all(a[0] == 'elem' and a[1] and a[1][-1] in free_fields for a in atoms):
        return R_CLEAR
    if all(a[0] == 'link' and a[2] == 'parent' and hasattr(a[1], 'kind') and prog.is_nil_index(a[1]) for a in atoms):
        return R_NIL
    # rotation
    ks = set()
    ok = True
    for a in atoms:
        if a[0] == 'link' and a[2] in ('left', 'right') and hasattr(a[1], 'kind') and strip(a[1]).kind == 'param':
            ks.add(strip(a[1]).args[0])
        else:
            ok = False
    if ok and len(ks) == 1:
        k = next(iter(ks))
        wr = node_writes(prog, fn)
        reparents = any(t == ('param', k) and flds == ('parent',) for (t, flds, vd, site, vv) in wr)
        moves_child = any(t == ('param', k) and flds in (('left',), ('right',)) for (t, flds, vd, site, vv) in wr)
        if reparents and moves_child:
            return R_ROT
    # sibling of a non-root examined node, in the delete repair only
    if fn.path in removal_only(prog):
        st = na.results[fn.path].site_state.get(call.id)
        vals = st[0] if st else frozenset()

        def nonroot_parent_of(base):
            """is `base` the parent link of a node known not to be the root?"""
            if hasattr(base, 'kind'):
                for a2 in origins(prog, fn, base):
                    if not (a2[0] == 'link' and a2[2] == 'parent'):
                        return False
                    x = a2[1]
                    if not hasattr(x, 'kind') or not (('nr', strip(x).id) in vals or na_nonroot_param(na, fn, x)):
                        return False
                return True
            if isinstance(base, tuple) and base[0] == 'link' and base[2] == 'parent':
                x = base[1]
                return hasattr(x, 'kind') and (('nr', strip(x).id) in vals or na_nonroot_param(na, fn, x))
            return False
        if all(a[0] == 'link' and a[2] in ('left', 'right') and nonroot_parent_of(a[1]) for a in atoms):
            return R_SIBLING
    # anywhere inside the rebalancing: the links it follows (uncle, sibling, nephews, grandparent) exist because of the
    # red-black shape invariants, whichever way the cases are written
    if allow_region and fn.path in repair_region(prog) and all(a[0] in ('link', 'param', 'root') for a in atoms):
        return R_REPAIR
    return None


R_REPAIR = ('a link followed inside the rebalancing after an insertion or removal (code that recolours existing nodes, and its '
            'private helpers): uncle, sibling, nephews and grandparent exist by the red-black shape invariants (C02, assumed here; '
            'its structural part is checked by TWIN / LINKPAIR / COLOR / CLIMB)')


def repair_region(prog):
    """functions of the trees that recolour an existing node, plus the private functions reachable from them but from no
    public entry point otherwise"""
    key = ('repairregion',)
    if key in prog._summ_cache:
        return prog._summ_cache[key]
    seeds = set()
    for f in prog.fns.values():
        if f.self_adt not in prog.tree_adts or f.is_closure or f.trait_item:
            continue
        for st in f.body.stores:
            acc = prog.accessor_call(strip(st.root))
            if acc is None or st.fields() != ('color',):
                continue
            x = strip(acc[2])
            if prog.is_nil_index(x):
                continue
            ats = origins(prog, f, x)
            if ats and all(a[0] == 'pop' for a in ats):
                continue        # colouring a freshly allocated node is insertion, not repair
            seeds.add(f.path)
    R = set()
    for pth in seeds:
        for g in prog.closure(prog.fns[pth]):
            if g.self_adt in prog.tree_adts and not g.is_closure and g.path not in prog.accessors:
                R.add(g.path)
    # reachable from a public entry without passing through a recolouring function
    I = set()
    stack = [f for f in prog.fns.values() if (f.trait_item or f.vis == 'Public') and not f.is_closure]
    while stack:
        f = stack.pop()
        if f.path in I or f.path in seeds:
            continue
        I.add(f.path)
        for _, t in prog.callees(f):
            stack.append(t)
    out = (R - I) | seeds
    prog._summ_cache[key] = out
    return out


def na_nonroot_param(na, fn, x):
    x = strip(x)
    return x.kind == 'param' and na.param_nr.get((fn.path, x.args[0]), False)


def props_for(prog, fn):
    props = {'C10'}
    for m in prog.reaching_trait_methods(fn):
        name = m.trait_method() or m.name
        if m.family == 'set' and name in ('index_after', 'index_before'):
            props.add('C09')
        if name in ('delete',) and m.family == 'map':
            props.add('C04')
        if name in ('delete',) and m.family == 'set':
            props.add('C05')
    return props


def run(ctx):
    prog = ctx.prog
    tree_acc = {p: a for p, a in prog.accessors.items() if a['fn'].body.locals[2]['ty'] == 'u32'}
    assumed = set()
    reasons = {}
    na = None
    region_phase = False        # the region-wide reason is the last resort: first the precise shape invariants to a fixpoint
    for _ in range(10):
        na = NullAnalysis(prog, assumed).solve()
        new = set()
        for fn in prog.fns.values():
            r = na.results[fn.path]
            for call in fn.body.calls:
                tgt = prog.resolve(call)
                if tgt is None or tgt.path not in tree_acc:
                    continue
                flags = r.arg_nonempty.get(call.id)
                if flags is None or flags[1]:
                    continue
                why = structural_exception(prog, fn, call, strip(call.args[1]), na, region_phase)
                if why:
                    new.add((fn.path, strip(call.args[1]).id))
                    reasons[(fn.path, strip(call.args[1]).id)] = why
            # the same shape invariants cover index arguments handed to crate functions (e.g. a merged helper)
            for call in fn.body.calls:
                tgt = prog.resolve(call)
                if tgt is None or tgt.path in tree_acc or tgt.self_adt not in prog.tree_adts:
                    continue
                flags = r.arg_nonempty.get(call.id)
                if flags is None:
                    continue
                for k in na.u32_params(tgt):
                    if k - 1 < len(flags) and not flags[k - 1] and not prog.is_empty_ref(call.args[k - 1]):
                        why = structural_exception(prog, fn, call, strip(call.args[k - 1]), na, region_phase)
                        if why:
                            new.add((fn.path, strip(call.args[k - 1]).id))
                            reasons[(fn.path, strip(call.args[k - 1]).id)] = why
        if new <= assumed:
            if region_phase:
                break
            region_phase = True
            continue
        assumed |= new
    ctx.null_analysis = na
    n_sites = 0
    per_module = {}
    for fn in prog.fns.values():
        r = na.results[fn.path]
        props = None
        for call in fn.body.calls:
            tgt = prog.resolve(call)
            if tgt is None or tgt.path not in tree_acc:
                continue
            flags = r.arg_nonempty.get(call.id)
            if flags is None:
                continue        # unreachable block
            n_sites += 1
            per_module[fn.module] = per_module.get(fn.module, 0) + 1
            if props is None:
                props = props_for(prog, fn)
            idx = strip(call.args[1])
            sg = vsig(prog, fn, idx)
            sig = 'deref %s(%s)' % (tgt.name, sg)
            line = span_line(call, fn.line)
            trivial = idx.kind == 'const'
            if (fn.path, idx.id) in assumed:
                ctx.add(RULE, fn, sig, 'exception', 'index may be EMPTY_REF by dataflow; accepted: ' + reasons.get((fn.path, idx.id), ''), props, line,
                        {'index': show(idx, 4)})
            elif flags[1]:
                ctx.add(RULE, fn, sig, 'ok', 'index proven != EMPTY_REF at the dereference', props, line, {'index': show(idx, 4)}, nontrivial=not trivial)
            else:
                callers = sorted({c.name for _, c in prog.callers(fn)})
                ctx.add(RULE, fn, sig, 'violation',
                        '%s(%s) may be called with EMPTY_REF: no dominating test against EMPTY_REF and no reasoned shape invariant covers it' % (tgt.name, show(idx, 3)),
                        props, line, {'index': show(idx, 4), 'signature': sg, 'callers': callers,
                                      'param_facts': {fn.body.local_name(k): na.param_fact.get((fn.path, k)) for k in na.u32_params(fn)}})
    ctx.stat(RULE, accessor_sites=n_sites, per_module=per_module, rounds=na.rounds, assumptions=len(assumed))
