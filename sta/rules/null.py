"""NULL: a link is dereferenced only when known not to be EMPTY_REF (DESIGN section 4)."""
from ssa import strip, show
from origins import origins, atom_str
from nullness import NullAnalysis
from engine import span_line

RULE = 'NULL'


def vsig(prog, fn, v, depth=0, _visiting=None):
    """line-free structural signature of an index value"""
    v = strip(v)
    names = fn.body.local_name
    if _visiting is None:
        _visiting = set()
    if v is not None and v.kind == 'phi':
        if v.id in _visiting:
            return '<loop>'
        _visiting = _visiting | {v.id}

    def bsig(b, d):
        if hasattr(b, 'kind'):
            if d > 3:
                return '..'
            return vsig(prog, fn, b, d + 1, _visiting)
        if isinstance(b, tuple) and b[0] == 'link':
            return 'node(%s).%s' % (bsig(b[1], d + 1), b[2])
        if isinstance(b, tuple) and b[0] == 'param':
            return names(b[1])
        if isinstance(b, tuple) and b[0] == 'opaque':
            return b[1]
        return str(b)
    parts = []
    for a in origins(prog, fn, v):
        if a[0] == 'link':
            parts.append('node(%s).%s' % (bsig(a[1], depth), a[2]))
        elif a[0] == 'param':
            parts.append(names(a[1]))
        elif a[0] == 'search':
            parts.append('search:' + a[1])
        elif a[0] in ('elem', 'pop', 'len', 'field'):
            parts.append('%s:%s' % (a[0], '.'.join(a[1]) if a[1] else '?'))
        else:
            parts.append(':'.join(str(x) for x in a))
    return '|'.join(sorted(set(parts)))


# Shape-invariant exception table (frozen after reading each site; one entry covers the three
# copies map/set/key).  key: (function name, signature of the index) -> reason.
R_ROT = ('a rotation is only requested around a node whose inner child exists (insert repair cases 4/5: the red parent and the new node; '
         'delete repair cases 2/5/6: the sibling or its red child); the rotated node itself is checked at every call site by the parameter meet')
R_UNCLE = 'the only caller returns before the call when the grandparent link is EMPTY_REF (the test dominates the call, no write in between)'
R_PARENT = ('the examined node is not the root (fix_red_black_properties_after_delete returns on n_index == root before any of this runs) '
            'and only the root has an empty parent link')
R_SIBLING = 'a double-black node always has a sibling: black heights of the two subtrees were equal before the removal (C02)'
R_NIL = ('the sentinel was linked under a NonEmpty parent by create_nil_node/set_nil_parents_child in the same removal (NILSTATE) '
         'and rotations re-parent it only under existing nodes')
R_CLEAR = 'only NonEmpty indices are ever released to the free list (POOL checks every put_back argument)'
EXCEPTIONS = {
    ('rotate_right', 'node(index).left'): R_ROT,
    ('rotate_left', 'node(index).right'): R_ROT,
    ('get_uncle', 'node(p_index).parent'): R_UNCLE,
    ('get_sibling', 'node(n_index).parent'): R_PARENT,
    ('handle_red_sibling', 'node(n_index).parent'): R_PARENT,
    ('handle_black_sibling_with_at_least_one_red_child', 'node(n_index).parent'): R_PARENT,
    ('fix_red_black_properties_after_delete', 'node(n_index).parent'): R_PARENT,
    ('fix_red_black_properties_after_delete', 'node(node(n_index).parent).left|node(node(n_index).parent).right'): R_SIBLING,
    ('handle_black_sibling_with_at_least_one_red_child', 'node(node(n_index).parent).right'): R_SIBLING,
    ('handle_black_sibling_with_at_least_one_red_child', 'node(node(n_index).parent).left'): R_SIBLING,
    ('fix_parents_nil_child', 'node(const:NIL_INDEX).parent'): R_NIL,
    ('clear', 'elem:store.unused'): R_CLEAR,
}


def props_for(prog, fn):
    props = {'C10'}
    for m in prog.reaching_trait_methods(fn):
        name = m.trait_method() or m.name
        if m.family == 'set' and name in ('index_after', 'index_before'):
            props.add('C09')
        if name in ('delete',) and m.family == 'map':
            props.add('C04')
        if name in ('delete',) and m.family == 'set':
            props.add('C05')
    return props


def run(ctx):
    prog = ctx.prog
    tree_acc = {p: a for p, a in prog.accessors.items() if a['fn'].body.locals[2]['ty'] == 'u32'}
    assumed = set()
    na = None
    for _ in range(6):
        na = NullAnalysis(prog, assumed).solve()
        new = set()
        for fn in prog.fns.values():
            r = na.results[fn.path]
            for call in fn.body.calls:
                tgt = prog.resolve(call)
                if tgt is None or tgt.path not in tree_acc:
                    continue
                flags = r.arg_nonempty.get(call.id)
                if flags is None or flags[1]:
                    continue
                key = (fn.name, vsig(prog, fn, call.args[1]))
                if key in EXCEPTIONS:
                    new.add((fn.path, strip(call.args[1]).id))
        if new <= assumed:
            break
        assumed |= new
    ctx.null_analysis = na
    n_sites = 0
    per_module = {}
    for fn in prog.fns.values():
        r = na.results[fn.path]
        props = None
        for call in fn.body.calls:
            tgt = prog.resolve(call)
            if tgt is None or tgt.path not in tree_acc:
                continue
            flags = r.arg_nonempty.get(call.id)
            if flags is None:
                continue        # unreachable block
            n_sites += 1
            per_module[fn.module] = per_module.get(fn.module, 0) + 1
            if props is None:
                props = props_for(prog, fn)
            idx = strip(call.args[1])
            sg = vsig(prog, fn, idx)
            sig = 'deref %s(%s)' % (tgt.name, sg)
            line = span_line(call, fn.line)
            trivial = idx.kind == 'const'
            if (fn.path, idx.id) in assumed:
                ctx.add(RULE, fn, sig, 'exception', 'index may be EMPTY_REF by dataflow; accepted: ' + EXCEPTIONS[(fn.name, sg)], props, line,
                        {'index': show(idx, 4)})
            elif flags[1]:
                ctx.add(RULE, fn, sig, 'ok', 'index proven != EMPTY_REF at the dereference', props, line, {'index': show(idx, 4)}, nontrivial=not trivial)
            else:
                callers = sorted({c.name for _, c in prog.callers(fn)})
                ctx.add(RULE, fn, sig, 'violation',
                        '%s(%s) may be called with EMPTY_REF: no dominating test against EMPTY_REF and no reasoned shape invariant covers it' % (tgt.name, show(idx, 3)),
                        props, line, {'index': show(idx, 4), 'signature': sg, 'callers': callers,
                                      'param_facts': {fn.body.local_name(k): na.param_fact.get((fn.path, k)) for k in na.u32_params(fn)}})
    ctx.stat(RULE, accessor_sites=n_sites, per_module=per_module, rounds=na.rounds, assumptions=len(assumed))
