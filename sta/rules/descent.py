"""DESCENT: decision table of every key-ordered descent loop (DESIGN section 4).

For every loop that compares a *stored key* (payload of the arena element designated by a
loop-carried cursor) with a probe, the behaviour under the three possible orderings
stored<probe / stored=probe / stored>probe is extracted from MIR (direction of the next
cursor, whether a result is recorded, whether the current element is returned) and compared
with the table demanded by the public trait method through which the loop is reached."""
from ssa import strip, show, walk
from origins import origins, LINKS, atom_str
from engine import span_line

RULE = 'DESCENT'

# role by public trait method name
ROLE_BY_METHOD = {
    'get_value': 'EXACT', 'delete': 'EXACT',
    'first_less': 'PRED_LT',
    'first_less_or_equal': 'PRED_LE', 'first_less_or_equal_by': 'PRED_LE',
    'first_index_less': 'PRED_LE', 'first_index_less_by': 'PRED_LE',
    'insert': 'INSERT',
}

# properties served, by (family, trait method)
PROPS = {
    ('key', 'get_value'): ['C06'],
    ('key', 'first_less'): ['C01'],
    ('key', 'first_less_or_equal'): ['C01'],
    ('key', 'first_less_or_equal_by'): ['C01'],
    ('key', 'insert'): ['C01', 'C06', 'C07'],
    ('map', 'get_value'): ['C04'],
    ('map', 'delete'): ['C04'],
    ('map', 'insert'): ['C04', 'C08'],
    ('map', 'first_index_less'): ['C08'],
    ('map', 'first_index_less_by'): ['C08'],
    ('set', 'get_value'): ['C05'],
    ('set', 'delete'): ['C05'],
    ('set', 'insert'): ['C05', 'C08', 'C09'],
    ('set', 'first_index_less'): ['C08'],
    ('set', 'first_index_less_by'): ['C08'],
}

# expected tables: rel -> (dir, record?, return_current?)   None = don't care
EXPECT = {
    'EXACT':   {'<': ('R', False, False), '=': ('-', False, True),  '>': ('L', False, False)},
    'PRED_LE': {'<': ('R', True,  False), '=': ('-', False, True),  '>': ('L', False, False)},
    'PRED_LT': {'<': ('R', True,  False), '=': ('L', False, False), '>': ('L', False, False)},
    'INSERT':  {'<': ('R', None,  None),  '=': None,                '>': ('L', None,  None)},
}

CMP_METHODS = ('cmp', 'lt', 'le', 'gt', 'ge', 'eq', 'ne', 'partial_cmp')


def stored_key(prog, v, depth=0):
    """(index Val, fields) if v designates (part of) the payload of an arena element"""
    if v is None or depth > 8:
        return None
    if v.kind in ('load', 'ref'):
        nf = prog.node_field(v)
        if nf is not None:
            idx, fields, _ = nf
            if fields and fields[0] not in LINKS and fields[0] != 'color':
                return idx, fields
            return None
        return stored_key(prog, v.args[0], depth + 1)
    if v.kind == 'call':
        name = v.callee_name()
        if prog.classify(v) == 'callback' and prog.callback_kind(v) == 'key' and v.args:
            return stored_key(prog, v.args[0], depth + 1)
        if name in ('deref', 'borrow', 'as_ref', 'clone') and v.args:
            return stored_key(prog, v.args[0], depth + 1)
        return None
    if v.kind == 'agg' and v.extra['akind'] == 'tuple' and len(v.args) == 1:
        return stored_key(prog, v.args[0], depth + 1)
    if v.kind == 'cast':
        return stored_key(prog, v.args[0], depth + 1)
    return None


def compare_sites(prog, fn):
    """callback calls that compare a stored key: list of dicts"""
    out = []
    b = fn.body
    for call in b.calls:
        if prog.classify(call) != 'callback':
            continue
        kind = prog.callback_kind(call)
        site = None
        if kind == 'compare' and call.callee_name() in CMP_METHODS and len(call.args) == 2:
            s0 = stored_key(prog, call.args[0])
            s1 = stored_key(prog, call.args[1])
            if s0 and not s1:
                site = {'call': call, 'stored_arg': 0, 'idx': strip(s0[0]), 'fields': s0[1], 'method': call.callee_name()}
            elif s1 and not s0:
                site = {'call': call, 'stored_arg': 1, 'idx': strip(s1[0]), 'fields': s1[1], 'method': call.callee_name()}
            elif s0 and s1:
                site = {'call': call, 'stored_arg': 2, 'idx': strip(s0[0]), 'fields': s0[1], 'method': call.callee_name()}
        elif kind == 'closure' and len(call.args) == 2:
            s = stored_key(prog, call.args[1])
            if s:
                site = {'call': call, 'stored_arg': 0, 'idx': strip(s[0]), 'fields': s[1], 'method': 'closure'}
        if site:
            out.append(site)
    return out


from evalrel import FLIP, ORD_NAME, Evaluator, region, resolve_phi


def derives_from(v, target, limit=200):
    n = 0
    for x in walk(v):
        n += 1
        if x is target:
            return True
        if n > limit:
            break
    return False


def link_summary(prog, fn, _stack=None):
    """set of (param_k, field): fn (transitively) writes a freshly allocated slot index into
    node(Param k).field for field in left/right"""
    key = ('linksum', fn.path)
    if key in prog._summ_cache:
        return prog._summ_cache[key]
    _stack = _stack or set()
    if fn.path in _stack:
        return set()
    _stack = _stack | {fn.path}
    out = set()
    b = fn.body
    for st in b.stores:
        a = prog.accessor_call(st.root)
        if a is None:
            continue
        f = st.fields()
        if len(f) == 1 and f[0] in ('left', 'right'):
            idx = strip(a[2])
            val = strip(st.value)
            if idx.kind == 'param' and val.kind != 'const':
                ats = origins(prog, fn, val)
                if ats and all(a[0] == 'pop' for a in ats):
                    out.add((idx.args[0], f[0]))
    for call, tgt in prog.callees(fn):
        if call.kind != 'call' or tgt.is_closure:
            continue
        for (k, f) in link_summary(prog, tgt, _stack):
            if k - 1 < len(call.args):
                a = strip(call.args[k - 1])
                if a.kind == 'param':
                    out.add((a.args[0], f))
    prog._summ_cache[key] = out
    return out


def analyse_loop(prog, fn, header, loop_blocks, sites):
    """extract the decision table of one descent loop"""
    b = fn.body
    cursor = sites[0]['idx']
    header_phis = {ph.id: ph for ph in b.phis.get(header, {}).values()}
    res = {'cursor': cursor, 'rels': {}, 'undecided': [], 'header': header}
    # start evaluation at the block of the first compare call (in RPO)
    first = min(sites, key=lambda s: b.cfg.rpo.index(s['call'].point[0]))
    start = first['call'].point[0]
    other_phis = [ph for ph in header_phis.values() if ph is not cursor]
    for rel in ('<', '=', '>'):
        ev = Evaluator(prog, sites, rel)
        blocks, edges, undec = region(b, ev, start, header, loop_blocks)
        if undec:
            res['undecided'].extend(undec)
        back = [(p, h) for (p, h) in edges if h == header]
        nexts = []
        if back:
            nexts = resolve_phi_header(cursor, edges, header, header_phis)
        rets = []
        for rb in b.cfg.returns:
            if rb in blocks:
                rets.extend(resolve_phi(b.ret_val[rb], edges, header_phis))
        recs = {}
        for q in other_phis:
            if back:
                vals = resolve_phi_header(q, edges, header, header_phis)
                recs[q.id] = [x for x in vals if x is not q]
        calls = [c for c in b.calls if c.point[0] in blocks]
        loops_back = bool(back)
        # flag idiom: the path sets a loop-carried flag to a constant and the loop guard then leaves the loop
        if back:
            binds = {}
            for q in other_phis:
                vals = resolve_phi_header(q, edges, header, header_phis)
                consts = {x.args[0] for x in vals if x.kind == 'const' and x.args[0] is not None and (x.ty in ('bool',) or isinstance(x.args[0], int))}
                if vals and len(consts) == 1 and all(x.kind == 'const' for x in vals):
                    c0 = consts.pop()
                    binds[q.id] = bool(c0) if q.ty == 'bool' else c0
            if binds:
                ev2 = Evaluator(prog, sites, rel)
                ev2.env = binds
                blocks2, edges2, undec2 = region(b, ev2, header, header, loop_blocks)
                exits_only = not any(h2 == header for (_, h2) in edges2) and not undec2 and not any(x in blocks2 for x in [s['call'].point[0] for s in sites])
                if exits_only:
                    # the loop is left right after this iteration: what is returned is what the carried variables hold now
                    bound = {q.id: resolve_phi_header(q, edges, header, header_phis) for q in header_phis.values()}
                    rets2 = []
                    for rb in b.cfg.returns:
                        if rb in blocks2:
                            for rv in resolve_phi(b.ret_val[rb], edges2, header_phis):
                                if rv.id in bound:
                                    rets2.extend(bound[rv.id])
                                else:
                                    rets2.append(rv)
                    rets = rets + rets2
                    nexts = []
                    recs = {}
                    loops_back = False
        # what happens if the loop is left right after this iteration (the cursor's new value ends it): the code behind the
        # loop, with the flags this iteration has just set (`go_left = key < node_key; .. } if go_left { link left } ..`)
        post_calls, post_bound = [], {}
        if back:
            binds3 = {}
            for q in other_phis:
                vals = resolve_phi_header(q, edges, header, header_phis)
                evals = set()
                for x in vals:
                    if x.kind == 'const' and x.args[0] is not None:
                        evals.add(bool(x.args[0]) if q.ty == 'bool' else x.args[0])
                    else:
                        try:
                            e_ = ev.ev(x)
                        except Exception:
                            e_ = None
                        evals.add(e_ if isinstance(e_, (bool, int)) else None)
                if vals and len(evals) == 1 and None not in evals:
                    binds3[q.id] = evals.pop()
                post_bound[q.id] = vals
            ev3 = Evaluator(prog, sites, rel)
            ev3.env = binds3
            try:
                blocks3, edges3, undec3 = region(b, ev3, header, header, loop_blocks)
            except Exception:
                blocks3, undec3 = set(), [1]
            if not undec3:
                post_calls = [c for c in b.calls if c.point[0] in blocks3 and c.point[0] not in loop_blocks]
        res['rels'][rel] = {'blocks': blocks, 'edges': edges, 'nexts': nexts, 'rets': rets, 'recs': recs,
                            'calls': calls, 'loops_back': loops_back, 'post_calls': post_calls, 'post_bound': post_bound}
    return res


def resolve_phi_header(hphi, edges, header, header_phis):
    """values flowing into the header phi `hphi` over traversed back edges"""
    out = []
    for a, p in zip(hphi.args, hphi.extra['preds']):
        if (p, header) in edges:
            out.extend(resolve_phi(a, edges, header_phis))
    return out


def direction(prog, fn, vals, cursor):
    """'L' / 'R' / '?' for the set of next-cursor values"""
    dirs = set()
    for v in vals:
        for a in origins(prog, fn, v):
            if a[0] == 'link' and a[2] in ('left', 'right'):
                base = a[1]
                if hasattr(base, 'kind') and strip(base) is cursor:
                    dirs.add('L' if a[2] == 'left' else 'R')
                    continue
                dirs.add('?' + atom_str(a))
            elif a[0] == 'const' and a[1] == 'EMPTY_REF':
                # a gate may return EMPTY_REF; that is the value of an empty link and ends the loop
                continue
            else:
                dirs.add('?' + atom_str(a))
    if not dirs:
        return '-'
    if len(dirs) == 1:
        return dirs.pop()
    return '?' + '|'.join(sorted(dirs))


def describe_role_sources(prog, fn):
    ms = prog.reaching_trait_methods(fn)
    return [(m.family, m.trait_method() or m.name) for m in ms if m.trait_item]


def run(ctx):
    prog = ctx.prog
    found = []
    seen_roles = {}
    for fn in prog.fns.values():
        if fn.is_closure:
            continue
        sites = compare_sites(prog, fn)
        if not sites:
            continue
        b = fn.body
        loops = b.cfg.loops()
        # group sites by innermost loop whose header phi is the cursor
        groups = {}
        for s in sites:
            blk = s['call'].point[0]
            cands = [(len(body), h) for h, body in loops.items() if blk in body]
            idx = s['idx']
            placed = False
            for _, h in sorted(cands):
                if idx.kind == 'phi' and idx.extra['block'] == h:
                    groups.setdefault(h, []).append(s)
                    placed = True
                    break
            if not placed:
                groups.setdefault(None, []).append(s)
        sources = describe_role_sources(prog, fn)
        for h, ss in groups.items():
            if h is None:
                # comparison of a stored key outside a cursor loop: not a descent; GATE looks at it
                continue
            roles = sorted({ROLE_BY_METHOD[m] for (_, m) in sources if m in ROLE_BY_METHOD})
            props = set()
            for (fam, m) in sources:
                props.update(PROPS.get((fam, m), []))
            line = span_line(ss[0]['call'], fn.line)
            info = analyse_loop(prog, fn, h, loops[h], ss)
            table = {}
            details = {'roles': roles, 'reached_from': sorted('%s::%s' % x for x in sources)}
            # a loop-carried variable is a record only if it can reach what the function returns (a shared descent helper
            # may maintain a candidate that this caller never looks at)
            used_ids = set()
            for rv in b.ret_val.values():
                for x in walk(rv):
                    used_ids.add(x.id)
            for rel, r in info['rels'].items():
                d = direction(prog, fn, r['nexts'], info['cursor']) if r['loops_back'] else '-'
                live_recs = {q: vals for q, vals in r['recs'].items() if q in used_ids}
                rec = any(any(derives_from(x, info['cursor']) for x in vals) for vals in live_recs.values())
                rec_other = any(any(not derives_from(x, info['cursor']) for x in vals) for vals in live_recs.values())
                retcur = bool(r['rets']) and all(derives_from(x, info['cursor']) for x in r['rets'])
                retother = bool(r['rets']) and not retcur
                table[rel] = {'dir': d, 'record': rec, 'return_current': retcur, 'record_other': rec_other,
                              'return_other': retother,
                              'next': [show(x, 4) for x in r['nexts']], 'ret': [show(x, 4) for x in r['rets']]}
            details['table'] = {k: {kk: vv for kk, vv in v.items()} for k, v in table.items()}
            sig = 'loop(cursor=%s)' % b.local_name(info['cursor'].extra['local'])
            found.append((fn, roles))
            if not roles:
                ctx.add(RULE, fn, sig, 'violation', 'descent loop is not reachable from any public trait method with a known role; cannot decide its table', props or ['C10'], line, details)
                continue
            if info['undecided']:
                ctx.add(RULE, fn, sig, 'violation', 'undecided: a branch depends on the comparison result in a form the rule cannot evaluate (blocks %s)' % sorted(set(info['undecided'])), props, line, details)
                continue
            problems = []
            for role in roles:
                exp = EXPECT[role]
                for rel in ('<', '=', '>'):
                    e = exp[rel]
                    if e is None:
                        continue
                    t = table[rel]
                    ed, erec, eret = e
                    if t['dir'] != ed:
                        problems.append('%s: stored%sprobe goes %s, expected %s' % (role, rel, t['dir'], ed))
                    if erec is not None and t['record'] != erec:
                        problems.append('%s: stored%sprobe %s the current entry, expected %s' % (role, rel, 'records' if t['record'] else 'does not record', 'record' if erec else 'no record'))
                    if erec is not None and t['record_other']:
                        problems.append('%s: stored%sprobe records a value not derived from the current entry' % (role, rel))
                    if eret is not None and t['return_current'] != eret:
                        problems.append('%s: stored%sprobe %s, expected %s' % (role, rel, 'returns the current entry' if t['return_current'] else 'does not return the current entry', 'return current' if eret else 'continue'))
                    if eret is not None and t['return_other'] and not eret:
                        problems.append('%s: stored%sprobe returns early' % (role, rel))
                    if eret and t['return_other']:
                        problems.append('%s: stored%sprobe returns something not derived from the current entry' % (role, rel))
                problems.extend(check_frame(prog, fn, info, role, table))
            for role in roles:
                seen_roles.setdefault((fn.family, role), 0)
                seen_roles[(fn.family, role)] += 1
            if problems:
                ctx.add(RULE, fn, sig, 'violation', '; '.join(problems), props, line, details)
            else:
                ctx.add(RULE, fn, sig, 'ok', 'table matches %s' % '/'.join(roles), props, line, details)
    # anchors: every implementation of a role-bearing trait method on a tree must reach a descent loop
    check_anchors(ctx, found)
    ctx.stat(RULE, loops=len(found))


def check_frame(prog, fn, info, role, table):
    """initial cursor, loop guard, exit result, insert linking"""
    problems = []
    b = fn.body
    cursor = info['cursor']
    header = info['header']
    loops = b.cfg.loops()
    body = loops[header]
    # initial cursor: operands from outside the loop
    for a, p in zip(cursor.args, cursor.extra['preds']):
        if p in body:
            continue
        for at in origins(prog, fn, a):
            if at != ('root',):
                problems.append('%s: initial cursor comes from %s, expected the root' % (role, atom_str(at)))
    if role == 'INSERT':
        # on the branch with direction d, an empty child must be followed by linking as child d under the cursor
        for rel, want in (('<', 'right'), ('>', 'left')):
            r = info['rels'][rel]
            links = set()
            ev_rel = Evaluator(prog, compare_sites(prog, fn), rel)
            for c in r['calls']:
                tgt = prog.resolve(c)
                if tgt is None:
                    continue
                # a side flag computed from the comparison (`as_left = key < node_key`) decides inside the callee:
                # take the callee as specialised on the flag's value under this ordering
                consts = {}
                for i, a in enumerate(c.args):
                    if (a.ty or '') == 'bool' or strip(a).ty == 'bool':
                        try:
                            val = ev_rel.ev(a)
                        except Exception:
                            val = None
                        if isinstance(val, bool):
                            consts[i + 1] = int(val)
                if consts:
                    tgt = prog.specialise(tgt, consts)
                for (k, f) in link_summary(prog, tgt):
                    if k - 1 < len(c.args):
                        parent = strip(c.args[k - 1])
                        links.add((f, parent is cursor))
            if not links:
                # the linking sits behind the loop, chosen by a flag this iteration set
                for c in r.get('post_calls', []):
                    tgt = prog.resolve(c)
                    if tgt is None:
                        continue
                    for (k, f) in link_summary(prog, tgt):
                        if k - 1 < len(c.args):
                            parent = strip(c.args[k - 1])
                            carried = r.get('post_bound', {}).get(parent.id)
                            links.add((f, parent is cursor or (carried is not None and bool(carried) and all(strip(x) is cursor for x in carried))))
            # linking written out in place: node(P).left|right := freshly allocated slot
            for st in b.stores:
                if st.point[0] not in r['blocks']:
                    continue
                acc = prog.accessor_call(strip(st.root))
                fl = st.fields()
                if acc is None or len(fl) != 1 or fl[0] not in ('left', 'right') or strip(st.value).kind == 'const':
                    continue
                ats = origins(prog, fn, st.value)
                if ats and all(a[0] == 'pop' for a in ats):
                    links.add((fl[0], strip(acc[2]) is cursor))
            if not links:
                problems.append('INSERT: stored%sprobe: no linking call found on the path' % rel)
            for (f, under_cursor) in links:
                if f != want:
                    problems.append('INSERT: stored%sprobe links the new node as %s child, expected %s' % (rel, f, want))
                if not under_cursor:
                    problems.append('INSERT: stored%sprobe links the new node under something other than the last compared node' % rel)
        return problems
    # loop guard: the header (or a block before the compare) tests cursor != EMPTY_REF and leaves on equality
    guard_ok = False
    for blk in body:
        d = b.switch_discr.get(blk)
        if d is None:
            continue
        d = strip(d)
        if d.kind == 'bin' and d.args[0] in ('Ne', 'Eq'):
            x, y = strip(d.args[1]), strip(d.args[2])
            if (x is cursor and prog.is_empty_ref(y)) or (y is cursor and prog.is_empty_ref(x)):
                guard_ok = True
    if not guard_ok:
        problems.append('%s: loop is not guarded by cursor != EMPTY_REF' % role)
    # exit result: values returned on paths that leave the loop without any comparison outcome region
    rel_ret_blocks = set()
    exit_vals = []
    cmp_blocks = set()
    for rel in ('<', '=', '>'):
        cmp_blocks |= info['rels'][rel]['blocks']
    hp = {ph.id: ph for ph in b.phis.get(header, {}).values()}
    for rb in b.cfg.returns:
        rv = b.ret_val[rb]
        rv = strip(rv)
        if rv.kind == 'phi' and rv.id not in hp:
            for a, p in zip(rv.args, rv.extra['preds']):
                if p not in cmp_blocks:
                    exit_vals.append(a)
        elif rb not in cmp_blocks:
            exit_vals.append(rv)
    for v in exit_vals:
        v = strip(v)
        if role == 'EXACT':
            ok = prog.is_empty_ref(v) or (v.kind == 'agg' and v.extra.get('variant') and v.extra['variant']['name'] == 'None')
            if not ok:
                problems.append('EXACT: loop exit returns %s, expected None / EMPTY_REF' % show(v, 3))
        else:
            # recorded variable (header phi whose initial value is a parameter or EMPTY_REF)
            ok = False
            if v.kind == 'phi' and v.id in hp and v is not cursor:
                inits = [strip(a) for a, p in zip(v.args, v.extra['preds']) if p not in body]
                ok = all(i.kind == 'param' or prog.is_empty_ref(i) for i in inits)
            # the candidate kept as an Option: `below.unwrap_or(default)` with below = None initially
            if not ok and v.kind == 'call' and v.callee_name() in ('unwrap_or', 'unwrap_or_default') and v.args:
                q = strip(v.args[0])
                while q.kind == 'call' and q.callee_name() == 'or' and len(q.args) == 2 and is_none(strip(q.args[0])):
                    q = strip(q.args[1])        # None.or(x) == x  (the exact hit did not happen on this path)
                dflt = strip(v.args[1]) if len(v.args) > 1 else None
                if q.kind == 'phi' and q.id in hp and q is not cursor and (dflt is None or dflt.kind == 'param'):
                    inits = [strip(a) for a, p in zip(q.args, q.extra['preds']) if p not in body]
                    ok = all(is_none(i) for i in inits)
            if not ok:
                problems.append('%s: loop exit returns %s, expected the recorded result (initially the default / EMPTY_REF)' % (role, show(v, 3)))
    return problems


def is_none(v):
    return v is not None and v.kind == 'agg' and v.extra.get('variant') and v.extra['variant'].get('name') == 'None'


def check_anchors(ctx, found):
    prog = ctx.prog
    # for each trait-impl method with a role implemented by a type that owns an arena accessor in its module
    fns_with_loop = {fn.path for fn, _ in found}
    trees = prog.tree_adts
    for fam, fprops in (('map', ['C04', 'C08']), ('set', ['C05', 'C08']), ('key', ['C01', 'C06'])):
        if not any(t.split('::')[0] == fam for t in trees):
            ctx.anchor_missing(RULE, 'tree ADT of the %s family (struct with a pool and a root link)' % fam, fprops, 0, 1)
    for fn in prog.fns.values():
        m = fn.trait_method()
        if not m or m not in ROLE_BY_METHOD or fn.self_adt not in trees:
            continue
        closure = prog.closure(fn)
        if not any(f.path in fns_with_loop for f in closure):
            ctx.add(RULE, fn, 'anchor:%s' % m, 'violation',
                    'anchor-missing: %s reaches no key-ordered descent loop (role %s)' % (m, ROLE_BY_METHOD[m]),
                    PROPS.get((fn.family, m), ['C10']))
