"""ENDSENT, NEIGHBOUR, HANDLE (DESIGN section 4; C13, C09, C08).

ENDSENT   every implementation of index_after / index_before yields EMPTY_REF exactly at the end of the sequence
          (list: decided over the cases "at the end" / "not at the end" with linear position arithmetic;
           tree: the climb's result is the parent link, which is EMPTY_REF above the root).
NEIGHBOUR role table of the set tree's neighbour steps: test the X link, descend through the opposite link,
          otherwise climb while arriving from the X side, guarded, and return the parent link.
HANDLE    handles are passed through unchanged: value_by_index[_mut](h) designates the value of slot h itself,
          delete_by_index(h) removes slot h itself."""
from ssa import strip, show, walk
from origins import origins, ret_summary, atom_str, LINKS
from engine import span_line

# ---------------------------------------------------------------------------------------------


def lin(prog, fn, v, depth=0):
    """linear form over (p = the index parameter, L = buffer length): dict {'p': a, 'L': b, 1: c} or None;
    the special value 'EMPTY' for the sentinel"""
    v = strip(v)
    if v is None or depth > 10:
        return None
    if prog.is_empty_ref(v):
        return 'EMPTY'
    if v.kind == 'const' and isinstance(v.args[0], int):
        return {1: v.args[0]}
    if v.kind == 'param' and v.args[0] == 2:
        return {'p': 1}
    if v.kind == 'call' and v.callee_name() == 'len':
        return {'L': 1}
    if v.kind == 'load' and v.fields() == ('0',) and strip(v.args[0]).kind == 'bin':
        return lin(prog, fn, v.args[0], depth + 1)
    if v.kind == 'call' and v.callee_name() in ('wrapping_sub', 'wrapping_add') and prog.classify(v) == 'std' and len(v.args) == 2 and (v.ty or '') == 'u32':
        # modular arithmetic on the handle type: the form carries the marker 'w' (a result of -1 IS u32::MAX)
        a, b = lin(prog, fn, v.args[0], depth + 1), lin(prog, fn, v.args[1], depth + 1)
        if isinstance(a, dict) and isinstance(b, dict) and 'w' not in a and 'w' not in b:
            s = 1 if v.callee_name() == 'wrapping_add' else -1
            out = dict(a)
            for k, c in b.items():
                out[k] = out.get(k, 0) + s * c
            out['w'] = 1
            return out
        return None
    if v.kind == 'bin':
        op = v.args[0].replace('WithOverflow', '').replace('Unchecked', '')
        a, b = lin(prog, fn, v.args[1], depth + 1), lin(prog, fn, v.args[2], depth + 1)
        if (isinstance(a, dict) and 'w' in a) or (isinstance(b, dict) and 'w' in b):
            return None
        if isinstance(a, dict) and isinstance(b, dict) and op in ('Add', 'Sub'):
            s = 1 if op == 'Add' else -1
            out = dict(a)
            for k, c in b.items():
                out[k] = out.get(k, 0) + s * c
            return out
    return None


def subst(form, case):
    """evaluate a linear form under a case; returns ('const', c) or ('range', lo, hi) bounds (None = unbounded)"""
    a, b, c = form.get('p', 0), form.get('L', 0), form.get(1, 0)
    if case == 'LAST':          # p = L - 1, L >= 1
        b2 = b + a
        c2 = c - a
        if b2 == 0:
            return ('const', c2)
        return ('range', c2 + b2, None) if b2 > 0 else ('range', None, c2 + b2)     # L >= 1
    if case == 'NOTLAST':       # 0 <= p <= L - 2
        if a == -b:
            # a*(p - L) + c, p - L <= -2
            if a > 0:
                return ('range', None, c - 2 * a)
            if a < 0:
                return ('range', c - 2 * a, None)
            return ('const', c)
        if b == 0:
            return ('range', c, None) if a > 0 else (('range', None, c) if a < 0 else ('const', c))
        return None
    if case == 'FIRST':         # p = 0
        if b == 0:
            return ('const', c)
        return None
    if case == 'NOTFIRST':      # p >= 1
        if b == 0:
            if a > 0:
                return ('range', c + a, None)
            if a < 0:
                return ('range', None, c + a)
            return ('const', c)
        return None
    return None


def decide_cmp(op, x, y, case):
    """truth of x op y under the case (forms), or None"""
    diff = dict(x)
    for k, c in y.items():
        diff[k] = diff.get(k, 0) - c
    r = subst(diff, case)
    if r is None:
        return None
    if r[0] == 'const':
        d = r[1]
        return {'Lt': d < 0, 'Le': d <= 0, 'Gt': d > 0, 'Ge': d >= 0, 'Eq': d == 0, 'Ne': d != 0}[op]
    lo, hi = r[1], r[2]
    if op in ('Lt', 'Le', 'Gt', 'Ge'):
        bound = 0
        if op == 'Lt':
            if hi is not None and hi < 0:
                return True
            if lo is not None and lo >= 0:
                return False
        if op == 'Le':
            if hi is not None and hi <= 0:
                return True
            if lo is not None and lo > 0:
                return False
        if op == 'Gt':
            if lo is not None and lo > 0:
                return True
            if hi is not None and hi <= 0:
                return False
        if op == 'Ge':
            if lo is not None and lo >= 0:
                return True
            if hi is not None and hi < 0:
                return False
    if op in ('Eq', 'Ne'):
        if (lo is not None and lo > 0) or (hi is not None and hi < 0):
            return op == 'Ne'
    return None


def list_step(ctx, prog, fn, direction):
    """decide a list implementation of index_after (+1) / index_before (-1)"""
    b = fn.body
    props = ['C13']
    cases = ('LAST', 'NOTLAST') if direction > 0 else ('FIRST', 'NOTFIRST')
    problems = []
    table = {}
    from evalrel import resolve_phi
    for case in cases:
        # walk the CFG deciding every branch that is a comparison of linear forms
        blocks, edges = set(), set()
        stack = [0]
        while stack:
            x = stack.pop()
            if x in blocks:
                continue
            blocks.add(x)
            succs = list(b.cfg.succ[x])
            t = b.mir['blocks'][x]['term']
            if t['k'] == 'switch' and x in b.switch_discr:
                d = strip(b.switch_discr[x])
                val = None
                if d.kind == 'bin' and d.args[0] in ('Lt', 'Le', 'Gt', 'Ge', 'Eq', 'Ne'):
                    fa, fb = lin(prog, fn, d.args[1]), lin(prog, fn, d.args[2])
                    if isinstance(fa, dict) and isinstance(fb, dict) and 'w' not in fa and 'w' not in fb:
                        val = decide_cmp(d.args[0], fa, fb, case)
                        if val is None:
                            # a position compared with a constant next to u32::MAX: a handle in contract is a position, and
                            # EMPTY_REF = u32::MAX is none (`index.checked_add(1)` succeeds for every position)
                            def huge(f_):
                                return set(f_) <= {1} and f_.get(1, 0) >= 2 ** 32 - 16
                            def smallpos(f_):
                                return all(k_ == 1 or v_ >= 0 for k_, v_ in f_.items()) and abs(f_.get(1, 0)) <= 8 and any(k_ != 1 for k_ in f_)
                            if huge(fb) and smallpos(fa):
                                val = {'Lt': True, 'Le': True, 'Gt': False, 'Ge': False, 'Ne': True, 'Eq': False}[d.args[0]]
                            elif huge(fa) and smallpos(fb):
                                val = {'Lt': False, 'Le': False, 'Gt': True, 'Ge': True, 'Ne': True, 'Eq': False}[d.args[0]]
                    elif (fa == 'EMPTY') != (fb == 'EMPTY'):
                        val = None
                if val is None and d.kind != 'bin':
                    # integer switch: `match index { 0 => .., i => .. }`
                    fd = lin(prog, fn, d)
                    if isinstance(fd, dict):
                        chosen = None
                        undec = False
                        for tv, tb in t['targets']:
                            r = decide_cmp('Eq', fd, {1: tv}, case)
                            if r is True:
                                chosen = tb
                            elif r is None:
                                undec = True
                        if chosen is None and not undec:
                            chosen = t['otherwise']
                        if chosen is not None and not undec:
                            for s2 in [chosen]:
                                edges.add((x, s2))
                                stack.append(s2)
                            continue
                if val is None:
                    if any(s2 not in b.cfg.can_return for s2 in succs):
                        succs = [s2 for s2 in succs if s2 in b.cfg.can_return]
                    else:
                        problems.append('undecided: cannot evaluate the branch %s when the handle is %s' % (show(d, 3), case))
                else:
                    iv = int(val)
                    chosen = t['otherwise']
                    for tv, tb in t['targets']:
                        if tv == iv:
                            chosen = tb
                    succs = [chosen]
            if t['k'] == 'assert':
                # an overflow / bounds assertion on the path: a panic is possible unless the condition is decided
                succs = [t['target']]
            for s2 in succs:
                edges.add((x, s2))
                stack.append(s2)
        res = []
        for rb in b.cfg.returns:
            if rb in blocks:
                for rv in resolve_phi(b.ret_val[rb], edges, {}):
                    res.append(lin(prog, fn, rv))
        table[case] = [('EMPTY' if r == 'EMPTY' else (None if r is None else dict(r))) for r in res]
        at_end = case in ('LAST', 'FIRST')
        for r in res:
            if isinstance(r, dict) and 'w' in r:
                # a wrapped form: exact when it stays within the type; -1 is the type's largest value
                r = {k: c for k, c in r.items() if k != 'w'}
                ev = subst(r, case)
                if ev == ('const', -1) and prog.EMPTY_REF == 2 ** 32 - 1:
                    r = 'EMPTY'
                elif not (ev is not None and ((ev[0] == 'const' and 0 <= ev[1]) or (ev[0] == 'range' and ev[1] is not None and ev[1] >= 0))):
                    r = None
            if at_end:
                if r != 'EMPTY':
                    problems.append('a step from the %s position returns %s instead of EMPTY_REF' % ('last' if direction > 0 else 'first', r))
            else:
                want = {'p': 1, 1: direction}
                if r == 'EMPTY' or not isinstance(r, dict) or {k: c for k, c in r.items() if c} != want:
                    problems.append('a step from an inner position returns %s instead of position %+d' % (r, direction))
        if not res:
            problems.append('no result when the handle is %s' % case)
    sig = 'list-step'
    if problems:
        ctx.add('ENDSENT', fn, sig, 'violation', '; '.join(sorted(set(problems))[:3]), props + ['C10'], fn.line, {'table': table})
    else:
        ctx.add('ENDSENT', fn, sig, 'ok', 'position %+d inside the sequence, EMPTY_REF exactly at the %s position' % (direction, 'last' if direction > 0 else 'first'), props, fn.line, {'table': table})


def with_climb_helpers(prog, fn):
    """the step function with private helpers that contain the upward loop spliced in (a climb extracted into a helper
    is still the step's own climb); the function itself if there is nothing to splice"""
    import copy, inline
    from program import Fn
    b = fn.body
    if b.cfg.loops():
        return fn
    sites = []
    for c in b.calls:
        tgt = prog.resolve(c)
        if tgt is None or tgt.is_closure or tgt.trait_item or tgt.self_adt != fn.self_adt or tgt.path in prog.accessors or not tgt.info.get('mir'):
            continue
        tb = tgt.body
        loops = tb.cfg.loops()
        if not loops:
            continue
        climbs = any(v.kind == 'load' and v.point and any(v.point[0] in body for body in loops.values()) and prog.node_field(v) and prog.node_field(v)[1] == ('parent',) for v in tb._vals)
        if climbs and not inline.recursive(prog, tgt):
            sites.append((c.point[0], tgt))
    if not sites:
        return fn
    host = copy.deepcopy(fn.info['mir'])
    for blk, tgt in sites:
        t = host['blocks'][blk]['term']
        if t['k'] == 'call':
            inline.splice(host, blk, tgt.info['mir'], t['args'], t['dest'], t.get('target'), t['span'], tgt.name)
    info = dict(fn.info)
    info['mir'] = host
    nf = Fn(prog, info)
    return nf


def tree_step(ctx, prog, fn, direction):
    """NEIGHBOUR + ENDSENT for the tree implementation"""
    report_fn = fn
    fn = with_climb_helpers(prog, fn)
    b = fn.body
    props = ['C09']
    X = 'right' if direction > 0 else 'left'
    Y = 'left' if direction > 0 else 'right'
    problems = []
    # (a) the child test on the handle's node
    child_test = None
    for bb, d in b.switch_discr.items():
        d = strip(d)
        if d.kind == 'bin' and d.args[0] in ('Ne', 'Eq'):
            x, y = strip(d.args[1]), strip(d.args[2])
            for p, q in ((x, y), (y, x)):
                nf = prog.node_field(p) if p.kind == 'load' else None
                if nf and prog.is_empty_ref(q) and strip(nf[0]).kind == 'param' and len(nf[1]) == 1:
                    child_test = (bb, nf[1][0], p)
    if child_test is None:
        problems.append('no test of a child link of the handle\'s node')
    elif child_test[1] != X:
        problems.append('tests the %s link of the node; the %s neighbour needs the %s subtree' % (child_test[1], 'next' if direction > 0 else 'previous', X))
    # (b) descent helper: called with that child, follows only the opposite link
    desc_ok = False
    for c in b.calls:
        tgt = prog.resolve(c)
        if tgt is None or tgt.path in prog.accessors or len(c.args) < 2:
            continue
        ats = origins(prog, fn, c.args[1])
        if any(a[0] == 'link' and a[2] == X and hasattr(a[1], 'kind') and strip(a[1]).kind == 'param' for a in ats):
            summ = ret_summary(prog, tgt)
            fields = set()

            def collect(a):
                if a[0] == 'link':
                    fields.add(a[2])
                    base = a[1]
                    if isinstance(base, tuple) and base and base[0] == 'link':
                        collect(base)
            for a in summ:
                collect(a)
            if fields == {Y}:
                desc_ok = True
            else:
                problems.append('the helper %s called on the %s child walks %s links; the nearest neighbour is reached through %s links only' % (tgt.name, X, sorted(fields) or 'no', Y))
            # its result must be what is returned on that path
    if not desc_ok and not any('helper' in p for p in problems):
        problems.append('no descent into the %s subtree through a minimum/maximum helper' % X)
    # (c) climb loop
    loops = b.cfg.loops()
    climb = None
    for h, body in loops.items():
        phis = b.phis.get(h, {})
        for bb in body:
            d = b.switch_discr.get(bb)
            if d is None:
                continue
            d = strip(d)
            if d.kind == 'bin' and d.args[0] in ('Ne', 'Eq'):
                x, y = strip(d.args[1]), strip(d.args[2])
                for p, q in ((x, y), (y, x)):
                    nf = prog.node_field(p) if p.kind == 'load' else None
                    if nf and len(nf[1]) == 1 and nf[1][0] in ('left', 'right') and q.kind in ('phi', 'param') and strip(nf[0]).kind == 'phi':
                        climb = (h, body, bb, d, nf[1][0], strip(nf[0]), q)
    if climb is None:
        problems.append('no climb loop comparing a child link of the parent with the current node')
    else:
        h, body, bb, d, side, P, I = climb
        if side != X:
            problems.append('the climb continues while the current node is the %s child; for the %s neighbour it must continue while arriving from the %s' % (side, 'next' if direction > 0 else 'previous', X))
        # continue edge = equal side
        from rules.gate import edge_truth
        t = b.mir['blocks'][bb]['term']
        for succ in b.cfg.succ[bb]:
            tr = edge_truth(t, succ)
            if tr is None:
                continue
            equal = tr if d.args[0] == 'Eq' else not tr
            stays = succ in body and any(h in b.cfg.reachable_from(succ) for _ in [0]) and b.cfg.paths_avoiding(bb, h, set()) and succ in b.cfg.can_reach([h]) and loops_back(b, succ, h, body)
            if equal and not stays:
                problems.append('the climb stops when the current node IS the %s child of its parent' % side)
            if not equal and stays:
                problems.append('the climb continues when the current node is NOT the %s child of its parent' % side)
        # the parent cursor advances through the parent link, the node cursor becomes the old parent
        adv = [a for a, p in zip(P.args, P.extra['preds']) if p in body]
        for a in adv:
            ats = origins(prog, fn, a)
            if not all(x[0] == 'link' and x[2] == 'parent' for x in ats):
                problems.append('the climb does not advance through the parent link (%s)' % ', '.join(atom_str(x) for x in ats))
        if I.kind == 'phi':
            nxt = [strip(a) for a, p in zip(I.args, I.extra['preds']) if p in body]
            if any(a is not P for a in nxt):
                problems.append('the current-node cursor of the climb is not set to the old parent')
        else:
            problems.append('the climb compares every ancestor with the original node: the current-node cursor is never advanced to the parent')
        # result of the climb path: the parent cursor (EMPTY_REF above the root)
        from rules.gate import ret_cases
        rc = list(ret_cases(b))
        rets = [v for blk, v in rc]
        if not any(v is P for v in rets):
            problems.append('the climb does not return the parent link it stopped at (EMPTY_REF above the root)')
        for blk, v in rc:
            if v is P:
                continue
            if prog.is_empty_ref(v) and known_empty_at(prog, b, P, blk):
                continue        # the parent cursor, spelled as the constant it was just compared equal to
            if v.kind == 'call' and prog.resolve(v) is not None and prog.resolve(v).path not in prog.accessors:
                continue        # the descent helper's result
            problems.append('a path returns %s, which is neither the descent result nor the parent link the climb stopped at' % show(v, 3))
    if problems:
        ctx.add('NEIGHBOUR', fn, 'tree-step', 'violation', '; '.join(problems[:3]), props, fn.line)
    else:
        ctx.add('NEIGHBOUR', fn, 'tree-step', 'ok', 'tests the %s link, descends through %s links, climbs while arriving from the %s, returns the parent link' % (X, Y, X), props, fn.line)
        ctx.add('ENDSENT', fn, 'tree-step', 'ok', 'at the extreme entry the climb ends with the empty parent link of the root: EMPTY_REF', props + ['C13'], fn.line)


def known_empty_at(prog, b, P, blk):
    """block blk is dominated by the edge of a comparison on which value P equals EMPTY_REF"""
    from rules.gate import edge_truth
    for sblk, d in b.switch_discr.items():
        d = strip(d)
        if not (d.kind == 'bin' and d.args[0] in ('Eq', 'Ne')):
            continue
        x, y = strip(d.args[1]), strip(d.args[2])
        if not ((x is P and prog.is_empty_ref(y)) or (y is P and prog.is_empty_ref(x))):
            continue
        t = b.mir['blocks'][sblk]['term']
        for succ in b.cfg.succ[sblk]:
            tr = edge_truth(t, succ)
            if tr is None:
                continue
            if (tr if d.args[0] == 'Eq' else not tr) and b.cfg.pred[succ] == [sblk] and b.cfg.dominates(succ, blk):
                return True
    return False


def loops_back(b, succ, header, body):
    """can succ reach the header staying inside the loop body?"""
    seen = set()
    stack = [succ]
    while stack:
        x = stack.pop()
        if x == header:
            return True
        if x in seen or x not in body:
            continue
        seen.add(x)
        stack.extend(b.cfg.succ[x])
    return False


def run_handles(ctx):
    prog = ctx.prog
    from rules.stale import removal_fns
    removals = removal_fns(prog)
    n = 0
    for fn in prog.fns.values():
        m = fn.trait_method()
        if m not in ('value_by_index', 'value_by_index_mut', 'delete_by_index') or fn.family not in ('map', 'set'):
            continue
        b = fn.body
        n += 1
        props = ['C08'] + (['C13'] if fn.self_adt in prog.list_adts else [])
        if m.startswith('value_by_index'):
            ok = True
            why = ''
            for rv in b.ret_val.values():
                rv = strip(rv)
                if rv.kind not in ('ref', 'load', 'call'):
                    ok, why = False, 'result is not a reference into the collection'
                    continue
                if fn.self_adt in prog.tree_adts:
                    nf = prog.node_field(rv)
                    if nf is None or not (strip(nf[0]).kind == 'param' and strip(nf[0]).args[0] == 2):
                        ok, why = False, 'does not designate the slot of the handle itself (%s)' % show(rv, 3)
                    elif not nf[1] or nf[1][0] in LINKS or nf[1][0] == 'color':
                        ok, why = False, 'does not designate the value part of the payload'
                    elif fn.family == 'map' and nf[1][-1] != 'val':
                        ok, why = False, 'designates %s instead of the value' % '.'.join(nf[1])
                else:
                    root = rv if rv.kind == 'call' else strip(rv.args[0])
                    if not (root.kind == 'call' and root.callee_name() in ('get_unchecked', 'get_unchecked_mut', 'index', 'index_mut') and len(root.args) == 2):
                        ok, why = False, 'not an element of the buffer'
                    else:
                        pos = strip(root.args[1])
                        if not (pos.kind == 'param' and pos.args[0] == 2):
                            ok, why = False, 'position is %s, not the handle itself' % show(pos, 3)
                        elif fn.family == 'map' and (rv.kind == 'call' or rv.fields()[-1:] != ('val',)):
                            ok, why = False, 'designates the whole entry instead of the value'
            ctx.add('HANDLE', fn, 'pass-through', 'ok' if ok else 'violation', 'returns the value of the slot designated by the handle itself' if ok else why, props, fn.line)
        else:
            ok = False
            why = 'the handle is not passed to the removal'
            for c in b.calls:
                tgt = prog.resolve(c)
                if tgt is not None and tgt.path in removals:
                    a = strip(c.args[1])
                    ok = a.kind == 'param' and a.args[0] == 2
                    why = '' if ok else 'removal is applied to %s, not to the handle itself' % show(a, 3)
                elif c.callee_name() == 'remove' and prog.classify(c) == 'std' and len(c.args) == 2:
                    a = strip(c.args[1])
                    ok = a.kind == 'param' and a.args[0] == 2
                    why = '' if ok else 'remove is applied to position %s, not to the handle itself' % show(a, 3)
                elif c.callee_name() in ('swap_remove', 'truncate', 'pop', 'drain'):
                    ok, why = False, 'uses %s, which does not keep the order' % c.callee_name()
                    break
            if ok:
                # unconditionally: the removing call is on every path through the method
                rc = [c for c in b.calls if (prog.resolve(c) is not None and prog.resolve(c).path in removals) or (c.callee_name() == 'remove' and prog.classify(c) == 'std')]
                if not rc or not all(b.cfg.dominates(rc[0].point[0], r) for r in b.cfg.returns):
                    ok, why = False, 'the removal is conditional: some path through delete_by_index returns without removing the designated entry'
            ctx.add('HANDLE', fn, 'pass-through', 'ok' if ok else 'violation', 'removes the slot designated by the handle itself, on every path' if ok else why, props, fn.line)
    if n < 12:
        ctx.anchor_missing('HANDLE', 'handle methods of the four map/set collections', ['C08'], n, 12)


def run(ctx):
    prog = ctx.prog
    n = 0
    for fn in prog.fns.values():
        m = fn.trait_method()
        if m not in ('index_after', 'index_before'):
            continue
        n += 1
        d = 1 if m == 'index_after' else -1
        if fn.self_adt in prog.tree_adts:
            tree_step(ctx, prog, fn, d)
        else:
            list_step(ctx, prog, fn, d)
    for m in ('index_after', 'index_before'):
        for kind, adts in (('tree', prog.tree_adts), ('list', prog.list_adts)):
            if not any(f.trait_method() == m and f.self_adt in adts for f in prog.fns.values()):
                ctx.anchor_missing('ENDSENT', '%s of the set %s' % (m, kind), ['C09', 'C13'] if kind == 'list' else ['C09'], 0, 1)
    run_handles(ctx)
