"""HEAPMASK - the two mask computations of the bucket heap walk the same implicit heap and combine the right way (C15; C03 rides on it).

The layout of the segment tree is a compile-time constant: 2^POWER leaves, leaf b at heap position b + (2^POWER - 1), children
of p at 2p+1 and 2p+2.  Which heap positions the two mask functions touch, and in which order, does not depend on the range
they are given - only the BITS they read there do.  The rule therefore separates the two:

 schedule   the index slice of each function (loop counters, shift amounts) is folded by constant propagation - loops with
            constant trip counts are unrolled in the analysis, the range arguments and the mask words stay opaque.  Every
            round of the inner loop yields update records `word[j] |= f(word[i1], word[i2])` with concrete j, i1, i2 and f a
            boolean function given by its truth table over the bits read.
 visit      the records are exactly: for every internal node p, once, after the records of its internal children:
            W[p] |= W[2p+1] OR W[2p+2]                       (upward closure of the leaf bits)
 place      the records are exactly: for every internal node p, once, children first:
            W[p] |= W[2p+1] AND W[2p+2]                      (a parent absorbs two selected children)
            M[2p+1] |= W[2p+1] AND NOT(W[2p+1] AND W[2p+2])   (an unabsorbed selected child is emitted)
            M[2p+2] |= W[2p+2] AND NOT(W[2p+1] AND W[2p+2])
            the result is M, started at 0; the only other answer is the root bit, returned exactly when the range is the whole domain
 leaves     both start from the same fill of (start, end) in that order; a coordinate is moved to its leaf by adding 2^POWER - 1;
            the fill is 2^(end+1) - 2^start (exponent algebra over the expression, no evaluation)

With these, the place mask is the set of maximal nodes all of whose leaves are selected (they tile [a,b]), the visit mask is the
set of nodes with a selected leaf below them, and the two meet iff the ranges share a leaf - the paper argument is in DESIGN 10.17.
What is NOT decided: the count bound (<= 8 copies) - it follows from the tiling by arithmetic this rule does not do.

A computation in a shape the folding cannot follow (closed forms, iterator adaptors, extra answers that do not come out of the
walk) is reported as undecided - fail closed, like every other rule.
"""
import itertools
from origins import strip, show
from engine import span_line

RULE = 'HEAPMASK'
PROPS = ['C15', 'C03']


class Undecided(Exception):
    pass


# ---- abstract values -------------------------------------------------------------------------------------------------------
class Opaque:
    """an input-dependent scalar the analysis does not look into"""
    def __init__(self, what):
        self.what = what

    def __repr__(self):
        return 'opaque(%s)' % self.what


class Word:
    """a mask word: base variable + the bit updates made to it in this round  {bit: formula}"""
    def __init__(self, var, ups=None):
        self.var = var
        self.ups = dict(ups or {})


class Shifted:
    """word >> i  (only useful when masked with 1)"""
    def __init__(self, var, i):
        self.var, self.i = var, i


class Bit:
    """a 0/1 value: boolean formula over atoms (var, bit)"""
    def __init__(self, f):
        self.f = f          # ('atom', var, i) | ('not', f) | ('and', f, g) | ('or', f, g) | ('xor', f, g) | ('const', 0/1)


class Window:
    """(word >> i) & (2^k - 1): k adjacent bits read as a small number"""
    def __init__(self, var, i, k):
        self.var, self.i, self.k = var, i, k


class NotBit:
    """!(0/1 value) on the full word"""
    def __init__(self, f):
        self.f = f


class Dep:
    """bits deposited at positions  {bit: formula}  (a 0/1 value shifted left)"""
    def __init__(self, ups):
        self.ups = dict(ups)


def atoms_of(f, out=None):
    out = out if out is not None else []
    if f[0] == 'atom':
        if f not in out:
            out.append(f)
    elif f[0] != 'const':
        for g in f[1:]:
            atoms_of(g, out)
    return out


def ev_formula(f, env):
    k = f[0]
    if k == 'atom':
        return env[f]
    if k == 'const':
        return bool(f[1])
    if k == 'not':
        return not ev_formula(f[1], env)
    a, b = ev_formula(f[1], env), ev_formula(f[2], env)
    return (a and b) if k == 'and' else ((a or b) if k == 'or' else (a != b))


def truth_table(f, atoms):
    return tuple(ev_formula(f, dict(zip(atoms, vals))) for vals in itertools.product((False, True), repeat=len(atoms)))


def merge_or(ups, more):
    out = dict(ups)
    for j, f in more.items():
        out[j] = ('or', out[j], f) if j in out else f
    return out


# ---- the folding evaluator ---------------------------------------------------------------------------------------------------
class Folder:
    def __init__(self, prog, fn, words):
        self.prog, self.fn, self.b = prog, fn, fn.body
        self.words = words            # phi id -> var name, for the phis that carry a mask word
        self.env = {}                 # phi id -> current value
        self.steps = 0
        self.params = None

    def ev(self, v, depth=0):
        v = strip(v)
        if v is None or depth > 60:
            raise Undecided('expression too deep')
        k = v.kind
        if k == 'const':
            if isinstance(v.args[0], (int, bool)):
                return int(v.args[0])
            raise Undecided('constant %s' % show(v, 1))
        if k == 'param':
            if self.params is not None and 0 <= v.args[0] - 1 < len(self.params):
                return self.params[v.args[0] - 1]
            return Opaque('arg%d' % v.args[0])
        if k == 'phi':
            if v.id in self.env:
                return self.env[v.id]
            raise Undecided('merge %s outside the loops followed' % show(v, 2))
        if k == 'cast':
            return self.ev(v.args[0], depth + 1)
        if k == 'load':
            base = strip(v.args[0])
            if base is not None and base.kind == 'bin' and tuple(v.args[1]) == ('0',):
                return self.ev(base, depth + 1)
            if base is not None and base.kind == 'call' and base.callee_name() == 'next' and tuple(v.args[1])[:2] == ('as:Some', '0') and len(v.args[1]) == 2 and ('it', base.id) in self.env:
                return self.env[('it', base.id)]        # the loop variable of the round
            raise Undecided('read %s' % show(v, 2))
        if k == 'un':
            a = self.ev(v.args[1], depth + 1)
            if v.args[0] == 'Not' and isinstance(a, Bit):
                return NotBit(a.f)       # all upper bits set, bit 0 = not f: a 0/1 value again once masked by one
            if isinstance(a, int) and v.args[0] == 'Neg':
                return -a
            raise Undecided('operator %s' % v.args[0])
        if k == 'bin':
            op = v.args[0].replace('WithOverflow', '').replace('Unchecked', '')
            return self.binop(op, self.ev(v.args[1], depth + 1), self.ev(v.args[2], depth + 1), v)
        if k == 'call':
            return self.call(v, depth)
        raise Undecided('value %s' % show(v, 2))

    def call(self, v, depth):
        prog = self.prog
        tgt = prog.resolve(v)
        nm = v.callee_name()
        if tgt is not None and not tgt.is_closure and tgt.info.get('mir') and not tgt.body.cfg.loops() and len(tgt.body.cfg.returns) == 1 and depth < 40:
            # a loop-free helper of the layout (`parent(i)`, `order_to_heap_index`): its result in terms of the arguments
            args = [self.ev(a, depth + 1) for a in v.args]
            if any(isinstance(a, (Word, Shifted, Dep)) for a in args):
                raise Undecided('mask word handed to %s' % nm)
            sub = Folder(prog, tgt, {})
            sub.params = args
            tb = tgt.body
            return sub.ev(tb.ret_val[tb.cfg.returns[0]], depth + 1)
        if nm in ('from', 'into') and len(v.args) == 1 and prog.classify(v) == 'std':
            a = self.ev(v.args[0], depth + 1)
            if isinstance(a, (Bit, int)):
                return a            # bool -> integer: still the same 0/1 value
        raise Undecided('call of %s' % nm)

    def binop(self, op, a, b, v):
        if isinstance(a, int) and isinstance(b, int):
            if op == 'Add':
                return a + b
            if op == 'Sub':
                return a - b
            if op == 'Mul':
                return a * b
            if op == 'Div' and b != 0:
                return a // b if a >= 0 else -((-a) // b)
            if op == 'Rem' and b != 0:
                return a % b
            if op == 'Shl' and 0 <= b < 64:
                return a << b
            if op == 'Shr' and 0 <= b < 64:
                return a >> b
            if op == 'BitAnd':
                return a & b
            if op == 'BitOr':
                return a | b
            if op == 'BitXor':
                return a ^ b
            if op in ('Lt', 'Le', 'Gt', 'Ge', 'Eq', 'Ne'):
                return int({'Lt': a < b, 'Le': a <= b, 'Gt': a > b, 'Ge': a >= b, 'Eq': a == b, 'Ne': a != b}[op])
            raise Undecided('arithmetic %s' % op)
        if isinstance(a, Opaque) or isinstance(b, Opaque):
            return Opaque('%s' % op)
        # ---- mask words ----
        if op == 'Shr' and isinstance(a, Word) and isinstance(b, int):
            if a.ups:
                raise Undecided('a word read after it was updated in the same round')
            return Shifted(a.var, b)
        if op == 'BitAnd':
            for x, y in ((a, b), (b, a)):
                if isinstance(x, Shifted) and y == 1:
                    return Bit(('atom', x.var, x.i))
                if isinstance(x, Shifted) and isinstance(y, int) and y > 1 and (y & (y + 1)) == 0 and y.bit_length() <= 4:
                    return Window(x.var, x.i, y.bit_length())
                if isinstance(x, Bit) and y == 1:
                    return x
                if isinstance(x, Bit) and isinstance(y, Bit):
                    return Bit(('and', x.f, y.f))
                if isinstance(x, Bit) and isinstance(y, NotBit):
                    return Bit(('and', x.f, ('not', y.f)))
                if isinstance(x, NotBit) and y == 1:
                    return Bit(('not', x.f))
        if op in ('Eq', 'Ne', 'Gt', 'Lt'):
            for x, y, o in ((a, b, op), (b, a, {'Gt': 'Lt', 'Lt': 'Gt'}.get(op, op))):
                if isinstance(x, Window) and isinstance(y, int):
                    ats = [('atom', x.var, x.i + j) for j in range(x.k)]
                    full = (1 << x.k) - 1
                    f = None
                    if y == 0 and o in ('Ne', 'Gt'):
                        f = ats[0]
                        for t in ats[1:]:
                            f = ('or', f, t)
                    elif y == 0 and o == 'Eq':
                        f = ats[0]
                        for t in ats[1:]:
                            f = ('or', f, t)
                        f = ('not', f)
                    elif y == full and o in ('Eq', 'Ne'):
                        f = ats[0]
                        for t in ats[1:]:
                            f = ('and', f, t)
                        if o == 'Ne':
                            f = ('not', f)
                    if f is not None:
                        return Bit(f)
                if isinstance(x, Bit) and y in (0, 1) and o in ('Eq', 'Ne'):
                    return Bit(x.f if (y == 1) == (o == 'Eq') else ('not', x.f))
        if op in ('BitOr', 'BitXor') and isinstance(a, Bit) and isinstance(b, Bit):
            return Bit(('or' if op == 'BitOr' else 'xor', a.f, b.f))
        if op == 'BitXor':
            for x, y in ((a, b), (b, a)):
                if isinstance(x, Bit) and y == 1:
                    return Bit(('not', x.f))
        if op == 'Shl' and isinstance(a, Bit) and isinstance(b, int) and 0 <= b < 64:
            return Dep({b: a.f})
        if op == 'Shl' and a == 1 and isinstance(b, int) and 0 <= b < 64:
            return 1 << b
        if op == 'BitOr':
            for x, y in ((a, b), (b, a)):
                if isinstance(x, Word) and isinstance(y, Dep):
                    return Word(x.var, merge_or(x.ups, y.ups))
                if isinstance(x, Dep) and isinstance(y, Dep) and x is not y:
                    return Dep(merge_or(x.ups, y.ups))
                if isinstance(x, Dep) and y == 0:
                    return x
            if isinstance(a, Dep) and isinstance(b, Dep):
                return Dep(merge_or(a.ups, b.ups))
        if op == 'Mul':
            for x, y in ((a, b), (b, a)):
                if isinstance(x, Bit) and isinstance(y, int) and y > 0 and (y & (y - 1)) == 0:
                    return Dep({y.bit_length() - 1: x.f})
        raise Undecided('operation %s on mask values at %s' % (op, show(v, 2)))


def iter_values(fo, b, src, depth=0):
    """the values a `for` loop's iterator yields, folded: half-open and inclusive ranges, reversed, stepped"""
    src = strip(src)
    if src is None or depth > 6:
        raise Undecided('loop iterator')
    if src.kind == 'agg' and len(src.args) == 2 and 'Range' in (src.extra.get('path') or '') and 'Inclusive' not in (src.extra.get('path') or ''):
        lo, hi = fo.ev(src.args[0]), fo.ev(src.args[1])
        if isinstance(lo, int) and isinstance(hi, int) and hi - lo <= 4096:
            return list(range(lo, hi))
        raise Undecided('loop bounds that do not fold to constants')
    if src.kind == 'call':
        nm = src.callee_name()
        if nm == 'into_iter' and len(src.args) == 1:
            return iter_values(fo, b, src.args[0], depth + 1)
        if nm == 'new' and len(src.args) == 2 and 'RangeInclusive' in (src.ty or ''):
            lo, hi = fo.ev(src.args[0]), fo.ev(src.args[1])
            if isinstance(lo, int) and isinstance(hi, int) and hi - lo <= 4096:
                return list(range(lo, hi + 1))
            raise Undecided('loop bounds that do not fold to constants')
        if nm == 'rev' and len(src.args) == 1:
            return list(reversed(iter_values(fo, b, src.args[0], depth + 1)))
        if nm == 'step_by' and len(src.args) == 2:
            n = fo.ev(src.args[1])
            if isinstance(n, int) and n > 0:
                return iter_values(fo, b, src.args[0], depth + 1)[::n]
    raise Undecided('a loop that is not a `for` over a range of constants (%s)' % show(src, 2))


def loop_driver(b, header, body, loops):
    """(next call, iterator source Val) of the `for` loop at header"""
    for c in b.calls:
        if c.callee_name() == 'next' and c.point and c.point[0] in body and len(c.args) == 1:
            if any(c.point[0] in bd and len(bd) < len(body) for h, bd in loops.items()):
                continue
            it = strip(c.args[0])
            while it is not None and it.kind == 'ref' and not it.fields():
                it = strip(it.args[0])
            if it is None or it.kind != 'escaped':
                continue
            defs = [strip(d) for d in b.local_defs.get(it.args[0], [])]
            defs = [d for d in defs if d is not None and d.kind == 'call' and d.callee_name() == 'into_iter' and len(d.args) == 1]
            if len(defs) == 1:
                return c, defs[0]
    return None, None


def fold_function(prog, fn, var_of_init):
    """unroll the loop nest of fn with the index slice folded; returns (records, words) - records: (var, bit, formula) in
    execution order.   var_of_init(init Val) -> 'W' | 'M' | None for the phis of the outermost loop"""
    b = fn.body
    loops = b.cfg.loops()
    if not loops or len(loops) > 3:
        raise Undecided('%d loop(s) where the walk goes level by level, pair by pair' % len(loops))
    parent = {}
    for h, bd in loops.items():
        outer = [(len(bd2), h2) for h2, bd2 in loops.items() if h2 != h and bd < bd2]
        parent[h] = min(outer)[1] if outer else None
    tops = [h for h in loops if parent[h] is None]
    if len(tops) != 1:
        raise Undecided('%d separate loops' % len(tops))
    phis = {h: [v for v in b._vals if v.kind == 'phi' and v.point and v.point[0] == h and not v.extra.get('anyof')] for h in loops}

    def split(ph, body):
        ins, backs = [], []
        for a, p in zip(ph.args, ph.extra['preds']):
            (backs if p in body else ins).append(a)
        if len(ins) != 1 or len(backs) != 1:
            raise Undecided('merge %s with several entries or back edges' % show(ph, 1))
        return ins[0], backs[0]
    words = {}
    fo = Folder(prog, fn, words)
    records = []
    trips = {}

    def run_loop(h, top):
        body = loops[h]
        for ph in phis[h]:
            init, _ = split(ph, body)
            si = strip(init)
            w = var_of_init(si) if top else (words.get(si.id) if si is not None and si.kind == 'phi' else None)
            if w:
                words[ph.id] = w
                fo.env[ph.id] = Word(w)
            else:
                val = fo.ev(init)
                if isinstance(val, (Word, Dep, Shifted, Bit)):
                    raise Undecided('a mask value enters the loop through %s' % show(ph, 1))
                fo.env[ph.id] = val
        nxt, src = loop_driver(b, h, body, loops)
        if nxt is None:
            raise Undecided('a loop that is not a `for` loop')
        vals = iter_values(fo, b, src)
        trips.setdefault(h, []).append(len(vals))
        kids = sorted([k for k in loops if parent[k] == h], key=lambda k: b.cfg.rpo.index(k) if k in b.cfg.rpo else k)
        for x in vals:
            fo.env[('it', nxt.id)] = x
            for k in kids:
                run_loop(k, False)
            new = {}
            for ph in phis[h]:
                _, back = split(ph, body)
                if ph.id in words:
                    sb = strip(back)
                    if sb is not None and sb.kind == 'phi' and words.get(sb.id) == words[ph.id]:
                        new[ph.id] = Word(words[ph.id])        # carried by an inner loop, recorded there
                        continue
                    val = fo.ev(back)
                    if not (isinstance(val, Word) and val.var == words[ph.id]):
                        raise Undecided('the word %s is not carried through the round as itself plus deposits' % words[ph.id])
                    for bit, f in sorted(val.ups.items()):
                        records.append((val.var, bit, f))
                    new[ph.id] = Word(val.var)
                else:
                    new[ph.id] = fo.ev(back)
            fo.env.update(new)
            fo.steps += 1
            if fo.steps > 8192:
                raise Undecided('the walk does not end')
    run_loop(tops[0], True)
    return records, words, trips


# ---- the specification --------------------------------------------------------------------------------------------------------
def check_records(kind, records, n_leaves):
    """compare the update records with the walk of the implicit heap with n_leaves leaves"""
    problems = []
    first_leaf = n_leaves - 1
    internal = list(range(first_leaf))
    wrec = [(bit, f, 0) for (var, bit, f) in records if var == 'W']
    mrec = [(bit, f, 0) for (var, bit, f) in records if var == 'M']
    seen = {}
    order = {}
    for idx, (bit, f, lv) in enumerate(wrec):
        if bit in seen:
            problems.append('node %d is combined twice' % bit)
            continue
        seen[bit] = f
        order[bit] = idx
    for p in internal:
        if p not in seen:
            problems.append('node %d is never combined from its children' % p)
    for bit in seen:
        if bit not in internal:
            problems.append('position %d is written, which is no internal node of the %d-leaf heap' % (bit, n_leaves))
    want_op = 'or' if kind == 'visit' else 'and'
    for p in internal:
        if p not in seen:
            continue
        l, r = ('atom', 'W', 2 * p + 1), ('atom', 'W', 2 * p + 2)
        ats = atoms_of(seen[p])
        if sorted(ats) != sorted([l, r]):
            problems.append('node %d is combined from %s, not from its children %d and %d' % (p, ', '.join('%s[%d]' % (a[1], a[2]) for a in ats) or 'nothing', 2 * p + 1, 2 * p + 2))
            continue
        if truth_table(seen[p], [l, r]) != truth_table((want_op, l, r), [l, r]):
            problems.append('node %d is not the %s of its children' % (p, 'OR (a node is visited when a child is)' if kind == 'visit' else 'AND (a node absorbs its children only when both are selected)'))
        for ch in (2 * p + 1, 2 * p + 2):
            if ch in internal and ch in order and order[ch] > order[p]:
                problems.append('node %d is combined before its child %d' % (p, ch))
    if kind == 'visit':
        if mrec:
            problems.append('a second word is built')
    else:
        emitted = {}
        for bit, f, lv in mrec:
            emitted[bit] = ('or', emitted[bit], f) if bit in emitted else f
        for c in range(1, 2 * n_leaves - 1):
            p = (c - 1) // 2
            l, r = ('atom', 'W', 2 * p + 1), ('atom', 'W', 2 * p + 2)
            me = ('atom', 'W', c)
            if c not in emitted:
                problems.append('node %d is never emitted' % c)
                continue
            ats = atoms_of(emitted[c])
            if not set(ats) <= {l, r}:
                problems.append('the emission of node %d reads %s' % (c, ', '.join('%s[%d]' % (a[1], a[2]) for a in ats)))
                continue
            want = ('and', me, ('not', ('and', l, r)))
            if truth_table(emitted[c], [l, r]) != truth_table(want, [l, r]):
                problems.append('node %d is not emitted exactly when it is selected and its parent does not absorb it' % c)
        for bit in emitted:
            if not (1 <= bit < 2 * n_leaves - 1):
                problems.append('position %d is emitted, which is no node below the root' % bit)
        # emission of a child must use the child's value of the moment its parent is combined: same round
    return problems


# ---- exponent algebra for the fill -------------------------------------------------------------------------------------------
def lin_add(a, b, s=1):
    out = dict(a)
    for k, c in b.items():
        out[k] = out.get(k, 0) + s * c
    return {k: c for k, c in out.items() if c}


def min_exp(form):
    """least value of a linear exponent form over the contract 0 <= p1 <= p2 <= 63, or None"""
    f = dict(form)
    c, a1, a2 = f.pop(1, 0), f.pop('p1', 0), f.pop('p2', 0)
    if f:
        return None
    return min(c + a1 * x + a2 * y for x in (0, 63) for y in (0, 63) if x <= y)       # linear: extremes at the corners


def mod64(p):
    """a word is its value modulo 2^64: powers from 64 up vanish"""
    out = {}
    for k, c in p.items():
        m = min_exp(dict(k))
        if m is not None and m >= 64:
            continue
        if c:
            out[k] = c
    return out


def pow_form(v, depth=0):
    """v as a sum of +-2^(linear form over the parameters), modulo 2^64: ('pow', {frozenset(lin.items()): coeff});
    plain linear forms (coordinates, widths) as ('lin', form)"""
    v = strip(v)
    if v is None or depth > 30:
        raise Undecided('fill expression')
    if v.kind == 'cast':
        return pow_form(v.args[0], depth + 1)
    if v.kind == 'load' and strip(v.args[0]) is not None and strip(v.args[0]).kind == 'bin' and tuple(v.args[1]) == ('0',):
        return pow_form(v.args[0], depth + 1)
    if v.kind == 'const' and isinstance(v.args[0], int):
        c = v.args[0]
        if c == 2 ** 64 - 1 and (v.ty or '') == 'u64':
            return ('pow', {frozenset(): -1})
        return ('lin', {1: c} if c else {})
    if v.kind == 'param':
        return ('lin', {'p%d' % v.args[0]: 1})

    def as_pow(x):
        if x[0] == 'pow':
            return x[1]
        if set(x[1]) <= {1}:
            c = x[1].get(1, 0)
            return {frozenset(): c} if c else {}
        raise Undecided('a coordinate used as a mask')
    if v.kind == 'un' and v.args[0] == 'Not':
        a = as_pow(pow_form(v.args[1], depth + 1))
        out = {frozenset(): -1}                       # !x = (2^64 - 1) - x
        for k, c in a.items():
            out[k] = out.get(k, 0) - c
        return ('pow', mod64(out))
    if v.kind == 'bin':
        op = v.args[0].replace('WithOverflow', '').replace('Unchecked', '')
        a, b = pow_form(v.args[1], depth + 1), pow_form(v.args[2], depth + 1)
        if op in ('Add', 'Sub'):
            s = 1 if op == 'Add' else -1
            if a[0] == 'lin' and b[0] == 'lin':
                return ('lin', lin_add(a[1], b[1], s))
            pa, pb = as_pow(a), as_pow(b)
            out = dict(pa)
            for k, c in pb.items():
                out[k] = out.get(k, 0) + s * c
            return ('pow', mod64(out))
        if op == 'Mul' and a[0] == 'lin' and b[0] == 'lin':
            for x, y in ((a[1], b[1]), (b[1], a[1])):
                if set(x) <= {1}:
                    return ('lin', {k: c * x.get(1, 0) for k, c in y.items() if c * x.get(1, 0)})
        if op == 'Shl' and b[0] == 'lin':
            pa = as_pow(a)
            return ('pow', mod64({frozenset(lin_add(dict(k), b[1]).items()): c for k, c in pa.items()}))
        if op == 'Shr' and b[0] == 'lin' and a[0] == 'pow' and a[1] == {frozenset(): -1}:
            # exact only for the all-ones word: (2^64 - 1) >> k = 2^(64-k) - 1
            return ('pow', mod64({frozenset(lin_add({1: 64}, b[1], -1).items()): 1, frozenset(): -1}))
    raise Undecided('fill expression %s' % show(v, 3))


# ---- the rule -----------------------------------------------------------------------------------------------------------------
def mask_fns(prog):
    out = {}
    for f in prog.fns.values():
        if f.family == 'seg' and not f.is_closure and f.info.get('mir') and (f.body.locals[0]['ty'] or '') == 'u64' and f.body.arg_count == 2 and f.body.cfg.loops():
            if 'place' in f.name:
                out.setdefault('place', []).append(f)
            elif 'intersect' in f.name or 'visit' in f.name:
                out.setdefault('visit', []).append(f)
    return out


def fill_call_of(prog, fn):
    """the call that produces the leaf bits in fn: a loop-free u64 function of the two coordinates"""
    for c in fn.body.calls:
        t = prog.resolve(c)
        if t is not None and (c.ty or '') == 'u64' and len(c.args) == 2 and not t.body.cfg.loops():
            return c, t
    return None, None


def run(ctx):
    prog = ctx.prog
    mf = mask_fns(prog)
    n_leaves = None
    power = prog.const_value('POWER') if hasattr(prog, 'const_value') else None
    try:
        n_leaves = 1 << int(power)
    except Exception:
        n_leaves = None
    found = 0
    fills = {}
    for kind in ('visit', 'place'):
        fns = mf.get(kind, [])
        if len(fns) != 1:
            ctx.anchor_missing(RULE, 'the %s mask function of the bucket heap' % kind, PROPS, len(fns), 1)
            continue
        fn = fns[0]
        found += 1
        b = fn.body
        fc, ft = fill_call_of(prog, fn)
        fills[kind] = (fn, fc, ft)

        def var_of_init(init, fc=fc):
            if init is fc:
                return 'W'
            if init is not None and init.kind == 'const' and init.args[0] == 0 and (init.ty or '') == 'u64':
                return 'M'
            return None
        sig = '%s-walk' % kind
        try:
            if n_leaves is None:
                raise Undecided('the number of leaves (2^POWER) is not a constant of the layout')
            if fc is None:
                raise Undecided('no call that fills the leaf bits of the range')
            records, words, trips = fold_function(prog, fn, var_of_init)
            levels = [t for h in sorted(trips) for t in trips[h]]
            problems = check_records(kind, records, n_leaves)
            # the result
            rets = []
            for rb in b.cfg.returns:
                rv = strip(b.ret_val[rb])
                if rv.kind == 'phi' and rv.id not in words:
                    rets += [(strip(a), p) for a, p in zip(rv.args, rv.extra['preds'])]
                else:
                    rets.append((rv, rb))
            want_var = 'W' if kind == 'visit' else 'M'
            walked = [r for r, _ in rets if r.kind == 'phi' and words.get(r.id) == want_var]
            others = [(r, p) for r, p in rets if not (r.kind == 'phi' and words.get(r.id) == want_var)]
            if not walked:
                problems.append('the result is not the word the walk builds (%s)' % ('the closed leaf word' if kind == 'visit' else 'the emitted nodes'))
            if kind == 'visit' and others:
                problems.append('an answer that does not come out of the walk: %s' % show(others[0][0], 2))
            if kind == 'place':
                problems += check_shortcut(prog, fn, others, n_leaves)
            # leaf word: (start, end) in that order
            a1, a2 = strip(fc.args[0]), strip(fc.args[1])
            if not (a1.kind == 'param' and a1.args[0] == 1 and a2.kind == 'param' and a2.args[0] == 2):
                problems.append('the leaf bits are not filled from (start, end) in that order')
            det = {'records': len(records), 'pairs_per_level': levels, 'leaves': n_leaves}
            if problems:
                ctx.add(RULE, fn, sig, 'violation', '; '.join(problems[:3]), PROPS, fn.line, det)
            else:
                ctx.add(RULE, fn, sig, 'ok', ('every internal node once, children first: node |= left OR right; the result is the closed word' if kind == 'visit' else
                                              'every internal node once, children first: node |= left AND right, a selected child the parent does not absorb is emitted; whole domain -> root'), PROPS, fn.line, det)
        except Undecided as e:
            ctx.add(RULE, fn, sig, 'violation', 'undecided: %s' % e, PROPS, fn.line)
    # ---- leaves: same fill, right offset, right form ----
    if len(fills) == 2:
        (vf, vc, vt), (pf, pc, pt_) = fills['visit'], fills['place']
        if vt is not None and pt_ is not None:
            ctx.add(RULE, pf, 'same-leaves', 'ok' if vt.path == pt_.path else 'violation',
                    'both masks start from the leaf bits computed by %s' % vt.name if vt.path == pt_.path else 'the place mask fills its leaves with %s, the visit mask with %s' % (pt_.name, vt.name), PROPS, pf.line)
            check_fill(ctx, prog, vt, n_leaves)
    if found < 2:
        ctx.anchor_missing(RULE, 'mask functions', PROPS, found, 2)
    run_bititer(ctx)
    ctx.stat(RULE, mask_functions=found)


def check_shortcut(prog, fn, others, n_leaves):
    """the only answer beside the walk: the root bit, exactly when the range is the whole domain"""
    b = fn.body
    problems = []
    if not others:
        return ['the whole domain is never answered with the root (the walk emits only nodes below the root)']
    for r, pred in others:
        if not (r.kind == 'const' and r.args[0] == 1):
            problems.append('an answer that does not come out of the walk: %s' % show(r, 2))
            continue
        # the condition under which this answer is given: the conjunction of the decided tests dominating `pred`
        conds = []
        for s, d in b.switch_discr.items():
            t = b.mir['blocks'][s]['term']
            if t.get('k') != 'switch':
                continue
            for succ in set(b.cfg.succ[s]):
                if succ in b.cfg.can_return and b.cfg.pred[succ] == [s] and b.cfg.dominates(succ, pred):
                    from rules.gate import edge_truth
                    tr = edge_truth(t, succ)
                    if tr is None:
                        continue
                    sd = strip(d)
                    if sd is not None and sd.kind == 'const':
                        continue
                    if len([x for x in b.cfg.succ[s] if x in b.cfg.can_return]) < 2:
                        continue        # assertion
                    conds.append((sd, tr))
        if not conds:
            problems.append('the root is answered unconditionally')
            continue
        # decide over the finite domain of bucket ranges (a linear comparison of the two coordinates)
        sat = []
        try:
            for s0 in range(n_leaves):
                for e0 in range(s0, n_leaves):
                    if all(bool(eval_cond(c, s0, e0)) == tr for c, tr in conds):
                        sat.append((s0, e0))
        except Undecided as e:
            problems.append('undecided: the test in front of the root answer (%s)' % e)
            continue
        if sat != [(0, n_leaves - 1)]:
            extra = [x for x in sat if x != (0, n_leaves - 1)]
            if extra:
                problems.append('the root is answered for the range %s, which is not the whole domain' % (extra[0],))
            else:
                problems.append('the whole domain is never answered with the root')
    return problems


def eval_cond(v, s0, e0, depth=0):
    v = strip(v)
    if v is None or depth > 20:
        raise Undecided('test')
    if v.kind == 'const' and isinstance(v.args[0], (int, bool)):
        return int(v.args[0])
    if v.kind == 'param':
        return s0 if v.args[0] == 1 else e0
    if v.kind == 'cast':
        return eval_cond(v.args[0], s0, e0, depth + 1)
    if v.kind == 'load' and strip(v.args[0]) is not None and strip(v.args[0]).kind == 'bin' and tuple(v.args[1]) == ('0',):
        return eval_cond(v.args[0], s0, e0, depth + 1)
    if v.kind == 'bin':
        op = v.args[0].replace('WithOverflow', '').replace('Unchecked', '')
        a, b = eval_cond(v.args[1], s0, e0, depth + 1), eval_cond(v.args[2], s0, e0, depth + 1)
        table = {'Add': lambda: a + b, 'Sub': lambda: a - b, 'Mul': lambda: a * b, 'Lt': lambda: a < b, 'Le': lambda: a <= b, 'Gt': lambda: a > b, 'Ge': lambda: a >= b,
                 'Eq': lambda: a == b, 'Ne': lambda: a != b, 'BitAnd': lambda: a & b, 'BitOr': lambda: a | b}
        if op in table:
            return int(table[op]())
    raise Undecided(show(v, 2))


def check_fill(ctx, prog, ft, n_leaves):
    """fill(i0, i1) = 2^(i1+1) - 2^i0 with i = coordinate + (leaves - 1)"""
    tb = ft.body
    problems = []
    try:
        if len(tb.cfg.returns) != 1:
            raise Undecided('several results')
        rv = strip(tb.ret_val[tb.cfg.returns[0]])
        fn_bits = ft
        offs = []
        if rv.kind == 'call':
            # fill_mask(start, end) = BitOp::fill(index(start), index(end))
            inner = prog.resolve(rv)
            if inner is None or len(rv.args) != 2:
                raise Undecided('the leaf word is computed by %s' % rv.callee_name())
            for i, a in enumerate(rv.args):
                sa = strip(a)
                it = prog.resolve(sa) if sa is not None and sa.kind == 'call' else None
                if it is None or len(sa.args) != 1 or not (strip(sa.args[0]).kind == 'param' and strip(sa.args[0]).args[0] == i + 1):
                    raise Undecided('the leaf of coordinate %d is %s' % (i + 1, show(sa, 2)))
                f = pow_form(it.body.ret_val[it.body.cfg.returns[0]])
                if f != ('lin', {'p1': 1, 1: n_leaves - 1}):
                    problems.append('a coordinate is moved to position coordinate%+d, the leaves of a %d-leaf heap start at %d' % (f[1].get(1, 0) if f[0] == 'lin' else 0, n_leaves, n_leaves - 1))
                offs.append(it)
            fn_bits = inner
            rv = strip(fn_bits.body.ret_val[fn_bits.body.cfg.returns[0]])
        else:
            raise Undecided('the leaf word is not computed from the heap positions of the two coordinates')
        f = pow_form(rv)
        want = ('pow', {frozenset({('p2', 1), (1, 1)}): 1, frozenset({('p1', 1)}): -1})
        if f != want:
            problems.append('the bits filled are not exactly positions first..=last (2^(last+1) - 2^first)')
        ctx.add(RULE, fn_bits, 'fill-form', 'violation' if problems else 'ok', '; '.join(problems) if problems else 'leaf of a coordinate = coordinate + %d; the word is 2^(last+1) - 2^first: exactly the positions first..=last' % (n_leaves - 1), PROPS, fn_bits.line)
    except Undecided as e:
        ctx.add(RULE, ft, 'fill-form', 'violation', 'undecided: %s' % e, PROPS, ft.line)


# ---- the iterator over the bits of a mask ------------------------------------------------------------------------------------
def run_bititer(ctx):
    """The places of a mask are enumerated by an iterator over its set bits.  Every place once and only places of the mask:
    `next` answers None exactly when no bit is left, otherwise the position of the lowest set bit, and takes exactly that bit off."""
    prog = ctx.prog
    from rules.gate import edge_truth
    def one_word(adt):
        vs = (prog.adts.get(adt) or {}).get('variants') or []
        fl = vs[0].get('fields', []) if len(vs) == 1 else []
        return fl[0]['name'] if len(fl) == 1 and fl[0].get('ty') == 'u64' else None
    its = [f for f in prog.fns.values() if f.family == 'seg' and f.trait_method() == 'next' and not f.is_closure and f.info.get('mir')
           and f.self_adt and one_word(f.self_adt)]
    if len(its) != 1:
        ctx.anchor_missing(RULE, 'iterator over the bits of a mask (a one-field u64 iterator of the segment tree)', PROPS, len(its), 1)
        return
    f = its[0]
    b = f.body
    fld = one_word(f.self_adt)
    problems = []

    def is_word(v):
        v = strip(v)
        return v is not None and v.kind == 'load' and prog.self_field(v) == (fld,)

    def unc(v):
        v = strip(v)
        while v is not None and v.kind == 'cast':
            v = strip(v.args[0])
        if v is not None and v.kind == 'load' and tuple(v.args[1]) == ('0',) and strip(v.args[0]) is not None and strip(v.args[0]).kind == 'bin':
            return strip(v.args[0])
        return v

    def is_lowest(v):
        v = unc(v)
        return v is not None and v.kind == 'call' and v.callee_name() == 'trailing_zeros' and prog.classify(v) == 'std' and len(v.args) == 1 and is_word(v.args[0])

    def op_of(v):
        return v.args[0].replace('WithOverflow', '').replace('Unchecked', '') if v is not None and v.kind == 'bin' else None

    def one_at_lowest(v):
        v = unc(v)
        return op_of(v) == 'Shl' and unc(v.args[1]) is not None and unc(v.args[1]).kind == 'const' and unc(v.args[1]).args[0] == 1 and is_lowest(v.args[2])

    def removes_lowest(v):
        v = unc(v)
        o = op_of(v)
        if o is None:
            return False
        x, y = unc(v.args[1]), unc(v.args[2])
        for p, q in ((x, y), (y, x)):
            if o == 'BitAnd' and is_word(p):
                # w & (w - 1)
                if op_of(q) == 'Sub' and is_word(q.args[1]) and unc(q.args[2]).kind == 'const' and unc(q.args[2]).args[0] == 1:
                    return True
                if q is not None and q.kind == 'call' and q.callee_name() == 'wrapping_sub' and len(q.args) == 2 and is_word(q.args[0]) and unc(q.args[1]).kind == 'const' and unc(q.args[1]).args[0] == 1:
                    return True
                # w & !(1 << tz)
                if q is not None and q.kind == 'un' and q.args[0] == 'Not' and one_at_lowest(q.args[1]):
                    return True
            if o == 'BitXor' and is_word(p) and one_at_lowest(q):
                return True
        if o == 'Sub' and is_word(x) and one_at_lowest(y):
            return True
        return False
    sts = [st for st in b.stores if strip(st.root).kind == 'param' and tuple(p_ for p_ in st.path if p_ != '*') == (fld,)]
    if len(sts) != 1:
        problems.append('the remaining bits are written %d times in one step' % len(sts))
    elif not removes_lowest(sts[0].value):
        problems.append('the step does not take exactly the lowest set bit off the remaining bits (%s)' % show(sts[0].value, 4))
    # results
    rets = []
    for rb in b.cfg.returns:
        rv = strip(b.ret_val[rb])
        if rv.kind == 'phi':
            rets += [(strip(a), p_) for a, p_ in zip(rv.args, rv.extra['preds'])]
        else:
            rets.append((rv, rb))
    nones = [(r, p_) for r, p_ in rets if r.kind == 'agg' and (r.extra.get('variant') or {}).get('name') == 'None']
    somes = [(r, p_) for r, p_ in rets if r.kind == 'agg' and (r.extra.get('variant') or {}).get('name') == 'Some']
    if len(nones) + len(somes) != len(rets) or not nones or not somes:
        problems.append('undecided: the results are not plain Some(position) / None')
    for r, p_ in somes:
        if not is_lowest(r.args[0]):
            problems.append('the place answered is %s, not the position of the lowest remaining bit' % show(r.args[0], 3))
        if sts and not any(b.cfg.dominates(st.point[0], p_) or st.point[0] == p_ for st in sts):
            problems.append('a place is answered without being taken off the remaining bits')
    # None exactly when nothing is left: the test that separates the two answers
    def emptiness(d):
        d = unc(d)
        if op_of(d) in ('Eq', 'Ne'):
            x, y = unc(d.args[1]), unc(d.args[2])
            for p, q in ((x, y), (y, x)):
                if q is not None and q.kind == 'const':
                    if is_word(p) and q.args[0] == 0:
                        return op_of(d) == 'Eq'
                    if is_lowest(p) and q.args[0] == 64:
                        return op_of(d) == 'Eq'
        return None
    decided = False
    for sblk, d in b.switch_discr.items():
        pol = emptiness(d)
        t = b.mir['blocks'][sblk]['term']
        if pol is None or t.get('k') != 'switch':
            if t.get('k') == 'switch' and len([x for x in b.cfg.succ[sblk] if x in b.cfg.can_return]) >= 2:
                problems.append('the answer depends on %s, not only on whether a bit is left' % show(d, 3))
            continue
        for succ in set(b.cfg.succ[sblk]):
            tr = edge_truth(t, succ)
            if tr is None:
                continue
            empty_side = (tr == pol)
            for r, p_ in nones:
                if (b.cfg.dominates(succ, p_) and b.cfg.pred[succ] == [sblk]) or (succ == p_ and False):
                    if not empty_side:
                        problems.append('None is answered while bits are left')
                    decided = True
            for r, p_ in somes:
                if b.cfg.dominates(succ, p_) and b.cfg.pred[succ] == [sblk] and empty_side:
                    problems.append('a place is answered when no bit is left')
    if not decided and not problems:
        problems.append('undecided: no test of the remaining bits against zero in front of None')
    problems = list(dict.fromkeys(problems))
    ctx.add(RULE, f, 'bit-iterator', 'violation' if problems else 'ok', '; '.join(problems[:3]) if problems else
            'None exactly when no bit is left; otherwise the position of the lowest set bit, and exactly that bit is taken off', PROPS, f.line)
