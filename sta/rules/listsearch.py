"""LISTSEARCH: orientation and result table of the sorted-vector searches (DESIGN section 4, C13).

For every binary search of a list's `buffer`:
 (a) orientation: a `_by` closure must compare the *element* (its parameter) with the captured probe in that order
     (std wants "element relative to target"), or hand the element's key to the user's comparator; a `_by_key` closure
     must return the element's key;
 (b) the post-processing is evaluated symbolically over the four cases Ok(0), Ok(i>0), Err(0), Err(i>0) and must be
        EXACT    Ok -> the element at i            Err -> nothing
        PRED_LE  Ok -> i        Err(i>0) -> i-1   Err(0) -> default / EMPTY_REF
        PRED_LT  Ok(i>0) -> i-1  Ok(0) -> default  Err(i>0) -> i-1  Err(0) -> default
        INSERT   insert at i in every case
     (for lookups that return values, "i" means "the element at position i")."""
from ssa import strip, show, walk
from engine import span_line
from rules.descent import ROLE_BY_METHOD

RULE = 'LISTSEARCH'
SEARCHES = ('binary_search_by', 'binary_search_by_key', 'binary_search', 'partition_point')
CASES = ('OK0', 'OKP', 'ERR0', 'ERRP')

PROPS_BY_FAMILY = {'key': ['C13'], 'map': ['C13'], 'set': ['C13']}


def buffer_of(prog, v):
    v = strip(v)
    seen = 0
    while v is not None and v.kind == 'call' and v.callee_name() in ('deref', 'deref_mut', 'as_slice', 'as_mut_slice') and v.args and seen < 4:
        v = strip(v.args[0])
        seen += 1
    return prog.self_field(v) if v is not None else None


class CaseEval:
    """symbolic evaluation under one search outcome; positions are ('i', c) = i + c or ints"""

    def __init__(self, prog, fn, search, case):
        self.prog = prog
        self.fn = fn
        self.search = search
        self.case = case
        self.zero = case in ('OK0', 'ERR0')
        self.ok = case in ('OK0', 'OKP')
        self.memo = {}

    def pos(self, c=0):
        return c if self.zero else ('i', c)

    def is_buffer(self, v):
        return buffer_of(self.prog, v) == ('buffer',)

    def apply_closure(self, cfn, clos_val, argvals):
        """value of closure cfn (built as clos_val in this function) applied to already evaluated arguments"""
        sub = ClosureEval(self, cfn, clos_val, argvals)
        results, undecided = walk_plain(sub, cfn.body)
        results = [r for r in results if r != 'UNREACHABLE']
        if undecided or not results or any(r is None for r in results) or any(r != results[0] for r in results):
            return None
        return results[0]

    def ev(self, v, depth=0):
        v = strip(v) if v is not None and v.kind != 'cast' else v
        if v is None or depth > 20:
            return None
        r = self._ev(v, depth)
        return r

    def _ev(self, v, depth):
        prog = self.prog
        k = v.kind
        if k == 'cast':
            x = self.ev(v.args[0], depth + 1)
            if isinstance(x, tuple) and x and x[0] == 'wrap':
                # a position that wrapped below zero, truncated to the handle type: 0usize.wrapping_sub(1) as u32 is u32::MAX
                if v.ty == 'u32' and (2 ** 64 + x[1]) % (2 ** 32) == prog.EMPTY_REF:
                    return 'DEFAULT'
                return None
            return x
        if v is self.search:
            return ('result',)
        if k == 'const':
            if prog.is_empty_ref(v):
                return 'DEFAULT'
            return v.args[0] if isinstance(v.args[0], int) else ('const', v.args[2])
        if k == 'param':
            return ('param', v.args[0])
        if k == 'discr':
            x = self.ev(v.args[0], depth + 1)
            if x == ('result',):
                return 0 if self.ok else 1
            if isinstance(x, tuple) and x and x[0] == 'option':
                return 1 if x[1] is not None else 0
            if isinstance(x, tuple) and x and x[0] == 'res':
                return 0 if x[1] else 1
            return None
        if k == 'load':
            root = strip(v.args[0])
            flds = v.fields()
            path = v.args[1]
            if root is self.search or self.ev(root, depth + 1) == ('result',):
                if 'as:Ok' in path:
                    return self.pos(0) if self.ok else 'UNREACHABLE'
                if 'as:Err' in path:
                    return self.pos(0) if not self.ok else 'UNREACHABLE'
                return None
            if root.kind == 'bin' and flds == ('0',):
                return self.ev(root, depth + 1)
            if root.kind == 'bin' and flds == ('1',):
                return False      # overflow flag: positions are small
            rv = self.ev(root, depth + 1)
            if isinstance(rv, tuple) and rv and rv[0] == 'elem':
                return ('elem', rv[1], rv[2] + tuple(f for f in flds))
            if isinstance(rv, tuple) and rv and rv[0] == 'option' and 'as:Some' in path:
                return rv[1]
            if isinstance(rv, tuple) and rv and rv[0] == 'res':
                if 'as:Ok' in path:
                    return rv[2] if rv[1] else 'UNREACHABLE'
                if 'as:Err' in path:
                    return rv[2] if not rv[1] else 'UNREACHABLE'
            return None
        if k == 'ref':
            if not v.fields():
                return self.ev(v.args[0], depth + 1)
            rv = self.ev(v.args[0], depth + 1)
            if isinstance(rv, tuple) and rv and rv[0] == 'elem':
                return ('elem', rv[1], rv[2] + tuple(v.fields()))
            return None
        if k == 'bin':
            op, a, b = v.args
            x, y = self.ev(a, depth + 1), self.ev(b, depth + 1)
            base = op.replace('WithOverflow', '').replace('Unchecked', '')
            if base in ('Eq', 'Ne') and 'DEFAULT' in (x, y):
                # a handle compared with EMPTY_REF: a position found by the search never is the sentinel
                o = y if x == 'DEFAULT' else x
                if o == 'DEFAULT':
                    return base == 'Eq'
                if (isinstance(o, int) and not isinstance(o, bool)) or (isinstance(o, tuple) and o and o[0] == 'i'):
                    return base == 'Ne'
            return self.arith(base, x, y)
        if k == 'un' and v.args[0] == 'Not':
            x = self.ev(v.args[1], depth + 1)
            return (not x) if isinstance(x, bool) else None
        if k == 'call':
            name = v.callee_name()
            if name in ('unwrap_or_else', 'unwrap_or', 'unwrap_or_default') and v.args:
                x = self.ev(v.args[0], depth + 1)
                if x == ('result',):
                    if self.ok:
                        return self.pos(0)
                    if name == 'unwrap_or_else':
                        cl = prog.closures_passed(v)
                        if len(cl) == 1 and identity_closure(cl[0]):
                            return self.pos(0)
                        return None
                    if name == 'unwrap_or':
                        return self.ev(v.args[1], depth + 1)
                    return 0
            if name in ('map_or', 'map', 'and_then', 'map_or_else', 'unwrap_or', 'unwrap_or_else', 'or', 'unwrap_or_default') and v.args:
                x = self.ev(v.args[0], depth + 1)
                if isinstance(x, tuple) and x and x[0] == 'option':
                    cl = prog.closures_passed(v)
                    if name == 'unwrap_or':
                        return x[1] if x[1] is not None else self.ev(v.args[1], depth + 1)
                    if name == 'or':
                        return x if x[1] is not None else self.ev(v.args[1], depth + 1)
                    if name == 'unwrap_or_default':
                        return x[1] if x[1] is not None else 0
                    if name == 'unwrap_or_else':
                        if x[1] is not None:
                            return x[1]
                        return self.apply_closure(cl[0], v.args[1], []) if len(cl) == 1 else None
                    if name == 'map_or':
                        if x[1] is None:
                            return self.ev(v.args[1], depth + 1)
                        return self.apply_closure(cl[0], v.args[2], [x[1]]) if len(cl) == 1 and len(v.args) == 3 else None
                    if name == 'map':
                        if x[1] is None:
                            return ('option', None)
                        r = self.apply_closure(cl[0], v.args[1], [x[1]]) if len(cl) == 1 else None
                        return ('option', r) if r is not None else None
                    if name == 'and_then':
                        if x[1] is None:
                            return ('option', None)
                        return self.apply_closure(cl[0], v.args[1], [x[1]]) if len(cl) == 1 else None
                    if name == 'map_or_else':
                        if len(cl) != 2 or len(v.args) != 3:
                            return None
                        return self.apply_closure(cl[0], v.args[1], []) if x[1] is None else self.apply_closure(cl[1], v.args[2], [x[1]])
            if name in ('ok', 'err') and v.args and self.ev(v.args[0], depth + 1) == ('result',):
                if (name == 'ok') == self.ok:
                    return ('option', self.pos(0))
                return ('option', None)
            if name in ('is_ok', 'is_err') and v.args and self.ev(v.args[0], depth + 1) == ('result',):
                return self.ok if name == 'is_ok' else (not self.ok)
            if name in ('get_unchecked', 'get_unchecked_mut', 'index', 'index_mut') and len(v.args) == 2 and self.is_buffer(v.args[0]):
                p = self.ev(v.args[1], depth + 1)
                if p is None:
                    return None
                return ('elem', p, ())
            if name in ('get', 'get_mut') and len(v.args) == 2 and self.is_buffer(v.args[0]):
                p = self.ev(v.args[1], depth + 1)
                return ('option', ('elem', p, ())) if p is not None else None
            if name in ('checked_sub',) and len(v.args) == 2:
                x, y = self.ev(v.args[0], depth + 1), self.ev(v.args[1], depth + 1)
                r = self.arith('Sub', x, y)
                if isinstance(r, int) and r < 0:
                    return ('option', None)
                return ('option', r) if r is not None else None
            if name in ('wrapping_sub', 'saturating_sub') and len(v.args) == 2:
                x, y = self.ev(v.args[0], depth + 1), self.ev(v.args[1], depth + 1)
                r = self.arith('Sub', x, y)
                if isinstance(r, int) and r < 0:
                    if name == 'wrapping_sub' and v.ty == 'u32' and (2 ** 32 + r) == prog.EMPTY_REF:
                        return 'DEFAULT'          # 0u32.wrapping_sub(1) is u32::MAX, the empty handle
                    return 0 if name == 'saturating_sub' else ('wrap', r)
                return r
            if name in ('clone', 'deref', 'borrow', 'as_ref', 'into', 'from', 'try_into', 'unwrap') and v.args:
                return self.ev(v.args[-1] if name == 'from' else v.args[0], depth + 1)
            if name == 'len' and v.args and self.is_buffer(v.args[0]):
                return ('len',)
            return None
        if k == 'agg':
            e = v.extra
            if e['akind'] == 'adt' and e.get('variant'):
                vn = e['variant']['name']
                if vn == 'Some' and len(v.args) == 1:
                    return ('option', self.ev(v.args[0], depth + 1))
                if vn == 'None':
                    return ('option', None)
                if vn in ('Ok', 'Err') and len(v.args) == 1:
                    return ('res', vn == 'Ok', self.ev(v.args[0], depth + 1))     # a search outcome re-tagged by hand
            return None
        if k == 'phi':
            # resolved along the edges walked so far (the walk is deterministic under one search outcome)
            from evalrel import resolve_phi
            edges = getattr(self, 'edges', None)
            if edges is None:
                return None
            ops = [x for x in resolve_phi(v, edges, {}) if x is not v]
            vals = []
            for x in ops:
                r = self.ev(x, depth + 1)
                if r == 'UNREACHABLE':
                    continue
                vals.append(r)
            if vals and all(x == vals[0] for x in vals) and vals[0] is not None:
                return vals[0]
            return None
        return None

    def arith(self, op, x, y):
        def norm(p):
            if isinstance(p, tuple) and p and p[0] == 'i':
                return p
            return p
        if x is None or y is None or x == 'UNREACHABLE' or y == 'UNREACHABLE':
            return None
        xi = isinstance(x, tuple) and x and x[0] == 'i'
        yi = isinstance(y, tuple) and y and y[0] == 'i'
        if op in ('Add', 'Sub'):
            s = 1 if op == 'Add' else -1
            if xi and isinstance(y, int) and not isinstance(y, bool):
                return ('i', x[1] + s * y)
            if isinstance(x, int) and isinstance(y, int) and not isinstance(x, bool):
                return x + s * y
            if yi and isinstance(x, int) and op == 'Add':
                return ('i', y[1] + x)
            return None
        if op in ('Gt', 'Ge', 'Lt', 'Le', 'Eq', 'Ne'):
            if isinstance(x, int) and isinstance(y, int):
                return {'Gt': x > y, 'Ge': x >= y, 'Lt': x < y, 'Le': x <= y, 'Eq': x == y, 'Ne': x != y}[op]
            # i >= 1 symbolic
            def bounds(p):
                if isinstance(p, tuple) and p and p[0] == 'i':
                    return (1 + p[1], None)        # [1+c, +inf)
                if isinstance(p, int):
                    return (p, p)
                return None
            bx, by = bounds(x), bounds(y)
            if bx is None or by is None:
                return None
            if xi and yi:
                d = x[1] - y[1]
                return {'Gt': d > 0, 'Ge': d >= 0, 'Lt': d < 0, 'Le': d <= 0, 'Eq': d == 0, 'Ne': d != 0}[op]
            if xi:      # x in [lo, inf) vs constant c
                lo, c = bx[0], by[0]
                if op == 'Gt':
                    return True if lo > c else None
                if op == 'Ge':
                    return True if lo >= c else None
                if op == 'Lt':
                    return False if lo >= c else None
                if op == 'Le':
                    return False if lo > c else None
                if op == 'Eq':
                    return False if lo > c else None
                if op == 'Ne':
                    return True if lo > c else None
            if yi:
                flip = {'Gt': 'Lt', 'Ge': 'Le', 'Lt': 'Gt', 'Le': 'Ge', 'Eq': 'Eq', 'Ne': 'Ne'}[op]
                return self.arith(flip, y, x)
        return None


class ClosureEval(CaseEval):
    """evaluation inside a closure: parameters are bound to the argument values, captured variables are evaluated in the
    defining function"""

    def __init__(self, parent, cfn, clos_val, argvals):
        CaseEval.__init__(self, parent.prog, cfn, parent.search, parent.case)
        self.parent = parent
        self.clos = strip(clos_val)
        while self.clos is not None and self.clos.kind == 'ref' and not self.clos.fields():
            self.clos = strip(self.clos.args[0])
        self.argvals = argvals

    def captured(self, v):
        """the defining function's Val for a load of (*_1).upvarN, or None"""
        v = strip(v)
        while v is not None and v.kind in ('load', 'ref'):
            root = strip(v.args[0])
            flds = v.fields()
            if root.kind == 'param' and root.args[0] == 1 and flds and flds[0].startswith('upvar'):
                n = int(flds[0][5:])
                if self.clos is not None and self.clos.kind == 'agg' and n < len(self.clos.args):
                    return self.clos.args[n], flds[1:]
                return None
            if flds:
                return None
            v = root
        return None

    def is_buffer(self, v):
        v = strip(v)
        seen = 0
        while v is not None and v.kind == 'call' and v.callee_name() in ('deref', 'deref_mut', 'as_slice', 'as_mut_slice') and v.args and seen < 4:
            v = strip(v.args[0])
            seen += 1
        if v is None or v.kind not in ('load', 'ref'):
            return False
        # the buffer itself captured by reference (disjoint closure captures): (*_1).upvarN is `&self.buffer`
        cap0 = self.captured(v)
        if cap0 is not None and not cap0[1]:
            return self.parent.is_buffer(cap0[0])
        flds = v.fields()
        if not flds or flds[-1] != 'buffer':
            return False
        inner = strip(v.args[0])
        # self captured by reference: (*(*_1).upvarN).buffer
        x = v
        for _ in range(4):
            cap = self.captured(x)
            if cap is not None:
                pv = strip(cap[0])
                while pv.kind == 'ref' and not pv.fields():
                    pv = strip(pv.args[0])
                return pv.kind == 'param' and pv.args[0] == 1
            if x.kind in ('load', 'ref'):
                x = strip(x.args[0])
            else:
                break
        return False

    def _ev(self, v, depth):
        if v.kind == 'param':
            k = v.args[0]
            if k >= 2 and k - 2 < len(self.argvals):
                return self.argvals[k - 2]
            return None
        if v.kind in ('load', 'ref'):
            cap = self.captured(v)
            if cap is not None and not cap[1]:
                return self.parent.ev(cap[0], depth + 1)
        return CaseEval._ev(self, v, depth)


def walk_plain(ev, b):
    """follow a (closure) body from its entry, deciding every switch the evaluator can decide"""
    from evalrel import resolve_phi
    blocks, edges = set(), set()
    ev.edges = edges
    stack = [0]
    undecided = []
    while stack:
        x = stack.pop()
        if x in blocks:
            continue
        blocks.add(x)
        succs = list(b.cfg.succ[x])
        t = b.mir['blocks'][x]['term']
        if t['k'] == 'switch' and x in b.switch_discr:
            val = ev.ev(b.switch_discr[x])
            if val is not None and val != 'UNREACHABLE' and not isinstance(val, tuple):
                iv = int(val) if isinstance(val, bool) else val
                chosen = t['otherwise']
                for tv, tb in t['targets']:
                    if tv == iv:
                        chosen = tb
                succs = [chosen]
            else:
                ret_succs = [s2 for s2 in succs if s2 in b.cfg.can_return]
                if len(ret_succs) < len(succs):
                    succs = ret_succs
                else:
                    undecided.append(x)
        if t['k'] == 'assert':
            succs = [t['target']]
        for s2 in succs:
            edges.add((x, s2))
            stack.append(s2)
    results = []
    for rb in b.cfg.returns:
        if rb in blocks:
            for rv in resolve_phi(b.ret_val[rb], edges, {}):
                results.append(ev.ev(rv))
    return results, undecided


def identity_closure(cl):
    b = cl.body
    return all(strip(rv).kind == 'param' and strip(rv).args[0] == 2 for rv in b.ret_val.values())


def walk_case(prog, fn, search, case, want_reads=False):
    """follow the CFG from the search under one outcome; returns (result value, effects, undecided)"""
    b = fn.body
    ev = CaseEval(prog, fn, search, case)
    start = search.point[0]
    blocks, edges = set(), set()
    ev.edges = edges
    stack = [start]
    undecided = []
    while stack:
        x = stack.pop()
        if x in blocks:
            continue
        blocks.add(x)
        succs = list(b.cfg.succ[x])
        t = b.mir['blocks'][x]['term']
        if t['k'] == 'switch' and x in b.switch_discr:
            d = b.switch_discr[x]
            dep = any(y is search for y in walk(d))
            decided = False
            if dep:
                val = ev.ev(d)
                if val is not None and val != 'UNREACHABLE':
                    iv = int(val) if isinstance(val, bool) else val
                    chosen = t['otherwise']
                    for tv, tb in t['targets']:
                        if tv == iv:
                            chosen = tb
                    succs = [chosen]
                    decided = True
            if not decided:
                ret_succs = [s2 for s2 in succs if s2 in b.cfg.can_return]
                if len(ret_succs) < len(succs):
                    succs = ret_succs          # an assertion (one side only panics): follow the side that returns
                elif dep:
                    undecided.append((x, show(d, 3)))
        if t['k'] == 'assert':
            succs = [t['target']]
        for s in succs:
            edges.add((x, s))
            stack.append(s)
    # result
    from evalrel import resolve_phi
    results = []
    for rb in b.cfg.returns:
        if rb in blocks:
            for rv in resolve_phi(b.ret_val[rb], edges, {}):
                r_ = ev.ev(rv)
                if isinstance(r_, tuple) and r_ and r_[0] == 'wrap' and b.locals[0]['ty'] == 'u32' and (2 ** 64 + r_[1]) % (2 ** 32) == prog.EMPTY_REF:
                    r_ = 'DEFAULT'       # a position wrapped below zero and truncated to the handle type: u32::MAX, the empty handle
                results.append(r_)
    effects = []
    for c in b.calls:
        if c.point[0] in blocks and c is not search and c.callee_name() in ('insert', 'remove', 'swap_remove', 'push') and c.args and buffer_of(prog, c.args[0]) == ('buffer',):
            effects.append((c.callee_name(), ev.ev(c.args[1]) if len(c.args) > 1 else None))
        elif c.point[0] in blocks and c is not search:
            # a removal through a function of the same type that removes the position it is given (the type's delete_by_index)
            tgt = prog.resolve(c)
            if tgt is not None and tgt.self_adt == fn.self_adt and not tgt.is_closure and tgt is not fn:
                for rc in tgt.body.calls:
                    if rc.callee_name() in ('remove', 'swap_remove') and rc.args and len(rc.args) == 2 and buffer_of(prog, rc.args[0]) == ('buffer',):
                        pa = strip(rc.args[1])
                        if pa is not None and pa.kind == 'param' and pa.args[0] - 1 < len(c.args) and len([x for x in tgt.body.calls if x.callee_name() in ('remove', 'swap_remove', 'insert', 'push')]) == 1:
                            effects.append((rc.callee_name(), ev.ev(c.args[pa.args[0] - 1])))
    if want_reads:
        reads = []
        for c in b.calls:
            if c.point[0] in blocks and c.callee_name() in ('get_unchecked', 'get_unchecked_mut', 'index', 'index_mut') and len(c.args) == 2 and buffer_of(prog, c.args[0]) == ('buffer',):
                reads.append((c, ev.ev(c.args[1])))
        return results, effects, undecided, reads
    return results, effects, undecided


def classify_result(r):
    """('at', c, kind) / 'DEFAULT' / ('none',) / ('unit',) / None"""
    if r == 'DEFAULT':
        return 'DEFAULT'
    if isinstance(r, tuple) and r:
        if r[0] == 'param':
            return 'DEFAULT'
        if r[0] == 'option':
            if r[1] is None:
                return 'NONE'
            inner = classify_result(r[1])
            return inner
        if r[0] == 'elem':
            p = r[1]
            if isinstance(p, tuple) and p[0] == 'i':
                return ('at', p[1], 'elem')
            if isinstance(p, int):
                return ('at0', p, 'elem')
        if r[0] == 'i':
            return ('at', r[1], 'idx')
        if r[0] == 'const':
            return 'UNIT' if r[1] in ('()', 'unit') else None
    if isinstance(r, int) and not isinstance(r, bool):
        return ('at0', r, 'idx')
    return None


def expected(role, case):
    if role == 'EXACT':
        return ('at', 0) if case in ('OK0', 'OKP') else 'NONE'
    if role == 'PRED_LE':
        return {'OK0': ('at', 0), 'OKP': ('at', 0), 'ERRP': ('at', -1), 'ERR0': 'DEFAULT'}[case]
    if role == 'PRED_LT':
        return {'OK0': 'DEFAULT', 'OKP': ('at', -1), 'ERRP': ('at', -1), 'ERR0': 'DEFAULT'}[case]
    return None


def matches(cls, exp, case):
    if exp in ('DEFAULT', 'NONE'):
        if exp == 'NONE':
            return cls in ('NONE', 'DEFAULT')
        return cls == 'DEFAULT' or cls == 'NONE'
    if isinstance(cls, tuple):
        if cls[0] == 'at':
            return cls[1] == exp[1]
        if cls[0] == 'at0':
            # concrete position in a zero case: i == 0
            return cls[1] == exp[1]
    return False


def check_orientation(prog, fn, search):
    """returns (ok, msg)"""
    name = search.callee_name()
    cls = prog.closures_passed(search)
    if name == 'binary_search':
        return True, 'plain binary_search on the element type'
    if len(cls) != 1:
        return False, 'cannot identify the closure passed to %s' % name
    cl = cls[0]
    b = cl.body
    rets = [strip(v) for v in b.ret_val.values()]

    def from_elem(v):
        for x in walk(v):
            if x.kind == 'param' and x.args[0] == 2:
                return True
        return False

    def from_capture(v):
        for x in walk(v):
            if x.kind in ('load', 'ref') and strip(x.args[0]).kind == 'param' and strip(x.args[0]).args[0] == 1:
                return True
        return False
    if name == 'binary_search_by_key':
        if all(from_elem(r) and not from_capture(r) for r in rets):
            return True, 'key closure returns the element\'s key'
        return False, 'the key closure of binary_search_by_key does not return a key of the element'
    if name in ('binary_search_by', 'partition_point'):
        for r in rets:
            if r.kind != 'call':
                return False, 'closure result is not a comparison'
            kind = prog.callback_kind(r) if prog.classify(r) == 'callback' else None
            if kind == 'compare' and len(r.args) == 2:
                a0, a1 = r.args
                if r.callee_name() != 'cmp':
                    return False, 'closure compares with %s instead of cmp' % r.callee_name()
                if from_elem(a0) and not from_capture(a0) and from_capture(a1) and not from_elem(a1):
                    continue
                if from_elem(a1) and from_capture(a0):
                    return False, 'closure compares probe.cmp(element): std requires the element relative to the target (orientation reversed)'
                return False, 'closure comparison does not relate the element to the captured probe'
            elif kind == 'closure':
                # user comparator f(element key): by the trait's convention already "stored relative to target"
                if not from_elem(r.args[1]):
                    return False, 'user comparator is not applied to the element\'s key'
                continue
            else:
                return False, 'closure result is %s' % show(r, 2)
        return True, 'closure compares the element with the probe in std\'s orientation'
    return False, 'unknown search %s' % name


def run(ctx):
    prog = ctx.prog
    n = 0
    for fn in prog.fns.values():
        if fn.is_closure or fn.self_adt not in prog.list_adts:
            continue
        b = fn.body
        searches = [c for c in b.calls if c.callee_name() in SEARCHES and c.args and buffer_of(prog, c.args[0]) == ('buffer',)]
        if not searches:
            continue
        m = fn.trait_method()
        role = ROLE_BY_METHOD.get(m)
        props = PROPS_BY_FAMILY.get(fn.family, ['C13'])
        if role is None:
            # a search in a helper (or in a public method that has no role of its own) takes the role of the operations
            # that use it; a public method nobody with a role uses answers no question the properties ask
            up = {ROLE_BY_METHOD[g.trait_method()] for g in prog.reaching_trait_methods(fn) if g is not fn and g.self_adt == fn.self_adt and g.trait_method() in ROLE_BY_METHOD}
            up_m = sorted({g.trait_method() for g in prog.reaching_trait_methods(fn) if g is not fn and g.self_adt == fn.self_adt and g.trait_method() in ROLE_BY_METHOD})
            if len(up) == 1:
                role = up.pop()
                if up_m == ['delete']:
                    role = 'EXACT'      # the lookup inside delete: found -> its position, not found -> nothing
            elif not up and fn.is_public_api():
                for s_ in searches:
                    ctx.add(RULE, fn, 'table', 'info', 'search in a public method without a role in the properties (%s): nothing demanded' % m, props, span_line(s_, fn.line), nontrivial=False)
                continue
        props = PROPS_BY_FAMILY.get(fn.family, ['C13'])
        for s in searches:
            n += 1
            line = span_line(s, fn.line)
            ok, msg = check_orientation(prog, fn, s)
            if ok:
                ctx.add(RULE, fn, 'orientation', 'ok', msg, props, line)
            else:
                ctx.add(RULE, fn, 'orientation', 'violation', msg, props, line)
            if role is None:
                ctx.add(RULE, fn, 'table', 'violation', 'search in a function that is not a trait method with a known role (%s): cannot decide its result table' % m, props, line)
                continue
            problems = []
            table = {}
            for case in CASES:
                results, effects, undec = walk_case(prog, fn, s, case)
                if undec:
                    problems.append('undecided under %s: branch on %s' % (case, undec[0][1]))
                    continue
                table[case] = {'results': [str(classify_result(r)) for r in results], 'effects': [str(e) for e in effects]}
                if role == 'INSERT':
                    ins = [e for e in effects if e[0] == 'insert']
                    want = 0 if case in ('OK0', 'ERR0') else ('i', 0)
                    if len(ins) != 1 or ins[0][1] != want:
                        problems.append('%s: inserts at %s, expected exactly one insert at the position returned by the search' % (case, [e[1] for e in ins]))
                    continue
                if m == 'delete':
                    rem = [e for e in effects if e[0] in ('remove', 'swap_remove')]
                    if case in ('OK0', 'OKP'):
                        want = 0 if case == 'OK0' else ('i', 0)
                        if len(rem) != 1 or rem[0][0] != 'remove' or rem[0][1] != want:
                            problems.append('%s: expected remove(position found), got %s' % (case, rem))
                    elif rem:
                        problems.append('%s: removes %s although the key is absent' % (case, rem))
                    continue
                exp = expected(role, case)
                if not results:
                    problems.append('%s: no result' % case)
                for r in results:
                    cls = classify_result(r)
                    if cls is None:
                        problems.append('undecided under %s: result %s' % (case, r))
                    elif not matches(cls, exp, case):
                        problems.append('%s: returns %s, expected %s' % (case, cls, exp))
                if any(e[0] in ('insert', 'remove', 'swap_remove', 'push') for e in effects):
                    problems.append('%s: a lookup mutates the buffer' % case)
            det = {'role': role, 'table': table}
            if problems:
                ctx.add(RULE, fn, 'table', 'violation', '%s: %s' % (role, '; '.join(problems[:4])), props, line, det)
            else:
                ctx.add(RULE, fn, 'table', 'ok', 'result table matches %s in all four cases Ok(0)/Ok(i)/Err(0)/Err(i)' % role, props, line, det)
    # ---- emptiness of a sorted-vector variant is emptiness of its buffer --------------------------------------------------------
    for fn in prog.fns.values():
        if fn.is_closure or fn.self_adt not in prog.list_adts or fn.trait_method() != 'is_empty' or fn.family == 'seg':
            continue
        ok = False
        for rv in fn.body.ret_val.values():
            rv = strip(rv)
            if rv.kind == 'call' and rv.callee_name() == 'is_empty' and rv.args and buffer_of(prog, rv.args[0]) == ('buffer',):
                ok = True
            if rv.kind == 'bin' and rv.args[0] == 'Eq':
                x, y = strip(rv.args[1]), strip(rv.args[2])
                for p_, q_ in ((x, y), (y, x)):
                    if p_.kind == 'call' and p_.callee_name() == 'len' and p_.args and buffer_of(prog, p_.args[0]) == ('buffer',) and q_.is_const(0):
                        ok = True
        ctx.add(RULE, fn, 'emptiness', 'ok' if ok else 'violation',
                'is_empty is emptiness of the buffer' if ok else 'is_empty of the sorted-vector variant is not `buffer.is_empty()` / `buffer.len() == 0`: a cache (an earliest expiration, a counter) is no substitute unless it is held to count the entries, and nothing here holds it to that',
                PROPS_BY_FAMILY.get(fn.family, ['C13']), fn.line)
    ctx.stat(RULE, searches=n)
    if n < 15:
        ctx.anchor_missing(RULE, 'binary searches of the three lists', ['C13'], n, 15)
