"""BYPASS: an operation that answers by searching must search on every path (DESIGN 10.12).

DESCENT and LISTSEARCH decide what a descent loop / a binary search and its post-processing answer.  Neither looks at
the code in front of the search: a "fast path" that returns before the loop or before the binary search (`if the probe is
not above the first element { return EMPTY_REF }`) is an answer given without the search and therefore without any of the
tables those rules check.  This rule closes that: for every public operation with a search role, every path from its entry
to a return passes through the search construct (in the operation itself or in a helper that is itself held to this on all
of its paths) - or is a return taken because the collection is empty (root / gated root is EMPTY_REF, the buffer is empty),
or is decided by a comparison of the probe with the first / last element (lists) or the root entry (trees) that the rule
can evaluate against the role's semantics.  Anything else is reported as undecided (fail closed)."""
from ssa import strip, show, walk
from engine import span_line
from rules.descent import ROLE_BY_METHOD, PROPS as TREE_PROPS, compare_sites
from rules.listsearch import buffer_of, PROPS_BY_FAMILY
from rules.gate import edge_truth

RULE = 'BYPASS'
SEARCHES = ('binary_search_by', 'binary_search_by_key', 'binary_search', 'partition_point')


def search_points(prog, fn, is_tree):
    """blocks of fn that are 'the search': headers of key-ordered cursor loops (tree), binary-search calls on the buffer (list)"""
    b = fn.body
    pts = set()
    if is_tree:
        sites = compare_sites(prog, fn)
        if sites:
            loops = b.cfg.loops()
            for s in sites:
                blk = s['call'].point[0]
                idx = s['idx']
                for h, body in loops.items():
                    if blk in body and idx.kind == 'phi' and idx.extra['block'] == h:
                        pts.add(h)
    else:
        for c in b.calls:
            if c.callee_name() in SEARCHES and c.args and buffer_of(prog, c.args[0]) == ('buffer',):
                pts.add(c.point[0])
    return pts


class Must:
    """must(f): every entry-to-return path of f passes a search point (an own search construct, or a call of a same-type function
    g with must(g)), except paths that are justified (collection empty / decided comparison with an end element)"""

    def __init__(self, prog, adt, is_tree, role):
        self.prog, self.adt, self.is_tree, self.role = prog, adt, is_tree, role
        self.memo = {}
        self.problems = {}       # fn path -> [(fn, ret, why)]
        self.searching = set()   # functions with a search point of their own or through a helper

    def points(self, fn, _stack=()):
        pts = set(search_points(self.prog, fn, self.is_tree))
        for c in fn.body.calls:
            tgt = self.prog.resolve(c)
            if tgt is None or tgt.is_closure or tgt is fn or tgt.self_adt != self.adt:
                continue
            if self.must(tgt, _stack + (fn.path,)):
                pts.add(c.point[0])
        return pts

    def must(self, fn, _stack=()):
        if fn.path in self.memo:
            return self.memo[fn.path]
        if fn.path in _stack:
            return False
        pts = self.points(fn, _stack)
        ok = bool(pts)
        if pts:
            self.searching.add(fn.path)
            probs = []
            for ret in bypass_returns(fn, pts):
                paths = bypass_paths(fn, pts, ret)
                if paths is None:
                    probs.append((fn, ret, 'a return is reachable without the search along paths the rule cannot enumerate (a loop in front of the search)'))
                    continue
                for p in paths:
                    why = classify_path(self.prog, fn, p, self.is_tree, [self.role])
                    if why not in ('empty', 'decided-ok'):
                        probs.append((fn, ret, why))
            if probs:
                self.problems[fn.path] = probs
                ok = False
        self.memo[fn.path] = ok
        return ok


def bypass_returns(fn, pts):
    cfg = fn.body.cfg
    if 0 in pts:
        return []
    return [r for r in cfg.returns if r not in pts and (r == 0 or cfg.paths_avoiding(0, r, pts))]


def bypass_paths(fn, pts, ret, cap=64):
    """acyclic block paths 0 -> ret avoiding pts (None if there are too many or a cycle is met)"""
    cfg = fn.body.cfg
    can = set()            # blocks from which ret is reachable avoiding pts
    rev = {}
    for x, ss in enumerate(cfg.succ):
        for s in ss:
            rev.setdefault(s, []).append(x)
    stack = [ret]
    while stack:
        x = stack.pop()
        if x in can or x in pts:
            continue
        can.add(x)
        stack.extend(rev.get(x, []))
    out = []

    def dfs(x, path):
        if len(out) > cap:
            return
        if x == ret:
            out.append(path + [x])
            return
        for s in cfg.succ[x]:
            if s in can and s not in pts:
                if s in path or s == x:
                    out.append(None)
                    continue
                dfs(s, path + [x])
    dfs(0, [])
    if len(out) > cap or any(p is None for p in out):
        return None
    return out


def emptiness_edge(prog, fn, blk, succ, is_tree):
    """does taking edge blk->succ establish that the collection is empty?"""
    b = fn.body
    d = b.switch_discr.get(blk)
    if d is None:
        return False
    t = b.mir['blocks'][blk]['term']
    d = strip(d)

    def is_root_like(x):
        x = strip(x)
        if x is None:
            return False
        if x.kind == 'load' and prog.self_field(x) == ('root',):
            return True
        if x.kind == 'call':
            tgt = prog.resolve(x)
            # a gate on the root: a function of the tree taking no index (expire_root(time))
            if tgt is not None and tgt.self_adt == fn.self_adt and not any(strip(a).ty == 'u32' for a in x.args[1:] if strip(a) is not None):
                return (x.ty or '') == 'u32'
        if x.kind == 'phi':
            return False
        return False

    def buffer_len(x):
        x = strip(x)
        return x is not None and x.kind == 'call' and x.callee_name() == 'len' and x.args and buffer_of(prog, x.args[0]) == ('buffer',)

    # value switch on the index itself: match root { EMPTY_REF => .. }
    if is_tree and is_root_like(d) and t['k'] == 'switch':
        return any(v == prog.EMPTY_REF and tb == succ for v, tb in t['targets'])
    tr = edge_truth(t, succ)
    if d.kind == 'bin' and d.args[0] in ('Eq', 'Ne') and tr is not None:
        x, y = strip(d.args[1]), strip(d.args[2])
        eq = tr if d.args[0] == 'Eq' else not tr
        if is_tree:
            for p, q in ((x, y), (y, x)):
                if prog.is_empty_ref(q) and is_root_like(p):
                    return eq
        else:
            for p, q in ((x, y), (y, x)):
                if buffer_len(p) and q is not None and q.kind == 'const' and q.args[0] == 0:
                    return eq
        return False
    if d.kind == 'call' and tr is not None:
        nm = d.callee_name()
        if nm == 'is_empty' and d.args:
            a = strip(d.args[0])
            if (not is_tree and buffer_of(prog, d.args[0]) == ('buffer',)) or (a is not None and a.kind in ('param', 'ref', 'load') and prog.resolve(d) is not None):
                return tr
    if d.kind == 'discr':
        o = strip(d.args[0])
        if o is not None and o.kind == 'call' and o.callee_name() in ('first', 'last', 'get', 'first_mut', 'last_mut') and o.args and buffer_of(prog, o.args[0]) == ('buffer',) and not is_tree:
            if o.callee_name() == 'get':
                i = strip(o.args[1]) if len(o.args) > 1 else None
                if not (i is not None and i.kind == 'const' and i.args[0] == 0):
                    return False
            # None has discriminant 0; it may be a listed target or the `otherwise` of a switch that lists Some
            listed = {v for v, _ in t['targets']}
            none_target = [tb for v, tb in t['targets'] if v == 0]
            if none_target:
                return none_target[0] == succ and not any(tb == succ for v, tb in t['targets'] if v != 0)
            return 0 not in listed and t['otherwise'] == succ and not any(tb == succ for _, tb in t['targets'])
    return False


# ---- comparison of the probe with an end element (lists) / the root entry (trees) ---------------------------------------------

def end_compare(prog, fn, d, is_tree):
    """(which, stored_arg_index, method, call) if d depends on exactly one comparison between the probe and the key of the first /
    last element of the buffer (lists) or of the root node (trees); None otherwise"""
    calls = [x for x in walk(d) if x.kind == 'call' and prog.classify(x) == 'callback' and prog.callback_kind(x) in ('compare', 'closure')]
    if len(calls) != 1:
        return None
    c = calls[0]

    def which_of(v):
        for x in walk(v):
            if x.kind == 'call' and x.callee_name() in ('first', 'last') and x.args and buffer_of(prog, x.args[0]) == ('buffer',) and not is_tree:
                return x.callee_name()
        if is_tree:
            for x in walk(v):
                acc = prog.accessor_call(x) if x.kind == 'call' else None
                if acc is not None:
                    i = strip(x.args[1]) if len(x.args) > 1 else None
                    if i is not None and i.kind == 'load' and prog.self_field(i) == ('root',):
                        return 'root'
        return None
    if prog.callback_kind(c) == 'closure':
        if len(c.args) != 2:
            return None
        w = which_of(c.args[1])
        return (w, 0, 'closure', c) if w else None
    if len(c.args) != 2:
        return None
    w0, w1 = which_of(c.args[0]), which_of(c.args[1])
    if w0 and not w1:
        return (w0, 0, c.callee_name(), c)
    if w1 and not w0:
        return (w1, 1, c.callee_name(), c)
    return None




def emptiness_test(prog, fn, blk, is_tree):
    """is the switch at blk a test of emptiness at all (whichever edge is taken)?"""
    return any(emptiness_edge(prog, fn, blk, s, is_tree) for s in set(fn.body.cfg.succ[blk]))


def root_shape_fact(prog, fn, blk, succ):
    """'left' / 'right' if taking blk->succ establishes node(root).left|right == EMPTY_REF; 'other' if the switch is a test of a
    child link of the root taken the other way; None if it is something else"""
    b = fn.body
    d = strip(b.switch_discr.get(blk))
    t = b.mir['blocks'][blk]['term']
    if d is None or d.kind != 'bin' or d.args[0] not in ('Eq', 'Ne'):
        return None
    tr = edge_truth(t, succ)
    if tr is None:
        return None
    x, y = strip(d.args[1]), strip(d.args[2])
    for p, q in ((x, y), (y, x)):
        if prog.is_empty_ref(q) and p is not None and p.kind == 'load' and p.fields() and p.fields()[-1] in ('left', 'right'):
            acc = None
            for z in walk(p):
                if z.kind == 'call' and prog.accessor_call(z) is not None:
                    acc = z
                    break
            if acc is None or len(acc.args) < 2:
                return None
            i = strip(acc.args[1])
            if i is not None and i.kind == 'load' and prog.self_field(i) == ('root',):
                eq = tr if d.args[0] == 'Eq' else not tr
                return p.fields()[-1] if eq else 'other'
    return None


# a return WITHOUT the search may give the empty answer only if no stored key can satisfy the bound; with  rel = (end key ? probe):
#   lists: first element;  trees: the root entry, with the subtree on the far side known to be empty
ALLOWED_EMPTY = {
    ('PRED_LE', 'first'): {'>'}, ('PRED_LT', 'first'): {'>', '='}, ('EXACT', 'first'): {'>'}, ('EXACT', 'last'): {'<'},
}
ALLOWED_EMPTY_ROOT = {     # role -> {needed empty side: relations}
    'PRED_LE': {'left': {'>'}}, 'PRED_LT': {'left': {'>', '='}}, 'EXACT': {'left': {'>'}, 'right': {'<'}},
}


def classify_path(prog, fn, path, is_tree, roles):
    """'empty' | 'decided-ok' | reason string"""
    from evalrel import Evaluator
    b = fn.body
    conds = []
    for x, s in zip(path, path[1:]):
        if b.mir['blocks'][x]['term']['k'] == 'switch' and x in b.switch_discr and len(set(fn.body.cfg.succ[x])) > 1:
            # a branch one of whose sides only panics is an assertion, not a decision
            live = [y for y in set(b.cfg.succ[x]) if y in b.cfg.can_return]
            if len(live) < 2:
                continue
            conds.append((x, s))
    for x, s in conds:
        if emptiness_edge(prog, fn, x, s, is_tree):
            return 'empty'
    ends = []
    empty_sides = set()
    path_edges = set(zip(path, path[1:]))
    disc = {}
    for x, s in conds:
        if emptiness_test(prog, fn, x, is_tree):
            continue                      # "not empty": no information about the keys
        if is_tree:
            sf = root_shape_fact(prog, fn, x, s)
            if sf in ('left', 'right'):
                empty_sides.add(sf)
                continue
            if sf == 'other':
                continue
        d_ = strip(b.switch_discr[x])
        if d_ is not None and d_.kind == 'phi':
            # a flag computed on the way (`let append = match last() { Some(l) => l.key < key, None => true }`): the value it
            # has on this path
            from evalrel import resolve_phi
            cand = [strip(v_) for v_ in resolve_phi(d_, path_edges, {})]
            if len(cand) == 1:
                d_ = cand[0]
        if d_ is not None and d_.kind == 'const' and d_.ty == 'bool':
            continue                      # decided by the path itself
        disc[x] = d_
        ec = end_compare(prog, fn, d_, is_tree)
        if ec is None:
            return 'returns without %s, under a condition the rule cannot relate to the stored keys (%s)' % ('descending' if is_tree else 'searching', show(d_, 3))
        ends.append((x, s, ec))
    if not ends:
        return 'returns without %s although the collection is not known to be empty' % ('descending' if is_tree else 'searching')
    whiches = {ec[0] for _, _, ec in ends}
    if len(whiches) != 1:
        return 'returns without searching, under comparisons with both ends'
    which = whiches.pop()
    # which relations (end ? probe) are consistent with the path?
    feasible = set()
    for rel in ('<', '=', '>'):
        ok = True
        for x, s, ec in ends:
            site = {'call': ec[3], 'stored_arg': ec[1], 'method': ec[2]}
            ev = Evaluator(prog, [site], rel)
            val = ev.ev(disc.get(x, strip(b.switch_discr[x])))
            if val is None or isinstance(val, tuple):
                return 'returns without searching, under a comparison the rule cannot evaluate (%s)' % show(disc.get(x, strip(b.switch_discr[x])), 3)
            t = b.mir['blocks'][x]['term']
            iv = int(val) if isinstance(val, bool) else val
            chosen = t['otherwise']
            for tv, tb in t['targets']:
                if tv == iv:
                    chosen = tb
            if chosen != s:
                ok = False
                break
        if ok:
            feasible.add(rel)
    # the path must give the empty answer: no mutation, and nothing read from the collection reaches the result
    blocks = set(path)
    if not is_tree and roles == ['INSERT']:
        # a new element may be placed without the search only where the end comparison already says where it goes: appended when
        # the last key is strictly below it, put in front when the first key is strictly above it
        muts = [c for c in b.calls if c.point[0] in blocks and c.callee_name() in ('insert', 'remove', 'swap_remove', 'push', 'clear', 'retain', 'truncate') and c.args and buffer_of(prog, c.args[0]) == ('buffer',)]
        if len(muts) == 1 and muts[0].callee_name() == 'push' and which == 'last' and feasible <= {'<', '='}:        # equal keys are excluded by the contract (a key is inserted only while absent)
            return 'decided-ok'
        if len(muts) == 1 and muts[0].callee_name() == 'insert' and which == 'first' and feasible <= {'>', '='} and len(muts[0].args) >= 2 and strip(muts[0].args[1]).is_const(0):
            return 'decided-ok'
        return 'INSERT: places the new element without the search where the end comparison does not settle its position (%s element %s the new key, buffer calls %s)' % (which, '/'.join(sorted(feasible)), [c.callee_name() for c in muts])
    if not is_tree:
        for c in b.calls:
            if c.point[0] in blocks and c.callee_name() in ('insert', 'remove', 'swap_remove', 'push', 'get_unchecked', 'get_unchecked_mut', 'get', 'get_mut') and c.args and buffer_of(prog, c.args[0]) == ('buffer',):
                return 'returns without searching after touching the buffer (%s)' % c.callee_name()
    else:
        ret = path[-1]
        from evalrel import resolve_phi
        edges = set(zip(path, path[1:]))
        for rv in resolve_phi(b.ret_val[ret], edges, {}):
            rv = strip(rv)
            if not (prog.is_empty_ref(rv) or rv.kind == 'param' or (rv.kind == 'agg' and (rv.extra.get('variant') or {}).get('name') == 'None') or (rv.ty == '()')):
                return 'returns %s without descending' % show(rv, 3)
        for st in b.stores:
            if st.point[0] in blocks:
                return 'writes state on a path that returns without descending'
    bad = []
    for role in roles:
        if is_tree:
            table = ALLOWED_EMPTY_ROOT.get(role)
            if table is None:
                bad.append('%s: no shortcut on the root entry is known to be right' % role)
                continue
            for rel in sorted(feasible):
                if not any(rel in rels and side in empty_sides for side, rels in table.items()):
                    bad.append('%s: the shortcut answers "nothing" when the root key is %s the probe%s, which is right only if %s' % (
                        role, rel, (' and its %s subtree is empty' % '/'.join(sorted(empty_sides))) if empty_sides else '',
                        ' or '.join('root key %s probe and the %s subtree is empty' % ('/'.join(sorted(rels)), side) for side, rels in table.items())))
                    break
            continue
        allowed = ALLOWED_EMPTY.get((role, which))
        if allowed is None:
            bad.append('%s: no shortcut on the %s element is known to be right' % (role, which))
        elif not feasible <= allowed:
            bad.append('%s: the shortcut answers "nothing" when the %s stored key is %s the probe, which is right only for %s' % (
                role, which, '/'.join(sorted(feasible - allowed)), '/'.join(sorted(allowed))))
    if bad:
        return '; '.join(bad)
    return 'decided-ok'


def run(ctx):
    prog = ctx.prog
    n = 0
    for adt_set, is_tree in ((prog.tree_adts, True), (prog.list_adts, False)):
        for adt in sorted(adt_set):
            for fn in prog.fns.values():
                m = fn.trait_method()
                if fn.is_closure or fn.self_adt != adt or m not in ROLE_BY_METHOD:
                    continue
                role = ROLE_BY_METHOD[m]
                props = list(TREE_PROPS.get((fn.family, m), [])) if is_tree else list(PROPS_BY_FAMILY.get(fn.family, ['C13']))
                if not props:
                    continue
                n += 1
                must = Must(prog, adt, is_tree, role)
                if must.must(fn):
                    ctx.add(RULE, fn, 'searches-on-every-path', 'ok',
                            'every path from the entry of %s to a return passes the search (or returns because the collection is empty, or on a decided comparison with an end element)' % m, props, fn.line)
                    continue
                probs = [x for f in prog.closure(fn) if not f.is_closure for x in must.problems.get(f.path, [])]
                if not probs and not is_tree and not must.searching:
                    # a sorted vector answers (and places new elements) by binary search; an operation with a search role that
                    # reaches none decides its answer / the position some other way, which no table of LISTSEARCH covers
                    ctx.add(RULE, fn, 'searches-on-every-path', 'violation',
                            '%s (%s) of the sorted-vector variant reaches no binary search of its buffer: %s is not decided by a search (undecided)' % (
                                m, role, 'the position of the new element' if role == 'INSERT' else 'the answer'), props, fn.line)
                    continue
                if not probs:
                    # DESCENT / LISTSEARCH report a role method that reaches no search (anchor); nothing to add here
                    ctx.add(RULE, fn, 'searches-on-every-path', 'info', '%s reaches no search construct of its own type on all paths of a helper (left to the DESCENT / LISTSEARCH anchors)' % m, props, fn.line, nontrivial=False)
                    continue
                seen = set()
                for f, ret, why in probs:
                    k = (f.path, why)
                    if k in seen:
                        continue
                    seen.add(k)
                    t = f.body.mir['blocks'][ret]['term']
                    line = (t.get('span') or [None, f.line])[1]
                    ctx.add(RULE, fn, 'searches-on-every-path(%s)' % f.name, 'violation',
                            '%s (%s) answers without its search on some path through %s: %s' % (m, role, f.name, why), props, line,
                            {'function': f.path, 'return_block': ret})
    ctx.stat(RULE, role_methods=n)
    if n < 30:
        ctx.anchor_missing(RULE, 'public operations with a search role (trees and lists)', ['C13'], n, 30)
