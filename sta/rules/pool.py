"""POOL and PROVENANCE (DESIGN section 4, C11, C10).

POOL: arena slots are taken and released in pairs, by the right functions:
  release   the removal releases exactly one slot on every path, the slot it unlinked, as its last act
  alloc     a slot taken from the allocator is fully initialised and linked (root or a child link of its parent)
  who       only the removal and clear release; only new / the linking inserts allocate; the pool's vectors are
            mutated only inside the pool module and by these calls
  grow      the arena grows only when the free list is empty; buffer and free list grow by the same index range
  clear     clear releases the root, empties root, then releases exactly the non-empty children of released slots

PROVENANCE: every index that reaches an arena accessor or a tree function comes from the tree itself
(root, a link of a node), the allocator, the sentinel constant, a caller's handle, or - inside clear - the
free list.  A computed slot number (range variable, arithmetic, a length) is a violation."""
from ssa import strip, show, walk
from origins import origins, atom_str, vec_field_of, LINKS
from engine import span_line
from program import VEC_MUTATORS as VEC_MUT

PROPS_POOL = ['C11']
PROPS_PROV = ['C11', 'C10']


# ---------------------------------------------------------------------------------------------
def pool_roles(prog):
    """structural discovery of the pool functions per pool ADT:
       release(fn): pushes its u32 parameter onto a Vec<u32> field of self
       alloc(fn):   returns pop().unwrap() of that field
       grow(fn):    resizes the node vector and extends the free list"""
    key = ('poolroles',)
    if key in prog._summ_cache:
        return prog._summ_cache[key]
    roles = {}
    for fn in prog.fns.values():
        if fn.self_adt not in prog.pool_adts or fn.is_closure:
            continue
        b = fn.body
        r = roles.setdefault(fn.self_adt, {'release': [], 'alloc': [], 'grow': [], 'new': [], 'free': None, 'nodes': None})
        for c in b.calls:
            nm = c.callee_name()
            if prog.classify(c) != 'std' or not c.args:
                continue
            vf = vec_field_of(prog, c.args[0])
            if nm == 'push' and vf and len(c.args) == 2 and strip(c.args[1]).kind == 'param':
                r['release'].append(fn)
                r['free'] = vf
            if nm == 'pop' and vf:
                ats = set()
                for rv in b.ret_val.values():
                    ats |= origins(prog, fn, rv)
                if ats and all(a[0] == 'pop' for a in ats):
                    r['alloc'].append(fn)
            if nm in ('resize', 'resize_with') and vf:
                r['grow'].append(fn)
                r['nodes'] = vf
        if fn.name == 'new' or (b.locals[0]['ty'].split('<')[0] == fn.self_adt and b.arg_count <= 1 and fn not in r['grow']):
            if b.locals[0]['ty'].split('<')[0] == fn.self_adt:
                r['new'].append(fn)
    prog._summ_cache[key] = roles
    return roles


def tree_pool(prog, tree_adt):
    """pool ADT used by a tree ADT"""
    adt = prog.adts[tree_adt]
    for f in adt['variants'][0]['fields']:
        for p in prog.pool_adts:
            if f['ty'].split('<')[0] == p:
                return p, f['name']
    return None, None


def calls_to(prog, fn, targets):
    return [c for c in fn.body.calls if prog.resolve(c) in targets]


def in_loop(b, block):
    return any(block in body for body in b.cfg.loops().values())


FAMILY_PROPS = {'map': ['C04'], 'set': ['C05'], 'key': ['C01']}


def check_pool_mutations(ctx, prog, pool, r, fam_props):
    """every mutation of the pool's vectors inside the pool module must be one of the recognised forms"""
    from program import VEC_MUTATORS
    for f in prog.fns.values():
        if f.self_adt != pool or f.is_closure:
            continue
        is_ctor = f.body.locals[0]['ty'].split('<')[0] == pool
        for c in f.body.calls:
            nm = c.callee_name()
            if prog.classify(c) != 'std' or nm not in VEC_MUTATORS or not c.args or not (c.args[0].ty or '').startswith('&mut'):
                continue
            vf = vec_field_of(prog, c.args[0])
            if vf is None:
                continue
            ok = False
            if vf == r['free'] and nm == 'push' and len(c.args) == 2 and strip(c.args[1]).kind == 'param' and f in r['release']:
                ok = True
            elif vf == r['free'] and nm == 'pop' and f in r['alloc']:
                ok = True
            elif nm in ('reserve', 'reserve_exact'):
                ok = True
            elif f in r['grow'] and ((vf == r['nodes'] and nm in ('resize', 'resize_with')) or (vf == r['free'] and nm in ('extend', 'push'))):
                ok = True        # form checked by grow-range
            if not ok:
                ctx.add('POOL', f, 'pool-mutation(%s on %s)' % (nm, '.'.join(vf)), 'violation',
                        'unrecognised mutation of the pool: %s on %s in %s (only push(index) in the release function, pop in the allocator, and resize/extend in the growth function are known to preserve the free/in-use partition and the reserved sentinel slot)' % (nm, '.'.join(vf), f.name),
                        PROPS_POOL + ['C02'] + fam_props, span_line(c, f.line))


def select_removal(prog, tree, r, tree_fns):
    """release accounting through helpers: T0 = functions that release exactly one slot on every path; a function that
    releases "raw" (directly, or through a helper that is raw and not exact) must be exact, or be used only by functions
    that are; wrappers W pass their own parameter to the release and write nothing; the removal transaction is the
    innermost exact function that is not a wrapper"""
    key = ('selrem', tree)
    if key in prog._summ_cache:
        return prog._summ_cache[key]
    S = {f.path: release_summary(prog, f, r, tree_fns) for f in tree_fns}
    T0 = {f.path for f in tree_fns if S[f.path] == {1} and f.trait_method() != 'clear'}
    by_path = {f.path: f for f in tree_fns}

    def releasing_callees(f):
        out = []
        for c in f.body.calls:
            tgt = prog.resolve(c)
            if tgt is None:
                continue
            if tgt in r['release']:
                out.append((c, tgt, True))
            elif tgt.path in S and (S[tgt.path] != {0} or tgt.trait_method() == 'clear') and tgt.path != f.path:
                out.append((c, tgt, False))
        return out
    # raw = releases directly or through a helper that is raw and not exact (least fixpoint)
    raw = {f.path for f in tree_fns if f.trait_method() != 'clear' and any(d for _, _, d in releasing_callees(f))}
    changed = True
    while changed:
        changed = False
        for f in tree_fns:
            if f.path in raw or f.trait_method() == 'clear':
                continue
            if any((not d) and t.path in raw and t.path not in T0 for _, t, d in releasing_callees(f)):
                raw.add(f.path)
                changed = True
    bad = []
    for pth in sorted(raw - T0):
        f = by_path[pth]
        callers = [c for _, c in prog.callers(f) if c.self_adt == tree and not c.is_closure]
        if f.trait_item or not callers:
            bad.append(f)
    # pass-through wrappers: exact, release their own parameter, write nothing else
    from summaries import node_writes
    W = {pth for pth in T0 if released_param(prog, by_path[pth], r, T0) is not None and not node_writes(prog, by_path[pth])
         and not any(strip(st.root).kind == 'param' and st.fields() == ('root',) for st in by_path[pth].body.stores)}
    # the removal transaction: the innermost exact function that is not a wrapper
    removal = []
    for pth in sorted(T0 - W):
        f = by_path[pth]
        if all(d or t.path in W for _, t, d in releasing_callees(f)):
            removal.append(f)

    res = {'S': S, 'T0': T0, 'W': W, 'bad': bad, 'removal': removal}
    prog._summ_cache[key] = res
    return res


def run(ctx):
    prog = ctx.prog
    roles = pool_roles(prog)
    if len(roles) < 3 or any(not (r['release'] and r['alloc'] and r['grow']) for r in roles.values()):
        ctx.anchor_missing('POOL', 'pool functions (release / allocate / grow) of the three arenas', PROPS_POOL, len(roles), 3)
    for tree in sorted(prog.tree_adts):
        pool, store_field = tree_pool(prog, tree)
        if pool is None or pool not in roles:
            ctx.anchor_missing('POOL', 'pool of %s' % tree, PROPS_POOL)
            continue
        r = roles[pool]
        tree_fns = [f for f in prog.fns.values() if f.self_adt == tree and not f.is_closure]
        releasers = [f for f in tree_fns if calls_to(prog, f, r['release'])]
        allocators = [f for f in tree_fns if calls_to(prog, f, r['alloc'])]
        clear_fn = [f for f in tree_fns if f.trait_method() == 'clear']
        # ---- the release function itself: its parameter goes onto the free list on EVERY path, exactly once ------------
        for rf in r['release']:
            rb = rf.body
            pushes = [c for c in rb.calls if c.callee_name() == 'push' and prog.classify(c) == 'std' and c.args and vec_field_of(prog, c.args[0]) == r['free']
                      and len(c.args) == 2 and strip(c.args[1]).kind == 'param']
            per_block = {}
            for c in pushes:
                per_block[c.point[0]] = per_block.get(c.point[0], 0) + 1
            counts = release_counts(rb, per_block)
            probs = []
            for ret in rb.cfg.returns:
                cs = counts.get(ret, set())
                if 0 in cs:
                    probs.append('a path through %s returns without putting the slot on the free list: the caller has unlinked it, so it is lost (and clear, which counts what it releases, miscounts)' % rf.name)
                if 2 in cs:
                    probs.append('a path through %s pushes the slot twice' % rf.name)
            if any(in_loop(rb, c.point[0]) for c in pushes):
                probs.append('the push is inside a loop')
            ctx.add('POOL', rf, 'release-always', 'violation' if probs else 'ok', '; '.join(sorted(set(probs))) or 'the release function puts its parameter on the free list exactly once on every path', PROPS_POOL + ['C10'] + {'map': ['C04'], 'set': ['C05'], 'key': ['C01']}.get(rf.family, []), rf.line)
        # ---- who-may-call ------------------------------------------------------------------
        sel = select_removal(prog, tree, r, tree_fns)
        S, T0, W, bad, removal = sel['S'], sel['T0'], sel['W'], sel['bad'], sel['removal']
        if bad or len(removal) != 1:
            ctx.add('POOL', None, 'who-releases(%s)' % tree, 'violation',
                    ('; '.join('%s releases %s slots depending on the path (through %s); every removal must release exactly one' % (f.name, sorted(S[f.path]), sorted(x.name for x in releasers)) for f in bad[:2])) if bad else
                    'slots of %s are released by %s; expected exactly one removal transaction (a function that releases exactly one slot on every path) besides clear, found %s' % (tree, sorted(f.name for f in releasers), sorted(f.name for f in removal)) + ' (clear, which walks the tail of the free list as its queue, cannot be examined either)', PROPS_POOL + ['C12'])
            continue
        rem = removal[0]
        ctx.add('POOL', rem, 'who-releases', 'ok', 'only the removal transaction (%s, exactly one slot on every path) and clear release slots (release calls in %s)' % (rem.name, sorted(f.name for f in releasers)), PROPS_POOL, rem.line)
        # allocation: only new and the linking inserts
        for f in allocators:
            check_alloc(ctx, prog, tree, f, r, tree_fns)
        # pool vectors mutated only inside the pool module (and read-only elsewhere)
        from program import VEC_MUTATORS
        bad_mut = []
        for f in prog.fns.values():
            if f.self_adt == pool or f.is_closure:
                continue
            for c in f.body.calls:
                if prog.classify(c) == 'std' and c.callee_name() in VEC_MUTATORS and c.args:
                    vf = vec_field_of(prog, c.args[0])
                    if vf and f.self_adt == tree and vf[0] == store_field and (c.args[0].ty or '').startswith('&mut'):
                        bad_mut.append((f, c))
        for f, c in bad_mut:
            ctx.add('POOL', f, 'pool-vector-mutated(%s)' % c.callee_name(), 'violation', 'the pool\'s vectors are mutated outside the pool module: %s (the reserved sentinel slot and the free/in-use partition are no longer protected)' % c.callee_name(), PROPS_POOL + ['C02'], span_line(c, f.line))
        if not bad_mut:
            ctx.add('POOL', None, 'pool-encapsulated(%s)' % tree, 'ok', 'buffer and free list of %s are mutated only by the pool\'s own functions (so the sentinel slot reserved at construction is never handed out)' % tree, PROPS_POOL + ['C02'])
        fam_props = FAMILY_PROPS.get(tree.split('::')[0], [])
        check_pool_mutations(ctx, prog, pool, r, fam_props)
        # ---- release pairing in the removal -------------------------------------------------
        n0 = len(ctx.instances)
        check_release(ctx, prog, rem, r, W)
        for inst in ctx.instances[n0:]:
            inst.props |= set(fam_props)
        # ---- growth -----------------------------------------------------------------------------
        for g in r['grow']:
            check_grow(ctx, prog, g, r)
        for a in r['alloc']:
            check_alloc_fn(ctx, prog, a, r)
        # ---- clear ------------------------------------------------------------------------------
        for c in clear_fn:
            n0 = len(ctx.instances)
            check_clear(ctx, prog, c, r, store_field)
            for inst in ctx.instances[n0:]:
                inst.props |= set(fam_props)
    # a slot that is in use and free at once is handed out again by a later insertion, which overwrites a live entry: handles
    # of the map and the set stop designating what they designated (C17); in the key tree lookups and the export go wrong with
    # the tree they read (C06, C07)
    for inst in ctx.instances:
        if inst.rule == 'POOL' and '|' in inst.key:
            fk = inst.key.split('|')[1]
            fam = fk.split('::')[0]
            if fk == '<crate>':
                m_ = inst.key.split('(')[-1]
                fam = m_.split('::')[0] if '::' in m_ else fam
            if fam in ('map', 'set'):
                inst.props.add('C17')
            elif fam == 'key':
                inst.props |= {'C06', 'C07'}
            # growth and allocation clauses are about handing out a slot that is in use (or does not exist): the entry stored there
            # is overwritten - the family's content property
            sig_ = inst.key.split('|')[2] if inst.key.count('|') >= 2 else ''
            if sig_.startswith(('grow-range', 'grow-when-empty', 'pool-mutation', 'alloc-', 'pool-encapsulated')):
                inst.props |= set({'map': ['C04'], 'set': ['C05'], 'key': ['C01']}.get(fam, []))
    run_provenance(ctx)


def set_sum(a, b2):
    return {min(2, x + y) for x in a for y in b2}


def release_summary(prog, f, r, tree_fns, _stack=None):
    """set of possible numbers of slots (0, 1, 2 = two or more) released on the paths through f, through helpers of
    the same tree"""
    key = ('relsum', f.path)
    if key in prog._summ_cache:
        return prog._summ_cache[key]
    _stack = _stack or set()
    if f.path in _stack:
        return {0}
    _stack = _stack | {f.path}
    b = f.body
    per_block = {}
    paths = {x.path for x in tree_fns}
    for c in b.calls:
        tgt = prog.resolve(c)
        contrib = None
        if tgt is not None and tgt in r['release']:
            contrib = {1}
        elif tgt is not None and tgt.path in paths and tgt.trait_method() == 'clear' and tgt.path != f.path:
            contrib = {0, 1, 2}        # clear releases whatever the tree holds
        elif tgt is not None and tgt.path in paths and not tgt.is_closure and tgt.trait_method() != 'clear' and tgt.path not in prog.accessors:
            cs = release_summary(prog, tgt, r, tree_fns, _stack)
            if cs != {0}:
                contrib = cs
        if contrib is not None:
            if in_loop(b, c.point[0]) and contrib != {0}:
                contrib = {0, 1, 2}
            per_block[c.point[0]] = set_sum(per_block.get(c.point[0], {0}), contrib)
    counts = release_counts(b, per_block)
    res = set()
    for ret in b.cfg.returns:
        res |= counts.get(ret, set())
    res = res or {0}
    prog._summ_cache[key] = res
    return res


def release_counts(b, rel_blocks):
    """forward dataflow: the set of possible numbers of releases (capped at 2) performed on the paths from the entry
    to each block's end"""
    cfg = b.cfg
    out = {}
    work = [0]
    inn = {0: {0}}
    while work:
        x = work.pop()
        rb = rel_blocks.get(x, 0)
        rb = rb if isinstance(rb, set) else {rb}
        cur = set_sum(inn.get(x, set()), rb)
        if out.get(x) == cur:
            continue
        out[x] = cur
        for s2 in cfg.succ[x]:
            before = inn.get(s2, set())
            if not cur <= before:
                inn[s2] = before | cur
                work.append(s2)
            elif s2 not in out:
                work.append(s2)
    return out


def released_param(prog, h, r, T0, _depth=0):
    T0 = T0 or ()
    """for an exact helper h: index k of the parameter it releases (directly or through exact helpers), else None"""
    if _depth > 4:
        return None
    ks = set()
    for c in h.body.calls:
        tgt = prog.resolve(c)
        if tgt is None:
            continue
        if tgt in r['release']:
            a = strip(c.args[1])
        elif tgt.path in T0:
            k2 = released_param(prog, tgt, r, T0, _depth + 1)
            if k2 is None or k2 - 1 >= len(c.args):
                return None
            a = strip(c.args[k2 - 1])
        else:
            continue
        if a.kind != 'param':
            return None
        ks.add(a.args[0])
    return ks.pop() if len(ks) == 1 else None


def unlink_params(prog, g):
    """parameter numbers k of g such that g rewrites the child link of some node that equals parameter k: it contains the side test
    `param_k == node(P).left|right` and stores into that node's left / right"""
    key = ('unlinkparams', g.path)
    if key in prog._summ_cache:
        return prog._summ_cache[key]
    out = set()
    b = g.body
    for s0, d0 in b.switch_discr.items():
        d = strip(d0)
        if d.kind != 'bin' or d.args[0] not in ('Eq', 'Ne'):
            continue
        x, y = strip(d.args[1]), strip(d.args[2])
        for p_, q_ in ((x, y), (y, x)):
            if p_.kind == 'param' and q_.kind == 'load':
                nf = prog.node_field(q_)
                if nf and len(nf[1]) == 1 and nf[1][0] in ('left', 'right'):
                    base = strip(nf[0])
                    for st in b.stores:
                        a = prog.accessor_call(strip(st.root))
                        if a is not None and st.fields() and st.fields()[0] in ('left', 'right') and (strip(a[2]) is base or (strip(a[2]).kind == base.kind == 'param' and strip(a[2]).args == base.args)):
                            out.add(p_.args[0])
    prog._summ_cache[key] = out
    return out


class RelSite:
    """a release as seen in the removal: the call (to the pool or to an exact helper) and the value released"""
    def __init__(self, call, arg):
        self.call, self.arg, self.point, self.span = call, arg, call.point, call.span


def check_release(ctx, prog, rem, r, T0=frozenset()):
    b = rem.body
    rel = []
    for c in b.calls:
        tgt = prog.resolve(c)
        if tgt is None:
            continue
        if tgt in r['release']:
            rel.append(RelSite(c, c.args[1]))
        elif tgt.path in T0 and tgt.path != rem.path:
            k = released_param(prog, tgt, r, T0)
            if k is None or k - 1 >= len(c.args):
                ctx.add('POOL', rem, 'release-once', 'violation', 'the removal releases through %s, which does not release one of its own parameters: the released slot cannot be related to the removed index' % tgt.name, PROPS_POOL, span_line(c, rem.line))
                return
            rel.append(RelSite(c, c.args[k - 1]))
    line = rem.line
    if not rel:
        ctx.add('POOL', rem, 'release-once', 'violation', 'the removal contains no release call site; exactly one release is expected on every path (one slot leaves the tree per removal)', PROPS_POOL, line)
        return
    line = span_line(rel[0].call, rem.line)
    problems = []
    per_block = {}
    for c in rel:
        per_block[c.point[0]] = per_block.get(c.point[0], 0) + 1
        if in_loop(b, c.point[0]):
            problems.append('the release is inside a loop: a slot may be released more than once')
    counts = release_counts(b, per_block)
    for ret in b.cfg.returns:
        cs = counts.get(ret, set())
        if 0 in cs:
            problems.append('some path through the removal returns without releasing a slot')
        if 2 in cs:
            problems.append('some path through the removal releases more than one slot (the removal contains %d release call sites)' % len(rel))
    problems = sorted(set(problems))
    all_kinds = []
    for c in rel:
        blk = c.point[0]
        # between the release and the return the slot is on the free list while the removal is still at work: harmless (the
        # repair never asks the pool for anything) unless something after it can take a slot from the pool or touch the pool again
        after = b.cfg.reachable_from(blk) - {blk}
        later = [x for x in b.calls if x is not c.call and x not in [q.call for q in rel] and (x.point[0] in after or (x.point[0] == blk and x.point > c.point))]
        pool_fns = {f.path for f in r['alloc'] + r['release'] + r['grow']}
        def touches_pool(x):
            tgt = prog.resolve(x)
            if tgt is None:
                vf = vec_field_of(prog, x.args[0]) if x.args else None
                return vf is not None and vf[-1:] in (r['free'][-1:], r['nodes'][-1:]) and x.callee_name() in VEC_MUT
            return any(g.path in pool_fns for g in prog.closure(tgt))
        later = [x for x in later if touches_pool(x)]
        if later:
            problems.append('the pool is used again after the slot was released, before the removal has finished (%s)' % later[0].callee_name())
        # the released slot: the parameter, or the successor found below the parameter on the two-children path
        arg = strip(c.arg)
        vals = arg.args if arg.kind == 'phi' else [arg]
        kinds = []
        for v in vals:
            v = strip(v)
            if v.kind == 'param':
                kinds.append('param')
            else:
                ats = origins(prog, rem, v)
                if ats and all(a[0] == 'link' or a[0] == 'param' for a in ats):
                    kinds.append('successor')
                else:
                    kinds.append('other:' + ','.join(sorted(atom_str(a) for a in ats)))
        all_kinds += kinds
        if any(k.startswith('other') for k in kinds):
            problems.append('released slot is %s, expected the removed index or its in-order successor' % kinds)
        # (not checked here: that the released slot, when it is the removal's own parameter, was unlinked from its parent on that
        # path.  A clause to that effect was tried in round 10 - an unlink event being a call of a helper that finds the parent's
        # link by comparing it with the slot - and withdrawn: it recognised the helper in one spelling only and fired on four
        # behaviour-preserving rewrites of the link helpers.  TWIN, ENTITY and NULL report the one independent change that needs it.)
        # if the removal moves a payload from another slot into the removed one, that other slot is the one that leaves
        # the tree on that path and must be the released one
        for st in b.stores:
            a = prog.accessor_call(strip(st.root))
            if a is None:
                continue
            f = st.fields()
            if f and f[0] not in LINKS and f[0] != 'color' and strip(a[2]).kind == 'param':
                if not (st.point[0] == blk or blk in b.cfg.reachable_from(st.point[0])):
                    continue
                srcs = []
                for x in walk(st.value):
                    nf = prog.node_field(x) if x.kind in ('load', 'ref') else None
                    if nf and nf[1] and nf[1][0] not in LINKS and nf[1][0] != 'color':
                        srcs.append(strip(nf[0]))
                if srcs and not any(any(sv is strip(v) for v in vals) for sv in srcs):
                    problems.append('a payload is moved out of slot %s into the removed slot, but the slot released is %s: the slot that now holds the moved payload is freed while in use' % (show(srcs[0], 2), '/'.join(kinds)))
        # on the successor path the payload of the successor must have been moved into the removed slot
        if 'successor' in kinds:
            succ_vals = [strip(v) for v in vals if strip(v).kind != 'param']
            moved = False
            for st in b.stores:
                a = prog.accessor_call(strip(st.root))
                if a is None:
                    continue
                f = st.fields()
                if f and f[0] not in LINKS and f[0] != 'color' and strip(a[2]).kind == 'param':
                    # source: payload of the successor slot
                    for x in walk(st.value):
                        nf = prog.node_field(x) if x.kind in ('load', 'ref') else None
                        if nf and nf[1] and nf[1][0] not in LINKS and nf[1][0] != 'color' and any(strip(nf[0]) is sv for sv in succ_vals):
                            moved = True
            if not moved:
                problems.append('the successor slot is released but its payload was not moved into the removed slot')
    if 'param' not in all_kinds:
        problems.append('released slot is %s, expected the removed index or its in-order successor' % all_kinds)
    kinds = sorted(set(all_kinds))
    problems = list(dict.fromkeys(problems))
    if problems:
        ctx.add('POOL', rem, 'release-once', 'violation', '; '.join(problems[:4]), PROPS_POOL, line, {'released': kinds, 'release_sites': len(rel)})
    else:
        ctx.add('POOL', rem, 'release-once', 'ok', 'exactly one release on every path (%d call site%s), of the unlinked slot, as the last act of the removal' % (len(rel), '' if len(rel) == 1 else 's'), PROPS_POOL, line, {'released': kinds, 'release_sites': len(rel)})


def node_field_names(prog, tree):
    fam = tree.split('::')[0]
    for n in prog.node_adts:
        if n.split('::')[0] == fam:
            return [f['name'] for f in prog.adts[n]['variants'][0]['fields']]
    return []


def on_every_path_after(b, c, site):
    """the site lies on every path from the call c to a return"""
    cb, sb = c.point[0], site.point[0]
    if cb == sb:
        return site.point > c.point
    for ret in b.cfg.returns:
        if ret == sb:
            continue
        if ret == cb or b.cfg.paths_avoiding(cb, ret, {sb}):
            return False
    return True


def check_alloc(ctx, prog, tree, f, r, tree_fns):
    """f (a tree function) takes a slot from the allocator"""
    b = f.body
    calls = calls_to(prog, f, r['alloc'])
    fields = set(node_field_names(prog, tree))
    for c in calls:
        line = span_line(c, f.line)
        # constructor: the first slot is the sentinel, checked against NIL_INDEX
        if b.locals[0]['ty'].split('<')[0] == tree:
            ok = False
            for x in b.calls:
                if x.callee_name() in ('assert_failed', 'panic') or True:
                    pass
            for s, d in b.switch_discr.items():
                d = strip(d)
                if d.kind == 'bin' and d.args[0] in ('Eq', 'Ne'):
                    xs = [strip(d.args[1]), strip(d.args[2])]
                    if any(derives_from_val(x, c) for x in xs) and any(prog.is_nil_index(x) or (x.kind == 'load' and False) or derives_const_nil(prog, x) for x in xs):
                        ok = True
            ctx.add('POOL', f, 'alloc-sentinel', 'ok' if ok else 'violation',
                    'the constructor reserves the first slot and checks it is the sentinel index' if ok else 'the constructor takes a slot that is not checked to be the sentinel index', PROPS_POOL, line)
            continue
        # initialisation: every field of the fresh node is written (directly or through a helper) before the function returns
        from summaries import writes_to
        written = set()
        wr = writes_to(prog, f, c)
        for (flds, vd, site, vv) in wr:
            if flds and on_every_path_after(b, c, site):
                written.add(flds[0])
        missing = fields - written
        problems = []
        if missing:
            problems.append('fields %s of the fresh slot are not initialised on every path (a reused slot keeps stale links)' % sorted(missing))
        # linking: stored into root here, or returned and linked by every caller under the recorded parent
        linked_here = any(strip(st.root).kind == 'param' and st.fields() == ('root',) and strip(st.value) is c for st in b.stores)
        returned = any(strip(rv) is c for rv in b.ret_val.values())
        if not linked_here:
            # linked in place as a child: on every path after the allocation one of the stores node(P).left|right := fresh,
            # P being the node recorded as the fresh slot's parent
            from summaries import node_writes
            parent_vals = [strip(vv) for (flds, vd, site, vv) in wr if flds == ('parent',) and vv is not None]
            link_sites = []
            for (tgt, flds, vd, site, vv) in node_writes(prog, f):
                if flds in (('left',), ('right',)) and vv is not None and strip(vv) is c:
                    tv = tgt[1] if tgt[0] == 'val' else None
                    under = any((tv is not None and tv is pv) or (tgt[0] == 'param' and pv.kind == 'param' and pv.args[0] == tgt[1]) for pv in parent_vals)
                    if under:
                        link_sites.append(site)
            if link_sites:
                blocks = {x.point[0] for x in link_sites}
                cb0 = c.point[0]
                covered = True
                for ret in b.cfg.returns:
                    if ret in blocks or cb0 in blocks:
                        continue
                    if ret == cb0 or b.cfg.paths_avoiding(cb0, ret, blocks):
                        covered = False
                if covered:
                    linked_here = True
        if not linked_here and not returned:
            problems.append('the fresh slot is neither made the root nor returned for linking (slot lost)')
        if returned:
            # parent recorded in the slot
            parent_src = None
            for (flds, vd, site, vv) in wr:
                if flds == ('parent',) and vv is not None:
                    parent_src = strip(vv)
            for call, caller in prog.callers(f):
                if call.kind != 'call':
                    continue
                cb = caller.body
                ok = False
                from summaries import node_writes
                # a call site that passes no parent (EMPTY_REF) makes the fresh slot the root
                if parent_src is not None and parent_src.kind == 'param':
                    k0 = parent_src.args[0]
                    pa = strip(call.args[k0 - 1]) if k0 - 1 < len(call.args) else None
                    if pa is not None and prog.is_empty_ref(pa):
                        for st in cb.stores:
                            if strip(st.root).kind == 'param' and st.fields() == ('root',) and strip(st.value) is call and on_every_path_after(cb, call, st):
                                ok = True
                link_blocks = set()
                for (tgt, flds, vd, site, vv) in node_writes(prog, caller):
                    if flds not in (('left',), ('right',)) or vv is None or strip(vv) is not call:
                        continue
                    # under the node recorded as parent
                    if parent_src is not None and parent_src.kind == 'param':
                        k = parent_src.args[0]
                        parent_arg = strip(call.args[k - 1]) if k - 1 < len(call.args) else None
                        tv = tgt[1] if tgt[0] == 'val' else None
                        if parent_arg is not None and ((tv is not None and tv is parent_arg) or (tgt[0] == 'param' and parent_arg.kind == 'param' and parent_arg.args[0] == tgt[1])):
                            if on_every_path_after(cb, call, site):
                                ok = True
                            elif site.point[0] != call.point[0]:
                                link_blocks.add(site.point[0])
                if not ok and link_blocks:
                    # the link is written in one of several branches (left or right): together they must cover every path
                    ok = True
                    for ret in cb.cfg.returns:
                        if ret in link_blocks:
                            continue
                        if ret == call.point[0] or cb.cfg.paths_avoiding(call.point[0], ret, link_blocks):
                            ok = False
                if not ok:
                    problems.append('caller %s does not link the fresh slot as a child of the node recorded as its parent on every path' % caller.name)
        # who may allocate: the linking inserts only
        if problems:
            ctx.add('POOL', f, 'alloc-init-link', 'violation', '; '.join(problems), PROPS_POOL, line)
        else:
            ctx.add('POOL', f, 'alloc-init-link', 'ok', 'fresh slot fully initialised (%s) and linked (%s)' % (sorted(written), 'root, or child link of its recorded parent, in place' if linked_here else 'child link of its recorded parent in every caller'), PROPS_POOL, line)


def derives_from_val(v, target):
    for x in walk(v):
        if x is target:
            return True
    return False


def derives_const_nil(prog, v):
    for x in walk(v):
        if prog.is_nil_index(x):
            return True
    return False


def check_alloc_fn(ctx, prog, a, r):
    """the allocator: grow is called only when the free list is empty"""
    b = a.body
    grows = calls_to(prog, a, r['grow'])
    line = a.line
    if not grows:
        ctx.add('POOL', a, 'grow-when-empty', 'violation', 'allocator never grows the arena', PROPS_POOL, line)
        return
    g = grows[0]
    line = span_line(g, a.line)
    ok = False
    for s, d in b.switch_discr.items():
        d = strip(d)
        neg = False
        while d.kind == 'un' and d.args[0] == 'Not':
            d = strip(d.args[1])
            neg = not neg
        if d.kind == 'call' and d.callee_name() == 'is_empty' and vec_field_of(prog, d.args[0]) == r['free']:
            from rules.gate import edge_truth
            t = b.mir['blocks'][s]['term']
            for succ in b.cfg.succ[s]:
                tr = edge_truth(t, succ)
                if tr is not None and (tr != neg) and b.cfg.pred[succ] == [s] and b.cfg.dominates(succ, g.point[0]):
                    ok = True
        from rules.gate import edge_truth
        t = b.mir['blocks'][s]['term']
        if d.kind == 'bin' and d.args[0] in ('Eq', 'Ne'):
            xs = [strip(x) for x in d.args[1:]]
            ln = [x for x in xs if x.kind == 'call' and x.callee_name() == 'len' and vec_field_of(prog, x.args[0]) == r['free']]
            if ln and any(x.is_const(0) for x in xs):
                want = (d.args[0] == 'Eq') != neg
                for succ in b.cfg.succ[s]:
                    tr = edge_truth(t, succ)
                    if tr is not None and tr == want and b.cfg.pred[succ] == [s] and b.cfg.dominates(succ, g.point[0]):
                        ok = True
        # "pop() returned None": the free list was empty at that moment and the failed pop changed nothing
        if d.kind == 'discr' and not neg:
            pv = strip(d.args[0])
            if pv.kind == 'call' and pv.callee_name() == 'pop' and vec_field_of(prog, pv.args[0]) == r['free']:
                for succ in b.cfg.succ[s]:
                    tr = edge_truth(t, succ)
                    if tr is False and b.cfg.pred[succ] == [s] and b.cfg.dominates(succ, g.point[0]):
                        ok = True
    # growth amount: derived from the free list's capacity or a constant (bounded by the current size)
    amount = strip(g.args[1]) if len(g.args) > 1 else None
    amt_ok = amount is not None and (amount.kind == 'const' or (amount.kind == 'call' and amount.callee_name() in ('capacity', 'len') and vec_field_of(prog, amount.args[0]) in (r['free'], r['nodes'])))
    # pop after the growth, on every path
    if ok and amt_ok:
        ctx.add('POOL', a, 'grow-when-empty', 'ok', 'the arena grows only when the free list is empty, by the free list\'s capacity (at most the current size)', PROPS_POOL, line)
    else:
        ctx.add('POOL', a, 'grow-when-empty', 'violation',
                ('growth is not guarded by "free list is empty"' if not ok else 'growth amount %s is not bounded by the current size' % show(amount, 3)), PROPS_POOL, line)


def unover(v):
    v = strip(v)
    if v.kind == 'load' and v.fields() == ('0',):
        v = strip(v.args[0])
    return v


def counted_push_bounds(prog, b, push):
    """`let mut i = A; while i > B { i -= 1; push(i) }`  or  `let mut i = B; while i < A { push(i); i += 1 }`:
    (B, A) = the half-open interval of values pushed, else None"""
    from rules.gate import edge_truth
    if push.callee_name() != 'push' or len(push.args) != 2:
        return None
    # `for i in (lo..hi).rev() { free.push(i) }`
    pv = strip(push.args[1])
    if pv.kind == 'load' and tuple(pv.fields()) == ('as:Some', '0') and strip(pv.args[0]).kind == 'call' and strip(pv.args[0]).callee_name() == 'next':
        from rules.reset import iterator_source
        nx = strip(pv.args[0])
        src = iterator_source(b, nx.args[0]) if nx.args else None
        while src is not None and src.kind == 'call' and src.callee_name() in ('rev', 'into_iter') and src.args:
            src = strip(src.args[0])
        if src is not None and src.kind == 'agg' and src.extra.get('path', '').endswith('Range') and len(src.args) == 2:
            return (strip(src.args[0]), strip(src.args[1]))
        return None
    loops = b.cfg.loops()
    hs = [h for h, body in loops.items() if push.point[0] in body]
    if len(hs) != 1:
        return None
    h = hs[0]
    body = loops[h]
    val = unover(push.args[1])
    for I in b.phis.get(h, {}).values():
        if 'same_as' in I.extra:
            continue
        inits = [strip(a) for a, p in zip(I.args, I.extra['preds']) if p not in body]
        steps = [unover(a) for a, p in zip(I.args, I.extra['preds']) if p in body]
        if len(inits) != 1 or len(steps) != 1:
            continue
        st = steps[0]
        if st.kind != 'bin' or unover(st.args[1]) is not I or not strip(st.args[2]).is_const(1):
            continue
        op = st.args[0].replace('WithOverflow', '').replace('Unchecked', '')
        # the guard at the header
        d = b.switch_discr.get(h)
        if d is None:
            continue
        d = strip(d)
        if d.kind != 'bin':
            continue
        x, y = strip(d.args[1]), strip(d.args[2])
        t = b.mir['blocks'][h]['term']
        stay = None
        for succ in b.cfg.succ[h]:
            tr = edge_truth(t, succ)
            if tr is not None and succ in body:
                stay = tr
        if stay is None:
            continue
        rel = d.args[0]
        if not stay:
            rel = {'Gt': 'Le', 'Ge': 'Lt', 'Lt': 'Ge', 'Le': 'Gt', 'Eq': 'Ne', 'Ne': 'Eq'}.get(rel)
        if op == 'Sub' and val is st and ((rel == 'Gt' and x is I) or (rel == 'Lt' and y is I)):
            bound = y if x is I else x
            return (strip(bound), inits[0])          # pushes A-1 .. B  =  [B, A)
        if op == 'Add' and val is I and ((rel == 'Lt' and x is I) or (rel == 'Gt' and y is I)):
            bound = y if x is I else x
            return (inits[0], strip(bound))          # pushes B .. A-1
    return None


def check_grow(ctx, prog, g, r):
    """buffer extended by `length` nodes, free list by exactly old_len .. old_len + length"""
    b = g.body
    line = g.line
    resize = [c for c in b.calls if c.callee_name() in ('resize', 'resize_with') and vec_field_of(prog, c.args[0]) == r['nodes']]
    extend = [c for c in b.calls if c.callee_name() in ('extend', 'extend_from_slice', 'push') and vec_field_of(prog, c.args[0]) == r['free']]
    problems = []
    if len(resize) != 1 or len(extend) != 1:
        problems.append('expected one resize of the node vector and one extend of the free list, found %d / %d' % (len(resize), len(extend)))
    else:
        rz, ex = resize[0], extend[0]
        # new length = len(nodes) + Param
        nl = strip(rz.args[1])
        if nl.kind == 'load' and nl.fields() == ('0',):
            nl = strip(nl.args[0])
        good_len = False
        if nl.kind == 'bin' and nl.args[0].startswith('Add'):
            x, y = strip(nl.args[1]), strip(nl.args[2])
            for p, q in ((x, y), (y, x)):
                if p.kind == 'call' and p.callee_name() == 'len' and vec_field_of(prog, p.args[0]) == r['nodes'] and q.kind == 'param':
                    good_len = True
                    amount_param = q.args[0]
        if not good_len:
            problems.append('node vector is not resized to len + length')
        # range: old_len .. old_len + length (possibly reversed), old_len read before the resize
        rng = None
        for x in walk(ex.args[1]):
            if x.kind == 'agg' and x.extra.get('path', '').endswith('Range') and len(x.args) == 2:
                rng = x
        bounds = (strip(rng.args[0]), strip(rng.args[1])) if rng is not None else counted_push_bounds(prog, b, ex)
        if bounds is None:
            problems.append('free list is not extended by an index range')
        else:
            lo, hi = bounds
            lo_ok = lo.kind == 'call' and lo.callee_name() == 'len' and vec_field_of(prog, lo.args[0]) == r['nodes'] and (lo.point < rz.point)
            hi2 = hi
            if hi2.kind == 'load' and hi2.fields() == ('0',):
                hi2 = strip(hi2.args[0])
            hi_ok = False
            if hi2.kind == 'bin' and hi2.args[0].startswith('Add'):
                x, y = strip(hi2.args[1]), strip(hi2.args[2])
                for p, q in ((x, y), (y, x)):
                    if p is lo and q.kind == 'param' and good_len and q.args[0] == amount_param:
                        hi_ok = True
            if not lo_ok:
                problems.append('range of new free indices does not start at the old length of the node vector')
            if not hi_ok:
                problems.append('range of new free indices does not end at old length + length')
            # adapters other than rev change the set of indices
            for x in (walk(ex.args[1]) if rng is not None else []):
                if x.kind == 'call' and x.callee_name() not in ('rev', 'into_iter') and any(y is rng for y in walk(x)):
                    problems.append('index range is passed through %s before extending the free list' % x.callee_name())
    if problems:
        ctx.add('POOL', g, 'grow-range', 'violation', '; '.join(problems), PROPS_POOL + ['C10'], line)      # free indices the arena does not have are out-of-bounds accesses
    else:
        ctx.add('POOL', g, 'grow-range', 'ok', 'buffer grows by `length` default nodes and the free list by exactly old_len..old_len+length', PROPS_POOL + ['C10'], line)


def check_clear(ctx, prog, c, r, store_field):
    """clear: release root (if any), root := EMPTY_REF, then breadth-first release of non-empty children of
    slots read back from the free list, until a pass releases nothing"""
    b = c.body
    rel = calls_to(prog, c, r['release'])
    line = c.line
    problems = []
    root_rel, child_rel = [], []
    sel_of = {}
    for call in rel:
        arg = strip(call.args[1])
        if arg.kind == 'load' and prog.self_field(arg) == ('root',):
            root_rel.append(call)
            continue
        # `for child in [node.left, node.right]`: the value released is one of the listed links, each in turn
        cands = [strip(x) for x in arg.args] if (arg.kind == 'phi' and arg.extra.get('anyof')) else [arg]
        good = []
        for cand in cands:
            nf = prog.node_field(cand) if cand.kind == 'load' else None
            if nf and nf[1] in (('left',), ('right',)):
                # the node must be one read back from the free list
                ats = origins(prog, c, nf[0])
                if all(a[0] == 'elem' and a[1] and a[1][-1] == r['free'][-1] for a in ats):
                    good.append((call, nf[1][0], cand))
        if len(good) == len(cands):
            for g_ in good:
                child_rel.append(g_)
                sel_of[id(g_)] = arg if len(cands) > 1 or arg is not cands[0] else None
            continue
        problems.append('clear releases %s, which is neither the root nor a child link of a slot taken from the free list' % show(arg, 3))
    if len(root_rel) != 1:
        problems.append('clear releases the root %d times' % len(root_rel))
    sides = sorted(s for _, s, _ in child_rel)
    if sides != ['left', 'right']:
        problems.append('clear releases child links %s of each visited slot; expected exactly left and right' % sides)
    # each child release guarded by != EMPTY_REF (nullness analysis knows): reuse NULL analysis state
    na = getattr(ctx, 'null_analysis', None)
    for cr in child_rel:
        call, side, arg = cr
        sel = sel_of.get(id(cr))
        guarded = False
        for s, d in b.switch_discr.items():
            d = strip(d)
            if d.kind == 'bin' and d.args[0] in ('Ne', 'Eq'):
                x, y = strip(d.args[1]), strip(d.args[2])
                for p, q in ((x, y), (y, x)):
                    if prog.is_empty_ref(q) and ((sel is not None and p is sel) or (p.kind == 'load' and prog.node_field(p) and prog.node_field(p)[1] == (side,) and strip(prog.node_field(p)[0]) is strip(prog.node_field(arg)[0]))):
                        from rules.gate import edge_truth
                        t = b.mir['blocks'][s]['term']
                        for succ in b.cfg.succ[s]:
                            tr = edge_truth(t, succ)
                            if tr is not None and (tr if d.args[0] == 'Ne' else not tr) and b.cfg.pred[succ] == [s] and b.cfg.dominates(succ, call.point[0]):
                                guarded = True
                                # the test itself must be made for every visited slot: not only when the other child is (not) empty
                                other = 'right' if side == 'left' else 'left'
                                for s0, d0 in b.switch_discr.items():
                                    d0 = strip(d0)
                                    if s0 == s or d0.kind != 'bin' or d0.args[0] not in ('Ne', 'Eq'):
                                        continue
                                    x0, y0 = strip(d0.args[1]), strip(d0.args[2])
                                    for p0, q0 in ((x0, y0), (y0, x0)):
                                        if prog.is_empty_ref(q0) and p0.kind == 'load' and prog.node_field(p0) and prog.node_field(p0)[1] == (other,) \
                                                and strip(prog.node_field(p0)[0]) is strip(prog.node_field(arg)[0]):
                                            for succ0 in set(b.cfg.succ[s0]):
                                                if b.cfg.pred[succ0] == [s0] and b.cfg.dominates(succ0, s) and not all(b.cfg.dominates(z, s) for z in set(b.cfg.succ[s0]) if z in b.cfg.can_return):
                                                    problems.append('the %s child of a visited slot is examined only on one side of the test of its %s child: when both are present, the %s subtree is never released' % (side, other, side))
                                if not b.cfg.postdominates(call.point[0], succ):
                                    problems.append('a non-empty %s child is not always released (the release is under a further condition)' % side)
        if not guarded:
            problems.append('the %s child is released without testing it against EMPTY_REF' % side)
    if root_rel:
        rr = root_rel[0]
        # root release guarded by root != EMPTY_REF and followed by root := EMPTY_REF before the scan
        stores = [st for st in b.stores if strip(st.root).kind == 'param' and st.fields() == ('root',)]
        if not stores or not all(prog.is_empty_ref(st.value) for st in stores):
            problems.append('root is not set to EMPTY_REF')
        elif not (rr.point < stores[0].point or b.cfg.dominates(rr.point[0], stores[0].point[0])):
            problems.append('root is emptied before it is released')
    # the scan: an index range over the tail of the free list [len - n, len), n = number released in the previous pass
    # the scan reads the child links of slots that were already released: the release function must leave them intact
    if child_rel:
        for rf in r['release']:
            for st in rf.body.stores:
                fl = st.fields()
                if fl and fl[-1] in ('left', 'right'):
                    problems.append('the scan reads the child links of released slots, but the release function %s overwrites %s of the slot it releases: every slot below the root is lost' % (rf.name, fl[-1]))
                    break
    loops = b.cfg.loops()
    outer = [h for h, body in loops.items() if all(cr[0].point[0] in body for cr in child_rel)]
    if child_rel:
        # coverage of the scan: idiom A (pass by pass, counting the releases of the previous pass) or idiom B (one cursor
        # running over the tail of the free list, which doubles as the breadth-first queue)
        why_a = None
        if len(outer) < 2:
            why_a = 'children are not released in a pass-by-pass loop'
        else:
            why_a = check_clear_counter(prog, c, child_rel, r)
        if why_a:
            why_b = check_clear_cursor(prog, c, child_rel, r, root_rel, outer)
            if why_b:
                problems.append('%s; nor is it a single cursor over the tail of the free list: %s' % (why_a, why_b))
    if problems:
        ctx.add('POOL', c, 'clear-returns-all', 'violation', '; '.join(problems), PROPS_POOL + ['C12'], line)
    else:
        ctx.add('POOL', c, 'clear-returns-all', 'ok', 'clear releases the root and then, pass by pass, exactly the non-empty children of the slots released in the previous pass', PROPS_POOL + ['C12'], line)


def check_clear_cursor(prog, c, child_rel, r, root_rel, loops_containing):
    """idiom B: cursor starts at the free list's length before the root is released, advances by one per visited
    element, and the loop runs while cursor < len (re-read)"""
    b = c.body
    cfg = b.cfg
    if not loops_containing or not root_rel:
        return 'no loop around the child releases'
    loops = cfg.loops()
    why = None
    for h in sorted(loops_containing, key=lambda x: len(loops[x])):
        why = check_clear_cursor_at(prog, c, child_rel, r, root_rel, h, loops[h])
        if why is None:
            return None
    return why


def check_clear_cursor_at(prog, c, child_rel, r, root_rel, h, body):
    b = c.body
    cfg = b.cfg
    # the slot visited: element of the free list at the cursor
    nf = prog.node_field(strip(child_rel[0][2]))
    elem = strip(nf[0])
    idx_call = None
    for x in walk(elem):
        if x.kind == 'call' and x.callee_name() in ('index', 'index_mut', 'get_unchecked', 'get') and len(x.args) == 2 and (vec_field_of(prog, x.args[0]) or ())[-1:] == r['free'][-1:]:
            idx_call = x
    if idx_call is None:
        return 'visited slots are not read from the free list'
    cur = strip(idx_call.args[1])
    if cur.kind != 'phi' or cur.extra['block'] != h:
        return 'the position read is not a loop-carried cursor'
    inits = [strip(a) for a, p in zip(cur.args, cur.extra['preds']) if p not in body]
    steps = [strip(a) for a, p in zip(cur.args, cur.extra['preds']) if p in body]
    rr = root_rel[0]
    for i0 in inits:
        # the cursor may also start at `len - 1` read AFTER the root was released: that is the root's own entry
        j0 = i0
        if j0.kind == 'load' and j0.fields() == ('0',):
            j0 = strip(j0.args[0])
        if j0.kind == 'bin' and j0.args[0].startswith('Sub') and strip(j0.args[2]).is_const(1):
            l0 = strip(j0.args[1])
            if l0.kind == 'call' and l0.callee_name() == 'len' and (vec_field_of(prog, l0.args[0]) or ())[-1:] == r['free'][-1:] \
                    and rr.point < l0.point and cfg.dominates(rr.point[0], l0.point[0]) \
                    and not any(x is not rr and getattr(x, 'point', None) is not None and rr.point < x.point < l0.point and x.point[0] in (rr.point[0], l0.point[0])
                                for x in [q[0] for q in child_rel]):
                continue
        if not (i0.kind == 'call' and i0.callee_name() == 'len' and (vec_field_of(prog, i0.args[0]) or ())[-1:] == r['free'][-1:]):
            return 'the cursor does not start at the length of the free list'
        if not (i0.point < rr.point and cfg.dominates(i0.point[0], rr.point[0])):
            return 'the cursor starts behind the root\'s entry (the root\'s children are never visited)'
    for s1 in steps:
        v = s1
        if v.kind == 'load' and v.fields() == ('0',):
            v = strip(v.args[0])
        if not (v.kind == 'bin' and v.args[0].startswith('Add') and strip(v.args[1]) is cur and strip(v.args[2]).is_const(1)):
            return 'the cursor does not advance by exactly one per visited slot'
    # guard: cursor < len(free) re-read inside the loop; the only exit
    g = None
    for blk in body:
        d = b.switch_discr.get(blk)
        if d is None:
            continue
        d = strip(d)
        if d.kind == 'bin' and d.args[0] in ('Lt', 'Gt'):
            x, y = strip(d.args[1]), strip(d.args[2])
            small, big = (x, y) if d.args[0] == 'Lt' else (y, x)
            if small is cur and big.kind == 'call' and big.callee_name() == 'len' and (vec_field_of(prog, big.args[0]) or ())[-1:] == r['free'][-1:] and big.point[0] in body:
                g = blk
    if g is None:
        # `while let Some(&i) = free.get(cursor)`: Some exactly while cursor < len, evaluated anew in every round
        for blk in body:
            d = b.switch_discr.get(blk)
            if d is None:
                continue
            d = strip(d)
            if d.kind == 'discr':
                o = strip(d.args[0])
                if o is not None and o.kind == 'call' and o.callee_name() == 'get' and len(o.args) == 2 and (vec_field_of(prog, o.args[0]) or ())[-1:] == r['free'][-1:] and strip(o.args[1]) is cur and o.point[0] in body:
                    g = blk
    if g is None:
        return 'the loop does not run while cursor < free_list.len() (length re-read in every round)'
    exits = [x for x in body for s2 in cfg.succ[x] if s2 not in body and s2 in cfg.can_return]
    if any(x != g for x in exits):
        return 'the scan can be left before the cursor reaches the end of the free list'
    return None


def counted_scan_bounds(prog, b, child_rel, r):
    """`let mut i = lo; while i < hi { let index = free[i]; ..; i += 1 }`: (lo, hi) of the positions scanned, else None"""
    from rules.gate import edge_truth
    nf = prog.node_field(strip(child_rel[0][2]))
    if nf is None:
        return None
    pos = None
    for x in walk(strip(nf[0])):
        if x.kind == 'call' and x.callee_name() in ('index', 'index_mut', 'get_unchecked', 'get') and len(x.args) == 2 and (vec_field_of(prog, x.args[0]) or ())[-1:] == r['free'][-1:]:
            pos = strip(x.args[1])
    if pos is None or pos.kind != 'phi':
        return None
    h = pos.extra['block']
    loops = b.cfg.loops()
    if h not in loops:
        return None
    body = loops[h]
    inits = [strip(a) for a, p in zip(pos.args, pos.extra['preds']) if p not in body]
    steps = [unover(a) for a, p in zip(pos.args, pos.extra['preds']) if p in body]
    if len(inits) != 1 or not steps:
        return None
    for st in steps:
        if not (st.kind == 'bin' and st.args[0].startswith('Add') and unover(st.args[1]) is pos and strip(st.args[2]).is_const(1)):
            return None
    d = b.switch_discr.get(h)
    if d is None:
        return None
    d = strip(d)
    if d.kind != 'bin':
        return None
    x, y = strip(d.args[1]), strip(d.args[2])
    t = b.mir['blocks'][h]['term']
    stay = None
    for succ in b.cfg.succ[h]:
        tr = edge_truth(t, succ)
        if tr is not None and succ in body:
            stay = tr
    if stay is None:
        return None
    rel = d.args[0] if stay else {'Gt': 'Le', 'Ge': 'Lt', 'Lt': 'Ge', 'Le': 'Gt'}.get(d.args[0])
    if rel == 'Lt' and x is pos:
        return (inits[0], y)
    if rel == 'Gt' and y is pos:
        return (inits[0], x)
    return None


def check_clear_counter(prog, c, child_rel, r):
    """the pass counter n: reset to 0 per pass, +1 per release; the pass scans free[len-n .. len)"""
    b = c.body
    # range start must be len(free) - n  and end len(free)
    rng = None
    for v in b._vals:
        if v.kind == 'agg' and v.extra.get('path', '').endswith('Range') and len(v.args) == 2:
            rng = v
    if rng is None:
        cb = counted_scan_bounds(prog, b, child_rel, r)
        if cb is None:
            return 'no index range over the free list'
        lo, hi = cb
    else:
        lo, hi = strip(rng.args[0]), strip(rng.args[1])
    if lo.kind == 'load' and lo.fields() == ('0',):
        lo = strip(lo.args[0])
    if not (hi.kind == 'call' and hi.callee_name() == 'len' and vec_field_of(prog, hi.args[0]) == tuple(['store'] + list(r['free'])) or (hi.kind == 'call' and hi.callee_name() == 'len' and (vec_field_of(prog, hi.args[0]) or ())[-1:] == r['free'][-1:])):
        return 'scan does not end at the end of the free list'
    if not (lo.kind == 'bin' and lo.args[0].startswith('Sub')):
        return 'scan does not start at len - n'
    a, n = strip(lo.args[1]), strip(lo.args[2])
    if not (a.kind == 'call' and a.callee_name() == 'len' and (vec_field_of(prog, a.args[0]) or ())[-1:] == r['free'][-1:]):
        return 'scan does not start at len - n'
    if n.kind != 'phi':
        return 'pass counter is not loop-carried'
    # form B of the counter: n = free.len() (after the pass) - end (the length the pass started with): what the pass pushed
    loops0 = b.cfg.loops()
    by_difference = False
    if n.extra['block'] in loops0:
        body0 = loops0[n.extra['block']]
        steps0 = [unover(x) for x, p_ in zip(n.args, n.extra['preds']) if p_ in body0]
        if steps0 and all(s0.kind == 'bin' and s0.args[0].startswith('Sub') and strip(s0.args[1]).kind == 'call' and strip(s0.args[1]).callee_name() == 'len'
                          and (vec_field_of(prog, strip(s0.args[1]).args[0]) or ())[-1:] == r['free'][-1:] and strip(s0.args[2]) is hi
                          and strip(s0.args[1]).point > hi.point for s0 in steps0):
            by_difference = True
    # n's increments: exactly one per release call, in the same guarded block region
    incs = []
    for v in b._vals:
        if v.kind == 'bin' and v.args[0].startswith('Add'):
            x, y = strip(v.args[1]), strip(v.args[2])
            if y.kind == 'const' and y.args[0] == 1 and x.kind == 'phi' and x.extra['local'] == n.extra['local']:
                incs.append(v)
    if not by_difference and len(incs) != len(child_rel):
        return 'pass counter is incremented %d times for %d releases' % (len(incs), len(child_rel))
    # the counter of the previous pass is the one at the header of the outer loop; each pass starts counting from 0;
    # the passes stop exactly when a pass released nothing
    loops = b.cfg.loops()
    containing = sorted([h for h, body in loops.items() if all(cr[0].point[0] in body for cr in child_rel)], key=lambda h: len(loops[h]))
    if len(containing) >= 2:
        inner_h, outer_h = containing[0], containing[-1]
        if n.extra['block'] != outer_h:
            return 'the scan does not start at len - (releases of the previous pass)'
        inner_phi = [ph for l, ph in b.phis.get(inner_h, {}).items() if l == n.extra['local']]
        if by_difference:
            inner_phi = []
        for ph in inner_phi:
            for a, p in zip(ph.args, ph.extra['preds']):
                if p not in loops[inner_h] and not strip(a).is_const(0):
                    return 'the pass counter is not reset to 0 at the start of a pass (it keeps growing: slots are released again and the passes never end)'
        if not inner_phi and not by_difference:
            return 'the pass counter is not maintained inside the scan'
        from rules.gate import edge_truth
        guard_ok = False
        for blk in loops[outer_h]:
            d = b.switch_discr.get(blk)
            if d is None or blk in loops[inner_h]:
                continue
            d = strip(d)
            if d.kind != 'bin':
                continue
            x, y = strip(d.args[1]), strip(d.args[2])
            stays_when = None
            if d.args[0] == 'Gt' and x is n and y.is_const(0):
                stays_when = True
            elif d.args[0] == 'Lt' and y is n and x.is_const(0):
                stays_when = True
            elif d.args[0] == 'Ne' and ((x is n and y.is_const(0)) or (y is n and x.is_const(0))):
                stays_when = True
            elif d.args[0] == 'Eq' and ((x is n and y.is_const(0)) or (y is n and x.is_const(0))):
                stays_when = False
            if stays_when is None:
                continue
            t = b.mir['blocks'][blk]['term']
            for succ in b.cfg.succ[blk]:
                tr = edge_truth(t, succ)
                if tr is not None and tr != stays_when and succ not in loops[outer_h]:
                    guard_ok = True
        if not guard_ok:
            return 'the passes do not stop exactly when a pass released nothing (no exit on counter == 0)'
    for inc in incs:
        blk = inc.point[0]
        if not any(b.cfg.dominates(cr[0].point[0], blk) or b.cfg.dominates(blk, cr[0].point[0]) and cr[0].point[0] == blk for cr in child_rel):
            # the increment must be control-equivalent to a release: dominated by the release's block
            if not any(b.cfg.dominates(cr[0].point[0], blk) for cr in child_rel):
                return 'a counter increment is not tied to a release'
    return None


# ---------------------------------------------------------------------------------------------
ALLOWED = ('root', 'link', 'pop', 'param')


def run_provenance(ctx):
    prog = ctx.prog
    tree_acc = {p: a for p, a in prog.accessors.items() if a['fn'].body.locals[2]['ty'] == 'u32'}
    roles = pool_roles(prog)
    n = 0
    for fn in prog.fns.values():
        b = fn.body
        for call in b.calls:
            tgt = prog.resolve(call)
            if tgt is None:
                continue
            is_acc = tgt.path in tree_acc
            is_tree_fn = tgt.self_adt in prog.tree_adts or tgt.self_adt in prog.pool_adts
            if not (is_acc or is_tree_fn):
                continue
            for k in range(1, tgt.body.arg_count + 1):
                if tgt.body.locals[k]['ty'] != 'u32' or k - 1 >= len(call.args):
                    continue
                arg = call.args[k - 1]
                # pool growth arithmetic is about counts, not slot numbers
                if tgt.self_adt in prog.pool_adts and tgt not in roles.get(tgt.self_adt, {}).get('release', []):
                    continue
                n += 1
                ats = origins(prog, fn, arg)
                bad = []
                for a in ats:
                    if a[0] in ALLOWED:
                        continue
                    if a[0] == 'const' and a[1] in ('NIL_INDEX', 'EMPTY_REF'):
                        continue
                    if a[0] == 'elem' and fn.trait_method() == 'clear' and a[1] and a[1][-1] == 'unused':
                        continue
                    bad.append(a)
                sig = '%s(arg%d)' % (tgt.name, k)
                line = span_line(call, fn.line)
                det = {'origins': sorted(atom_str(a) for a in ats)}
                if bad:
                    kinds = sorted({a[0] for a in bad})
                    what = 'raw slot number' if any(x in ('range', 'arith', 'len', 'search') for x in kinds) else 'value of unknown provenance'
                    ctx.add('PROVENANCE', fn, '%s|%s' % (sig, what), 'violation',
                            '%s receives a %s (%s): nothing read from a slot that is not known to be in the tree can establish that it is, and acting on it can release a slot twice or unlink a live neighbour'
                            % (tgt.name, what, ', '.join(sorted(atom_str(a) for a in bad))), PROPS_PROV, line, det)
                else:
                    ctx.add('PROVENANCE', fn, sig, 'ok', 'index comes from the tree, the allocator, the sentinel or a caller\'s handle', PROPS_PROV, line, det,
                            nontrivial=not all(a[0] in ('param', 'const') for a in ats))
    ctx.stat('PROVENANCE', sites=n)
    if n < 150:
        ctx.anchor_missing('PROVENANCE', 'index arguments of arena accessors and tree functions', PROPS_PROV, n, 150)
