"""TWIN: sibling copies agree; mirrored code is symmetric (DESIGN section 4, C02).

A contradiction rule over canonical HIR: the reference is never a stored copy of the code, it is the other copy
(map / set / key tree modules are near-verbatim copies) or the other arm (left/right symmetric case analysis) in
the *current* tree."""
from hircanon import canon_fn, mirror, swap_lr, show, first_diff, fam_erase
from rules.layer import has_user_code
import gef as G
from ssa import strip

RULE = 'TWIN'
PROPS = ['C02']


def family_core(prog, tree):
    from rules.pool import tree_pool
    pool, _ = tree_pool(prog, tree)
    out = {}
    for f in prog.fns.values():
        if f.is_closure or f.trait_item:
            continue
        if f.self_adt == tree:
            kind = 'tree'
        elif f.self_adt == pool:
            kind = 'pool'
        else:
            continue
        if has_user_code(prog, f):
            continue
        out[(kind, f.name)] = f
    return out


def is_index_expr(x):
    """a local / parameter, or a field path: something that designates a node (not a constant)"""
    return isinstance(x, tuple) and x and x[0] in ('L', '.')


def side_pred(c):
    """X == E.left|right with X an index expression (not EMPTY_REF / a literal): 'X is the left/right child of E'"""
    if isinstance(c, tuple) and len(c) == 3 and c[0] == '==':
        for a, b in ((c[1], c[2]), (c[2], c[1])):
            if isinstance(b, tuple) and len(b) == 3 and b[0] == '.' and b[2] in ('left', 'right') and is_index_expr(a) \
                    and not (isinstance(a, tuple) and a[0] == '.' and a[2] in ('left', 'right')):
                return True
    return False


def normalise(t, subst=None):
    """inline side-predicate bool locals; !SIDE(L) == SIDE(R)"""
    subst = subst or {}
    if not isinstance(t, tuple):
        return t
    if t and t[0] == 'L' and len(t) == 2 and t[1] in subst:
        return subst[t[1]]
    if t and t[0] == 'block':
        stmts = []
        local = dict(subst)
        for s in t[1]:
            if isinstance(s, tuple) and s and s[0] == 'let' and isinstance(s[1], tuple) and s[1][0] == 'bind' and len(s[1]) == 2:
                init = normalise(s[2], local)
                if side_pred(init):
                    local[s[1][1][1]] = init
                    continue
                stmts.append(('let', s[1], init))
            else:
                stmts.append(normalise(s, local))
        tail = normalise(t[2], local)
        return ('block', tuple(stmts), tail)
    out = tuple(normalise(x, subst) for x in t)
    if out and out[0] == '!' and len(out) == 2 and side_pred(out[1]):
        c = out[1]
        a, b = c[1], c[2]
        if isinstance(b, tuple) and len(b) == 3 and b[0] == '.' and b[2] in ('left', 'right'):
            return ('==', a, ('.', b[1], 'right' if b[2] == 'left' else 'left'))
        return ('==', ('.', a[1], 'right' if a[2] == 'left' else 'left'), b)
    return out


def unblock(t):
    """a block with no statements is its tail"""
    if isinstance(t, tuple) and t and t[0] == 'block' and not t[1]:
        return t[2]
    return t


def simple_assign(s):
    """local := pure field read (or let of the same shape)"""
    def pure(e):
        return isinstance(e, tuple) and e and (e[0] == 'L' or (e[0] == '.' and pure(e[1])))
    if isinstance(s, tuple) and len(s) == 3 and s[0] == '=' and isinstance(s[1], tuple) and s[1][0] == 'L' and pure(s[2]):
        return s[1][1]
    return None


def commute_eq(t):
    """order the operands of == canonically; sort maximal runs of mutually independent simple local assignments"""
    if not isinstance(t, tuple):
        return t
    t = tuple(commute_eq(x) for x in t)
    if t and t[0] == '==' and len(t) == 3 and repr(t[1]) > repr(t[2]):
        return ('==', t[2], t[1])
    if t and t[0] == 'block':
        st = list(t[1])
        out = []
        run = []

        def flush():
            if run:
                targets = [simple_assign(x) for x in run]
                # independent: no assignment reads a local written by another one of the run
                indep = all(('L', tg) not in flatten(x[2]) for x in run for tg in targets)
                out.extend(sorted(run, key=repr) if indep else run)
                del run[:]
        for x in st:
            if simple_assign(x) is not None:
                run.append(x)
            else:
                flush()
                out.append(x)
        flush()
        return ('block', tuple(out), t[2])
    return t


def flatten(t):
    res = []
    if isinstance(t, tuple):
        if t and t[0] == 'L':
            res.append(t)
        for x in t:
            res.extend(flatten(x))
    return res


def chains(t, out):
    """collect (cond1, arm1, cond2-or-None, arm2, kind) mirror candidates"""
    if not isinstance(t, tuple):
        return
    if t and t[0] == 'if' and len(t) == 4:
        c, a, b = t[1], t[2], t[3]
        if b is not None:
            if isinstance(b, tuple) and b and b[0] == 'if':
                c2, a2 = b[1], b[2]
                if commute_eq(mirror(c)) == commute_eq(c2) and commute_eq(c) != commute_eq(c2):
                    out.append((c, a, c2, a2, 'else-if'))
            elif side_pred(c):
                out.append((c, a, None, b, 'else'))
    if t and t[0] == 'block':
        st = list(t[1])
        for i in range(len(st) - 1):
            x, y = st[i], st[i + 1]
            if isinstance(x, tuple) and isinstance(y, tuple) and x and y and x[0] == 'if' and y[0] == 'if' and x[3] is None and y[3] is None:
                if commute_eq(mirror(x[1])) == commute_eq(y[1]) and commute_eq(x[1]) != commute_eq(y[1]):
                    out.append((x[1], x[2], y[1], y[2], 'consecutive'))
    for x in t:
        chains(x, out)


def extra_props(prog):
    """functions on which the set's neighbour steps depend also serve C09"""
    out = set()
    for f in prog.fns.values():
        if f.trait_method() in ('index_after', 'index_before') and f.self_adt in prog.tree_adts:
            for g in prog.closure(f):
                if g.path not in prog.accessors:
                    out.add(g.path)
    return out


def props_of(prog, f, c09):
    # the tree core also carries the shape invariants on which NULL's reasoned exceptions rest (inner child of a rotated
    # node, sibling of a double-black node): a copy or a mirror arm that deviates invalidates those reasons, so the
    # agreement checks serve C10 as well
    # C02 is about the stored shape: only functions that can write the arena can break it; a read-only query that deviates
    # from its twin gives wrong answers / handles (C09 for the neighbour steps) or a wild dereference (C10), not a wrong tree
    from rules.live import mutates
    writes = mutates(prog, f) or f.self_adt not in prog.tree_adts or serves_writer(prog, f)
    out = (list(PROPS) if writes else []) + (['C09'] if f.path in c09 else []) + (['C10'] if f.self_adt in prog.tree_adts else [])
    # which entries a tree holds and where they are found is decided by the links, the payloads, the root and the pool - never by a
    # colour or by which rotation is chosen (a rotation keeps the in-order sequence).  A copy that deviates in a function that
    # writes those directly (the removal, the rotations, the child-link helpers, the linking inserts) puts the family's content
    # property in question as well; a deviation in a function that only recolours and picks rotations does not
    if f.self_adt in prog.tree_adts and writes_content(prog, f):
        out += CONTENT_PROPS.get(f.family, [])
    return out or list(PROPS)


CONTENT_PROPS = {'map': ['C04'], 'set': ['C05'], 'key': ['C01', 'C06']}


def writes_content(prog, f):
    """does f itself store into a link field, a payload, the root, or call the pool?"""
    key = ('writescontent', f.path)
    if key in prog._summ_cache:
        return prog._summ_cache[key]
    res = False
    b = f.body
    for st in b.stores:
        fl = st.fields()
        if prog.accessor_call(strip(st.root)) is not None and fl and fl[0] in ('left', 'right', 'parent', 'entity', 'value'):
            res = True
        if strip(st.root).kind == 'param' and fl and fl[0] == 'root':
            res = True
    if not res:
        from rules.pool import pool_roles, tree_pool
        try:
            pool, _ = tree_pool(prog, f.self_adt)
            r = pool_roles(prog).get(pool) or {}
            pf = {g.path for g in (r.get('alloc') or []) + (r.get('release') or [])}
            for c in b.calls:
                tgt = prog.resolve(c)
                if tgt is not None and tgt.path in pf:
                    res = True
        except Exception:
            pass
    prog._summ_cache[key] = res
    return res


def permuted_equal(form, ref, nparams):
    """form with its parameters <P2>.. renamed by some permutation so that it equals ref (as multisets of effects in
    order), else None"""
    import itertools, re
    if nparams < 3 or nparams > 5:
        return None
    idx = list(range(2, nparams + 1))
    for perm in itertools.permutations(idx):
        if list(perm) == idx:
            continue
        m = {'<P%d>' % a: '<Q%d>' % b for a, b in zip(idx, perm)}

        def ren(x):
            if isinstance(x, str):
                y = re.sub(r'<P(\d+)>', lambda mo: m.get(mo.group(0), mo.group(0)), x)
                return y.replace('<Q', '<P')
            if isinstance(x, tuple):
                return tuple(ren(z) for z in x)
            return x
        cand = tuple((tuple(sorted((ren(c), tr) for c, tr in g)) if isinstance(g, tuple) else g, kind, ren(text)) for (g, kind, text) in form)
        cand_n = tuple((tuple(sorted([((G.norm_eq(c) if isinstance(c, str) else c), tr) for c, tr in g], key=str)), kind, text) for (g, kind, text) in cand)
        ref_n = tuple((tuple(sorted(g, key=str)), kind, text) for (g, kind, text) in ref)
        if sorted(map(str, cand_n)) == sorted(map(str, ref_n)):
            permuted_equal.last = (idx, list(perm))
            return ref
    return None


def serves_writer(prog, f):
    """is f (transitively) called by a function of its tree that writes the arena? (its answers then steer the writes)"""
    from rules.live import mutates
    seen = set()
    stack = [f]
    while stack:
        g = stack.pop()
        if g.path in seen:
            continue
        seen.add(g.path)
        for _, caller in prog.callers(g):
            if caller.is_closure:
                continue
            if caller.self_adt == f.self_adt and mutates(prog, caller):
                return True
            stack.append(caller)
    return False


def flat_tokens(t, out=None):
    if out is None:
        out = []
    if isinstance(t, (tuple, list)):
        out.append('(')
        for x in t:
            flat_tokens(x, out)
        out.append(')')
    else:
        out.append(str(t))
    return out


def count_dbg(node):
    """number of debug-assertion expansions in a HIR tree"""
    from hircanon import is_dbg
    n = 0
    if isinstance(node, dict):
        if is_dbg(node):
            return 1
        for v in node.values():
            n += count_dbg(v)
    elif isinstance(node, list):
        for v in node:
            n += count_dbg(v)
    return n


def scrub_strings(t):
    """assertion messages are prose: compare the conditions, not the text"""
    if isinstance(t, tuple):
        if len(t) == 2 and t[0] == 'lit' and isinstance(t[1], str) and ('"' in t[1] or t[1].startswith('Str(')):
            return ('lit', '<text>')
        return tuple(scrub_strings(x) for x in t)
    if isinstance(t, list):
        return [scrub_strings(x) for x in t]
    return t


def rename_map(prog, trees):
    """private functions that exist under a name of their own in one copy only, paired by their guarded effects with
    a function the copy lacks but the other copies have (a local rename): {local name: name in the other copies}"""
    from rules.pool import tree_pool
    fns = {}
    for t in trees:
        pool, _ = tree_pool(prog, t)
        fns[t] = {f.name: f for f in prog.fns.values() if not f.is_closure and not f.trait_item and f.self_adt in (t, pool)}
    unpaired = {t: {n for n in fns[t] if not any(n in fns[t2] for t2 in trees if t2 != t)} for t in trees}
    missing = {t: {n for t2 in trees if t2 != t for n in fns[t2] if n not in fns[t]} - set().union(*[unpaired[t2] for t2 in trees]) for t in trees}
    if not any(unpaired.values()) or not any(missing[t] and unpaired[t] for t in trees):
        return {}
    mask = {n: '\u00bf' for t in trees for n in unpaired[t] | missing[t]}

    def drop_cache():
        for k in [k for k in prog._summ_cache if k and k[0] == 'gef']:
            del prog._summ_cache[k]
    prog._name_alias = mask
    drop_cache()
    alias = {}
    ambiguous = {}
    try:
        for t in trees:
            for n in sorted(unpaired[t]):
                fa = G.gef(prog, fns[t][n])
                cands = set()
                for m in missing[t]:
                    for t2 in trees:
                        if t2 != t and m in fns[t2] and fns[t2][m].body.arg_count == fns[t][n].body.arg_count and G.gef(prog, fns[t2][m]) == fa:
                            cands.add(m)
                if len(cands) == 1:
                    alias[n] = cands.pop()
                elif cands:
                    ambiguous.setdefault(t, {})[n] = sorted(cands)
    finally:
        prog._name_alias = alias
        drop_cache()
    # helpers with identical effects (get_uncle / get_sibling): choose the pairing under which their callers agree
    import itertools
    for t, amb in sorted(ambiguous.items()):
        names = sorted(amb)
        pool_c = sorted(set().union(*[set(c) for c in amb.values()]) - set(alias.values()))
        if len(names) > 4 or len(pool_c) > 5:
            continue
        best = None
        for perm in itertools.permutations(pool_c, len(names)):
            if any(m not in amb[n] for n, m in zip(names, perm)):
                continue
            trial = dict(alias)
            trial.update(zip(names, perm))
            prog._name_alias = trial
            drop_cache()
            score = 0
            for n2, f in fns[t].items():
                m2 = trial.get(n2, n2)
                for t2 in trees:
                    if t2 != t and m2 in fns[t2]:
                        score += G.gef(prog, f) == G.gef(prog, fns[t2][m2])
                        break
            if best is None or score > best[0]:
                best = (score, trial)
        if best:
            alias = best[1]
        prog._name_alias = alias
        drop_cache()
    # one-to-one only
    rev = {}
    for a, b in alias.items():
        rev.setdefault(b, []).append(a)
    for b, xs in rev.items():
        if len(xs) > 1:
            for a in xs:
                del alias[a]
    prog._name_alias = alias
    return alias


def run(ctx):
    prog = ctx.prog
    c09 = extra_props(prog)
    trees = sorted(prog.tree_adts)
    fams = {t: t.split('::')[0] for t in trees}
    alias = rename_map(prog, trees)
    cores = {}
    for t in trees:
        cores[t] = {(kind, alias.get(name, name)): f for (kind, name), f in family_core(prog, t).items()}
    for old_name, new_name in sorted(alias.items()):
        ctx.add(RULE, None, 'renamed(%s)' % new_name, 'info', 'private function %s has the guarded effects of %s in the other copies and is compared with it' % (old_name, new_name), PROPS, 0, nontrivial=False)
    pending_perms = {}
    if not getattr(prog, '_arg_perm', None):
        # pre-pass: private functions whose parameters were reordered in one copy
        for key in sorted(set().union(*[set(c) for c in cores.values()])) if cores else []:
            have = [t for t in trees if key in cores[t]]
            if len(have) < 2 or key[0] == 'pool':
                continue
            gs0 = {t: G.gef(prog, cores[t][key], inline=True) for t in have}
            for t in have[1:]:
                if gs0[t] != gs0[have[0]]:
                    alt = permuted_equal(gs0[t], gs0[have[0]], cores[t][key].body.arg_count)
                    if alt is not None:
                        idx_, perm_ = permuted_equal.last
                        n_ = cores[t][key].body.arg_count
                        order = list(range(n_))
                        for a_, b_ in zip(idx_, perm_):
                            order[b_ - 1] = a_ - 1
                        pending_perms[cores[t][key].path] = order
        if pending_perms:
            prog._arg_perm = dict(pending_perms)
            for k in [k for k in prog._summ_cache if k and k[0] == 'gef']:
                del prog._summ_cache[k]
    # ---- 1. sibling agreement -------------------------------------------------------------------
    forms = {t: {k: canon_fn(f.hir, 'num') for k, f in cores[t].items()} for t in trees}
    all_keys = sorted(set().union(*[set(c) for c in cores.values()])) if cores else []
    n_sib = 0
    for key in all_keys:
        if key[0] == 'pool':
            continue        # the pools are held to their own contract, copy by copy, by POOL (allocation, growth range, release);
                            # a sibling comparison of three four-line functions adds only sensitivity to their spelling
        have = [t for t in trees if key in cores[t]]
        if len(have) < 2:
            # present in one copy only: look for the same form under another name elsewhere (a rename), else extra
            t = have[0]
            f = cores[t][key]
            renamed = [(t2, k2) for t2 in trees if t2 != t for k2, fm in forms[t2].items() if fm == forms[t][key] and k2 not in cores[t]]
            ctx.add(RULE, f, 'sibling(%s)' % key[1], 'info', 'function exists in the %s copy only%s' % (fams[t], (' (same form as %s in %s)' % (renamed[0][1][1], fams[renamed[0][0]])) if renamed else ''), PROPS, f.line, nontrivial=False)
            continue
        n_sib += 1
        ref_t = have[0]
        diffs = []
        for t in have[1:]:
            if forms[t][key] != forms[ref_t][key]:
                diffs.append((t, first_diff(forms[ref_t][key], forms[t][key])))
        # second opinion on the resolved program: guarded-effects forms (syntax-insensitive), then with helpers inlined
        if diffs:
            for inl in (False, True):
                gs = {t: G.gef(prog, cores[t][key], inline=inl) for t in have}
                if inl:
                    # a private function whose parameters were reordered in one copy (together with its call sites, which
                    # the inlined forms of its callers no longer show): compare up to a permutation of the parameters
                    for t in have:
                        if gs[t] != gs[ref_t]:
                            alt = permuted_equal(gs[t], gs[ref_t], cores[t][key].body.arg_count)
                            if alt is not None:
                                gs[t] = alt
                                # remember it: callers in this copy pass their arguments in the permuted order
                                idx_, perm_ = permuted_equal.last
                                n_ = cores[t][key].body.arg_count
                                order = list(range(n_))
                                for a_, b_ in zip(idx_, perm_):
                                    order[b_ - 1] = a_ - 1
                                pending_perms[cores[t][key].path] = order
                # compared as multisets: the order of effects that do not depend on each other is a matter of spelling (a
                # dependence shows in the effect itself: loads carry the number of writes that precede them)
                # the copies whose source is identical form groups; a copy written differently agrees if its effects equal
                # those of some member of the largest group (the key copy's inlined forms differ from map/set in payload
                # constructors by design, so "all three equal" is not the right test once helpers are inlined)
                hgroups = {}
                for t in have:
                    hgroups.setdefault(repr(forms[t][key]), []).append(t)
                major = max(hgroups.values(), key=len)
                ms = {t: sorted(map(str, gs[t])) for t in have}
                agree = all(t in major or any(ms[t] == ms[m] for m in major) for t in have) and len(major) >= 2
                if all(ms[t] == ms[ref_t] for t in have) or agree:
                    diffs = []
                    f = cores[ref_t][key]
                    ctx.add(RULE, f, 'sibling(%s)' % key[1], 'ok', 'written differently in the %s copies, but the guarded effects (targets, values, guards, order%s) are identical' % ('/'.join(fams[t] for t in have), ', helpers inlined' if inl else ''),
                            props_of(prog, f, c09), f.line, {'copies': [fams[t] for t in have], 'level': 'gef-inline' if inl else 'gef'})
                    break
            if not diffs:
                continue
        if diffs:
            # majority vote on the effect forms
            gsi = {t: G.gef(prog, cores[t][key], inline=True) for t in have}
            groups = {}
            for t in have:
                groups.setdefault(repr(sorted(map(str, gsi[t]))), []).append(t)
            odd = sorted(groups.values(), key=len)[0]
            odd_t = odd[0]
            f = cores[odd_t][key]
            others = [fams[t] for t in have if t not in odd]
            ref = [t for t in have if t not in odd]
            d = (G.first_diff(gsi[ref[0]], gsi[odd_t]) if ref else None) or diffs[0][1]
            # how much of the guarded effects do the copies still share?  A deviation inside otherwise identical code is a
            # defect signal; a copy whose effects have little in common with the others is a different implementation, about
            # which a sibling comparison says nothing (it is still checked on its own by every other rule)
            import collections
            ca = collections.Counter((e[1], e[2]) for e in gsi[ref[0]]) if ref else collections.Counter()
            cb = collections.Counter((e[1], e[2]) for e in gsi[odd_t])     # effects without their guards: a changed test must not count as "everything changed"
            uni = sum((ca | cb).values())
            sim = (sum((ca & cb).values()) / uni) if uni else 1.0
            # ... but one changed token can flow into most effects once everything is inlined, so the decision is taken on
            # the source shape: token similarity of the canonical syntax trees (a one-token slip leaves > 95 % in place)
            import difflib
            ta, tb2 = flat_tokens(forms[ref[0]][key]) if ref else [], flat_tokens(forms[odd_t][key])
            hsim = difflib.SequenceMatcher(None, ta, tb2, autojunk=False).ratio() if ref else 1.0
            # (thresholds from the suites: every independent single-copy slip that only this comparison reports has a syntax similarity
            # of 0.87 or more, with one exception at 0.65 - a faulty rewrite, indistinguishable here from the six correct rewrites of
            # one copy between 0.28 and 0.79.  Below 0.8 the comparison has no basis for a verdict and says so.)
            if ref and uni >= 12 and (hsim < 0.8 or (sim < 0.4 and hsim < 0.85)):
                ctx.add(RULE, f, 'sibling(%s)' % key[1], 'info', '%s is implemented differently in the %s copy (%.0f%% of the guarded effects in common with the %s cop%s): sibling comparison not applicable, the copy is checked on its own by the other rules' % (key[1], fams[odd_t], 100 * sim, '/'.join(others), 'ies' if len(others) > 1 else 'y'),
                        props_of(prog, f, c09), f.line, {'similarity': round(sim, 2), 'syntax_similarity': round(hsim, 2)}, nontrivial=False)
                continue
            ctx.add(RULE, f, 'sibling(%s)' % key[1], 'violation',
                    'copies disagree: %s in the %s copy differs from the %s cop%s; first difference at %s' % (key[1], fams[odd_t], '/'.join(others) or 'other', 'ies' if len(others) > 1 else 'y', d),
                    props_of(prog, f, c09), f.line, {'copies': [fams[t] for t in have], 'difference': d, 'similarity': round(sim, 2), 'syntax_similarity': round(hsim, 2)})
        else:
            f = cores[ref_t][key]
            ctx.add(RULE, f, 'sibling(%s)' % key[1], 'ok', 'identical canonical form in the %s copies' % '/'.join(fams[t] for t in have), props_of(prog, f, c09), f.line, {'copies': [fams[t] for t in have]})
            # the copies are the same code: their debug assertions must be the same too (a wrong assertion panics in debug
            # builds within the contract)
            dbg = {t: scrub_strings(canon_fn(cores[t][key].hir, 'num', keep_dbg=True)) for t in have}
            if any(dbg[t] != canon_fn(cores[t][key].hir, 'num') for t in have):
                groups = {}
                for t in have:
                    groups.setdefault(repr(dbg[t]), []).append(t)
                n_dbg = {t: count_dbg(cores[t][key].hir) for t in have}
                if len(groups) > 1 and len(set(n_dbg.values())) > 1:
                    # an assertion added (or dropped) in one copy is not a changed assertion
                    ctx.add(RULE, f, 'assertions(%s)' % key[1], 'info', 'the copies carry different numbers of debug assertions (%s): nothing to compare' % n_dbg, ['C10'], f.line, nontrivial=False)
                elif len(groups) > 1:
                    odd = sorted(groups.values(), key=len)[0]
                    fo = cores[odd[0]][key]
                    ctx.add(RULE, fo, 'assertions(%s)' % key[1], 'violation', 'the copies of %s are identical except for their debug assertions: the assertion in the %s copy tests something else than in the other cop%s (first difference at %s); an assertion that fails on a valid tree panics in debug builds' % (key[1], fams[odd[0]], 'ies' if len(have) > 2 else 'y', first_diff(dbg[[t for t in have if t not in odd][0]], dbg[odd[0]])),
                            ['C10'], fo.line)
                else:
                    ctx.add(RULE, f, 'assertions(%s)' % key[1], 'ok', 'debug assertions agree in the %s copies' % '/'.join(fams[t] for t in have), ['C10'], f.line)
    # ---- 2. mirror pairs --------------------------------------------------------------------------
    n_pairs = 0
    for t in trees:
        fns = {f.name: f for f in prog.fns.values() if f.self_adt == t and not f.is_closure}
        done = set()
        for name, f in sorted(fns.items()):
            m = swap_lr(name)
            if m == name or m not in fns or name in done:
                continue
            done.add(m)
            n_pairs += 1
            g = fns[m]
            a = commute_eq(mirror(canon_fn(f.hir, 'num')))
            b = commute_eq(canon_fn(g.hir, 'num'))
            if a != b and (G.gef(prog, f, mirror=True) == G.gef(prog, g) or sorted(G.canon_side(G.gef(prog, f, mirror=True, inline=True)), key=str) == sorted(G.canon_side(G.gef(prog, g, inline=True)), key=str)):
                ctx.add(RULE, f, 'mirror-pair(%s/%s)' % (name, m), 'ok', '%s and %s are written differently, but their guarded effects are exact mirror images' % (name, m), props_of(prog, f, c09), f.line)
            elif a == b:
                ctx.add(RULE, f, 'mirror-pair(%s/%s)' % (name, m), 'ok', '%s is the left/right mirror image of %s' % (name, m), props_of(prog, f, c09), f.line)
            else:
                ctx.add(RULE, f, 'mirror-pair(%s/%s)' % (name, m), 'violation', '%s and %s are no longer mirror images of each other; first difference at %s' % (name, m, first_diff(a, b)),
                        props_of(prog, f, c09), f.line, {'difference': first_diff(a, b)})
    # ---- 3. mirrored branches ------------------------------------------------------------------------
    n_chains = {}
    for t in trees:
        for f in prog.fns.values():
            if f.self_adt != t or f.is_closure:
                continue
            body = normalise(canon_fn(f.hir, 'name')[1])
            found = []
            chains(body, found)
            for i, (c, a, c2, b, kind) in enumerate(found):
                n_chains[t] = n_chains.get(t, 0) + 1
                ma = commute_eq(unblock(mirror(a)))
                bb = commute_eq(unblock(b))
                sig = 'mirror-branch#%d(%s)' % (i, kind)
                if ma != bb and G.self_symmetric(G.gef(prog, f))[1]:
                    ctx.add(RULE, f, sig, 'ok', 'the arms are written differently, but the function\'s guarded effects are left/right symmetric', props_of(prog, f, c09), f.line)
                elif ma == bb:
                    ctx.add(RULE, f, sig, 'ok', 'the two arms are left/right mirror images (condition %s)' % show(c, 0, 3)[:80], props_of(prog, f, c09), f.line)
                else:
                    ctx.add(RULE, f, sig, 'violation', 'arms under mirrored conditions are not mirror images of each other; first difference at %s' % first_diff(ma, bb), props_of(prog, f, c09), f.line,
                            {'condition': show(c, 0, 4), 'difference': first_diff(ma, bb)})
    # ---- 4. left/right symmetry of the guarded effects of every core function that asks "which side am I on" -------
    n_sym = 0
    for t in trees:
        names_t = {nm for (_, nm) in cores[t]}
        for (kind, name), f in sorted(cores[t].items()):
            if swap_lr(name) != name and swap_lr(name) in names_t:
                continue        # one half of a mirror pair: held to its twin (section 2), not to itself
            has, sym, d = G.self_symmetric(G.gef(prog, f))
            if not has:
                continue
            n_sym += 1
            if sym:
                ctx.add(RULE, f, 'symmetry', 'ok', 'guarded effects are invariant under exchanging left and right', props_of(prog, f, c09), f.line)
            elif G.locally_symmetric(G.gef(prog, f))[0]:
                ctx.add(RULE, f, 'symmetry', 'ok', 'the function has a one-sided part, but the two outcomes of each of its which-side tests are mirror images relative to the tested parent', props_of(prog, f, c09), f.line)
            else:
                ctx.add(RULE, f, 'symmetry', 'violation', 'the function distinguishes left from right child, but its effects are not left/right symmetric: %s' % d, props_of(prog, f, c09), f.line, {'difference': d})
    ctx.stat(RULE, sibling_functions=n_sib, mirror_pairs=n_pairs, mirror_chains=n_chains, symmetric_functions=n_sym)
    if n_sym < 12:
        ctx.anchor_missing(RULE, 'core functions with side conditions (left/right symmetry)', PROPS, n_sym, 12)
    if n_sib < 20:
        ctx.anchor_missing(RULE, 'functions of the structural core present in at least two copies', PROPS, n_sib, 20)
    # merging mirrored functions into one side-parametrised function is a legitimate rewrite (the merged function is then
    # held to the left/right symmetry of its guarded effects): only a collapse of the count is treated as a lost anchor
    if n_pairs < 2 and n_sym < 16:
        ctx.anchor_missing(RULE, 'mirror-image function pairs', PROPS, n_pairs, 2)
    for t in trees:
        if n_chains.get(t, 0) < 4:
            ctx.anchor_missing(RULE, 'mirrored branch chains in %s' % t, PROPS, n_chains.get(t, 0), 4)
