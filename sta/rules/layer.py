"""LAYER: user code never runs inside a structural update (DESIGN section 4, C18).

User code = key comparison (Ord/PartialOrd/PartialEq on a type parameter), comparator closure, key accessor
(KeyValue::key), expiration accessor - also when entered through std (binary_search_by*, retain, ...).

(A) arena state of the three trees.  Functions are layered structurally:
      complete transactions  the removal, the linking inserts (an allocator result is stored into root or a child
                             link), clear
      partial writers        every other function with a direct arena write or pool call
      searchers              the rest (including all public methods)
    L1  a partial writer is called only from a partial writer or a complete transaction
    L2  a transaction / partial writer reaches no user code after its first arena write on any path (transitively)
    L3  searchers contain no direct arena write
(B) sequence state of the lists and of the segment tree's bucket lists: between two *visible* mutations made by one
    function (two sites, or one site in a loop) no user code may run; closure-taking mutators must be panic-safe
    (retain); removals of expired entries (purge, swap_remove on the drop side of the expiry test) are invisible.
(C) cache state (min_exp) is only ever lowered with min(old, x) or set after the complete retain: see GATE."""
from ssa import strip, show, walk
from origins import origins, vec_field_of, LINKS
from engine import span_line
from program import VEC_MUTATORS
from rules import live as L

RULE = 'LAYER'
PROPS = ['C18']
USER_KINDS = ('compare', 'closure', 'key', 'expiration')
PANIC_SAFE_CLOSURE_MUTATORS = {'retain', 'retain_mut'}


def direct_user_calls(prog, fn):
    """call Vals in fn that (may) run user code directly: callbacks of the listed kinds, or std functions that call
    them (a std call instantiated with an Ord-bound type parameter, e.g. binary_search_by_key::<K, _>)"""
    out = []
    for c in fn.body.calls:
        cls = prog.classify(c)
        if cls == 'callback':
            k = prog.callback_kind(c)
            if k in USER_KINDS:
                out.append((c, k))
        elif cls == 'std':
            nm = c.callee_name()
            if nm in ('binary_search_by_key', 'binary_search', 'sort', 'sort_unstable', 'sort_by_key', 'contains', 'min', 'max', 'cmp', 'partial_cmp') \
                    and any(c.extra['callee'].get('targs_param') or []):
                out.append((c, 'compare(std:%s)' % nm))
    return out


def has_callback_code(prog, fn, _stack=None):
    """like has_user_code, not counting max_expiration (the largest value of the time type: a constant, not one of C18's callbacks)"""
    key = ('usercode-cb', fn.path)
    if key in prog._summ_cache:
        return prog._summ_cache[key]
    _stack = _stack or set()
    if fn.path in _stack:
        return False
    _stack = _stack | {fn.path}
    r = any(not (c.kind == 'call' and c.callee_name() == 'max_expiration') for c, _ in direct_user_calls(prog, fn))
    if not r:
        r = any(has_callback_code(prog, t, _stack) for c, t in prog.callees(fn))
    prog._summ_cache[key] = r
    return r


def has_user_code(prog, fn, _stack=None):
    """does fn (transitively, including closures it passes) run user code?"""
    key = ('usercode', fn.path)
    if key in prog._summ_cache:
        return prog._summ_cache[key]
    _stack = _stack or set()
    if fn.path in _stack:
        return False
    _stack = _stack | {fn.path}
    r = bool(direct_user_calls(prog, fn))
    if not r:
        for c, t in prog.callees(fn):
            if has_user_code(prog, t, _stack):
                r = True
                break
    prog._summ_cache[key] = r
    return r


def user_points(prog, fn):
    """[(call Val, description)] points of fn at which user code may run"""
    out = [(c, k) for c, k in direct_user_calls(prog, fn)]
    seen = {c.id for c, _ in out}
    for c, t in prog.callees(fn):
        if c.kind == 'call' and c.id not in seen and has_user_code(prog, t):
            out.append((c, ('via closure passed to ' if t.is_closure else 'via ') + (c.callee_name() if t.is_closure else t.name)))
            seen.add(c.id)
    return out


def arena_writes(prog, fn, pool_fns):
    """points of direct class-A writes: stores into arena nodes / root / pool fields, pool calls, Vec mutators on pool vectors"""
    b = fn.body
    pts = []
    for st in b.stores:
        root = strip(st.root)
        if prog.accessor_call(root) is not None:
            pts.append((st.point, 'node.%s' % '.'.join(st.fields())))
        elif root.kind == 'param' and root.args[0] == 1 and st.fields():
            pts.append((st.point, 'self.%s' % '.'.join(st.fields())))
    for c in b.calls:
        tgt = prog.resolve(c)
        if tgt is not None and tgt.path in pool_fns:
            pts.append((c.point, 'pool call %s' % tgt.name))
        elif prog.classify(c) == 'std' and c.callee_name() in VEC_MUTATORS and c.args and (c.args[0].ty or '').startswith('&mut'):
            vf = vec_field_of(prog, c.args[0])
            if vf is not None and '<elem>' not in vf:
                pts.append((c.point, 'Vec::%s on self.%s' % (c.callee_name(), '.'.join(vf))))
    return pts


def reaches(b, p, q):
    """can execution go from point p to point q (p != q)"""
    if p[0] == q[0] and p[1] < q[1]:
        return True
    return any(q[0] in b.cfg.reachable_from(s) for s in b.cfg.succ[p[0]])


def run(ctx):
    prog = ctx.prog
    from rules.pool import pool_roles, tree_pool, calls_to
    roles = pool_roles(prog)
    n_user = sum(len(direct_user_calls(prog, f)) for f in prog.fns.values())
    # ---- (A) ---------------------------------------------------------------------------------
    for tree in sorted(prog.tree_adts):
        pool, store_field = tree_pool(prog, tree)
        if pool not in roles:
            ctx.anchor_missing(RULE, 'pool of %s' % tree, PROPS)
            continue
        r = roles[pool]
        # (a pool function that takes `&self` reads: `len`, `occupied`, `capacity` are no writes)
        pool_fns = {f.path for f in prog.fns.values() if f.self_adt == pool and not f.is_closure and f.name != 'new'
                    and not (f.body.arg_count >= 1 and f.body.locals[1]['ty'].startswith('&') and not f.body.locals[1]['ty'].startswith('&mut'))}
        fam_fns = [f for f in prog.fns.values() if f.self_adt in (tree, pool) and not f.is_closure]
        writes = {f.path: arena_writes(prog, f, pool_fns) for f in fam_fns}
        # constructors build a fresh value: not state of an existing collection
        ctor = {f.path for f in fam_fns if f.body.locals[0]['ty'].split('<')[0] in (tree, pool)}
        writers = {f.path: f for f in fam_fns if writes[f.path] and f.path not in ctor}
        # complete transactions by role
        trans = {}
        from rules.stale import removal_fns
        removal_paths = {p2 for p2, g in removal_fns(prog).items() if g.self_adt == tree}
        # every function that releases exactly one slot on every path is a complete removal for its callers (the removal
        # may be split into an outer function that moves the payload and an inner one that unlinks and releases)
        try:
            from rules.pool import select_removal
            sel = select_removal(prog, tree, r, [f for f in prog.fns.values() if f.self_adt == tree and not f.is_closure])
            if len(sel['removal']) == 1 and not sel['bad']:
                removal_paths |= (set(sel['T0']) - set(sel['W']))
        except Exception:
            pass
        for f in fam_fns:
            if f.self_adt != tree:
                continue
            if f.trait_method() == 'clear':
                trans[f.path] = 'clear'
            elif f.path in removal_paths:
                trans[f.path] = 'removal'
            else:
                # linking insert: an allocator-derived value is stored into root or a child link
                for st in f.body.stores:
                    fl = st.fields()
                    root = strip(st.root)
                    is_link = (prog.accessor_call(root) is not None and fl in (('left',), ('right',))) or (root.kind == 'param' and fl == ('root',))
                    if is_link and strip(st.value).kind != 'const':
                        ats = origins(prog, f, st.value)
                        if ats and all(a[0] == 'pop' for a in ats):
                            trans[f.path] = 'linking insert'
        found_roles = sorted(set(trans.values()))
        if not {'clear', 'removal', 'linking insert'} <= set(found_roles):
            ctx.anchor_missing(RULE, 'complete transactions of %s (found %s)' % (tree, found_roles), PROPS)
        partial = {p: f for p, f in writers.items() if p not in trans}
        # L1 (containment) by propagation: whoever calls a partial writer takes part in the update and is itself held to
        # L2 from that call on (a complete transaction may be called from anywhere)
        by_path = {f.path: f for f in fam_fns}
        changed = True
        while changed:
            changed = False
            for f in fam_fns:
                if f.path in partial or f.path in trans or f.path in ctor:
                    continue
                callees_p = [t for c, t in prog.callees(f) if c.kind == 'call' and t.path in partial]
                if callees_p:
                    partial[f.path] = f
                    writes[f.path] = list(writes.get(f.path, [])) + [((0, 0), 'call of partial writer %s' % callees_p[0].name)]
                    writers[f.path] = f
                    changed = True
        for p, f in sorted(partial.items()):
            direct = [w for w in writes[p] if not w[1].startswith('call of partial writer')]
            ctx.add(RULE, f, 'L1-containment', 'ok', 'partial writer (%s); held to L2' % ('direct arena writes' if direct else 'takes part through the partial writers it calls'), PROPS, f.line, nontrivial=bool(direct))
        # L2
        for p, f in sorted({**partial, **{q: writers[q] for q in trans if q in writers}}.items()):
            b = f.body
            ups = user_points(prog, f)
            wpts = [w for w in writes[p] if not w[1].startswith('call of partial writer')]
            # calls to other writers / transactions are writes too
            for c, t in prog.callees(f):
                if c.kind == 'call' and (t.path in partial or t.path in trans):
                    wpts.append((c.point, 'call of %s' % t.name))
            bad = None
            for (c, kind) in ups:
                for (wp, what) in wpts:
                    if wp == c.point:
                        # the call is itself the write (a writer that also runs user code): judged in the callee
                        continue
                    if reaches(b, wp, c.point):
                        bad = (c, kind, what)
                        break
                if bad:
                    break
            role = trans.get(p, 'partial writer')
            if bad:
                c, kind, what = bad
                ctx.add(RULE, f, 'L2-no-user-code-after-write', 'violation',
                        '%s %s runs user code (%s) after it has started writing the arena (%s): a panic there leaves a torn tree' % (role, f.name, kind, what),
                        PROPS, span_line(c, f.line), {'user_points': [k for _, k in ups]})
            else:
                ctx.add(RULE, f, 'L2-no-user-code-after-write', 'ok', '%s: no user code after the first arena write (%d user-code points, all before)' % (role, len(ups)), PROPS, f.line,
                        nontrivial=bool(ups))
        # L3: searchers have no direct writes - by construction of the partition every function with a write is a
        # writer; what must be checked is that *public entry points and functions that run user code* are not writers
        for f in fam_fns:
            if f.path in writers and f.path not in trans:
                continue
            if f.path in trans:
                continue
            ups = direct_user_calls(prog, f)
            if ups:
                ctx.add(RULE, f, 'L3-searcher', 'ok', 'runs user code and writes no arena state directly (only through complete transactions)', PROPS, f.line)
    # ---- (B) ---------------------------------------------------------------------------------
    seq_adts = sorted(prog.list_adts)
    n_b = 0
    for fn in prog.fns.values():
        if fn.self_adt not in prog.list_adts or fn.is_closure:
            continue
        # iterator types of a sequence collection operate on it too
        n_b += check_sequence_fn(ctx, prog, fn)
    for fn in seq_helpers(prog).values():
        n_b += check_sequence_fn(ctx, prog, fn)
    for fn in prog.fns.values():
        if fn.self_adt and fn.self_adt not in prog.list_adts and not fn.is_closure and fn.family == 'seg' and fn.self_adt not in prog.adts.get('', {}):
            if fn.self_adt.endswith('Iterator') and 'tree' in fn.module:
                n_b += check_sequence_fn(ctx, prog, fn)
    ctx.stat(RULE, user_code_sites=n_user, sequence_functions=n_b)
    if n_user < 25:
        ctx.anchor_missing(RULE, 'user-code call sites', PROPS, n_user, 25)


def visible_mutations(prog, fn):
    """[(point, description)] mutations of sequence state that change observable contents"""
    b = fn.body
    out = []
    drop_blocks = live_drop_blocks(prog, fn)
    for c in b.calls:
        nm = c.callee_name()
        cls = prog.classify(c)
        if cls == 'std' and nm in VEC_MUTATORS and c.args and (c.args[0].ty or '').startswith('&mut'):
            a0 = strip(c.args[0])
            root = a0
            while root.kind in ('ref', 'load'):
                root = strip(root.args[0])
            if root.kind == 'escaped':
                continue                      # a local container
            if nm in PANIC_SAFE_CLOSURE_MUTATORS and any(L.live_sites(prog, cl) for cl in prog.closures_passed(c)):
                continue                      # purge of expired entries: invisible
            if nm in ('swap_remove', 'remove') and c.point[0] in drop_blocks:
                continue                      # removal of an expired copy on the drop side of the expiry test: invisible
            if nm in ('reserve', 'reserve_exact', 'shrink_to_fit'):
                continue
            out.append((c.point, 'Vec::%s' % nm, c))
        elif cls == 'crate':
            tgt = prog.resolve(c)
            if tgt.path in prog.accessors:
                continue
            if fn_visible_mutation(prog, tgt):
                out.append((c.point, 'call of %s' % tgt.name, c))
    for st in b.stores:
        r0 = strip(st.root)
        # an element overwritten in place (`buffer[w] = buffer[r]` of a hand-written compaction): a visible mutation like any other
        if r0 is not None and r0.kind == 'call' and r0.callee_name() in ('index_mut', 'get_unchecked_mut', 'get_mut') and prog.classify(r0) == 'std' and r0.args:
            base = strip(r0.args[0])
            while base is not None and base.kind == 'call' and base.callee_name() in ('deref_mut', 'deref', 'as_mut_slice'):
                base = strip(base.args[0])
            root = base
            while root is not None and root.kind in ('ref', 'load'):
                root = strip(root.args[0])
            if root is not None and root.kind != 'escaped' and base is not None and base.kind in ('ref', 'load') and base.fields() and base.fields()[-1] == 'buffer':
                out.append((st.point, 'element store', st))
        # the cached earliest expiration raised or lowered AFTER the buffer changed: the pair (buffer, cache) is one update
        if r0 is not None and r0.kind == 'param' and fn.self_adt in prog.list_adts and len(st.fields()) == 1 and st.fields()[0] != 'buffer':
            out.append((st.point, 'cache store', st))
    return out


def seq_helpers(prog):
    """functions outside the sequence types that are handed a sequence's storage (`&mut Vec<..>` / `&mut [..]` parameter, called -
    transitively - from a method of a sequence type): they mutate that sequence on its behalf"""
    if 'seq_helpers' in prog._summ_cache:
        return prog._summ_cache['seq_helpers']
    out = {}
    work = [f for f in prog.fns.values() if f.self_adt in prog.list_adts and not f.is_closure and f.info.get('mir')]
    seen = set()
    while work:
        f = work.pop()
        if f.path in seen:
            continue
        seen.add(f.path)
        for c, t in prog.callees(f):
            if t.is_closure or t.self_adt in prog.list_adts or not t.info.get('mir') or t.path in out:
                continue
            tys = [(t.body.locals[i]['ty'] or '') for i in range(1, t.body.arg_count + 1)]
            if any(ty.startswith('&mut') and ('Vec<' in ty or '[' in ty) for ty in tys) and t.self_adt is None:
                out[t.path] = t
                work.append(t)
    prog._summ_cache['seq_helpers'] = out
    return out


def fn_visible_mutation(prog, fn, _stack=None):
    key = ('vismut', fn.path)
    if key in prog._summ_cache:
        return prog._summ_cache[key]
    _stack = _stack or set()
    if fn.path in _stack:
        return False
    prog._summ_cache[key] = False
    r = any(m[1] != 'cache store' for m in visible_mutations(prog, fn)) if (fn.self_adt in prog.list_adts or fn.path in seq_helpers(prog)) else False      # (a purge that refreshes the cache changes nothing a caller can see)
    prog._summ_cache[key] = r
    return r


def live_drop_blocks(prog, fn):
    """blocks on the drop side (item expired) of a liveness branch in fn (direct test or through a predicate helper)"""
    from rules.gate import liveness_keeps
    b = fn.body
    out = set()
    for (idx, acc, keep_succ, sw, tval) in liveness_keeps(prog, fn):
        for succ in b.cfg.succ[sw]:
            if succ == keep_succ:
                continue
            for x in b.cfg.rpo:
                if b.cfg.dominates(succ, x) and not b.cfg.dominates(keep_succ, x):
                    out.add(x)
    return out


def check_sequence_fn(ctx, prog, fn):
    b = fn.body
    muts = visible_mutations(prog, fn)
    ups = user_points(prog, fn)
    # closure-taking mutators other than the panic-safe ones
    for c in b.calls:
        if prog.classify(c) == 'std' and c.callee_name() in VEC_MUTATORS and c.callee_name() not in PANIC_SAFE_CLOSURE_MUTATORS:
            for cl in prog.closures_passed(c):
                if has_user_code(prog, cl):
                    ctx.add(RULE, fn, 'B-closure-mutator(%s)' % c.callee_name(), 'violation',
                            'Vec::%s runs user code while it rearranges the vector; only retain is documented panic-safe' % c.callee_name(), PROPS, span_line(c, fn.line))
    if not muts:
        return 0
    bad = None
    for (c, kind) in ups:
        if c.kind == 'call' and c.callee_name() == 'max_expiration':
            continue        # the largest value of the time type: a constant of that type, not one of C18's callbacks
        if kind.startswith('via ') and not kind.startswith('via closure') and prog.resolve(c) is not None and not has_callback_code(prog, prog.resolve(c)):
            continue        # (the same, one call down)
        # (a call that both mutates and runs user code is its callee's business - unless it is repeated: then one round's mutation
        #  stands when the next round's user code unwinds)
        again = reaches(b, c.point, c.point)
        before = [m for m in muts if (m[2] is not c or again) and m[1] != 'cache store' and reaches(b, m[0], c.point)]      # (a cache lowered BEFORE user code runs is a lower bound whatever unwinds)
        after = [m for m in muts if (m[2] is not c or again) and reaches(b, c.point, m[0])]
        if before and after:
            bad = (c, kind, before[0][1], after[0][1])
            break
    if bad:
        c, kind, w1, w2 = bad
        ctx.add(RULE, fn, 'B-write-group', 'violation', 'user code (%s) runs between two visible mutations of one operation (%s ... %s): a panic leaves a partially applied update' % (kind, w1, w2),
                PROPS, span_line(c, fn.line))
    else:
        grouped = len(muts) > 1 or any(any(m[0][0] in body for body in b.cfg.loops().values()) for m in muts)
        ctx.add(RULE, fn, 'B-write-group', 'ok', '%d visible mutation site(s)%s; no user code between two of them' % (len(muts), ' (in a loop)' if grouped and len(muts) == 1 else ''), PROPS, fn.line,
                nontrivial=grouped or bool(ups))
    return 1
