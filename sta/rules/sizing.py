"""SIZING: the segment tree allocates a list for every position its masks can name (a clause of C10).

`chunk()` / `chunk_mut()` index the list vector unchecked with the bit positions of a layout mask (UNCHECKED records that
as an assumption).  The part of that assumption that is visible in the shape of the code is an *agreement of two terms*:

  length of the list vector            L  =  the term the constructor passes as the vector's length
  position of the domain's last bucket T  =  the term the mask builders hand to the bit-range fill for a range endpoint,
                                             with the endpoint replaced by the layout's stored domain maximum

Both are computed from the layout's fields through the same private helpers; the rule evaluates both to linear forms
over opaque atoms (field reads, shifts), with pure single-expression helpers inlined, casts dropped and `x op y` with
overflow check read as `x op y`, and requires   L - (T + 1)  to be a non-negative constant.  That the last bucket is the
highest position a mask names (monotonicity of shift and of the heap numbering) is arithmetic and stays assumed (C14/C15,
declined); what is decided here is that allocation and addressing use the same mapping of the same endpoint - a floor
for a ceiling, a half-open slip, a different helper on one side all break the agreement."""
from ssa import strip, show
from engine import span_line

RULE = 'SIZING'
PROPS = ['C10']

ARITH = {'Add': 1, 'AddWithOverflow': 1, 'AddUnchecked': 1, 'Sub': -1, 'SubWithOverflow': -1, 'SubUnchecked': -1}
MUL = {'Mul', 'MulWithOverflow', 'MulUnchecked'}


class Lin:
    """c + sum(coef * atom)"""
    __slots__ = ('c', 't')

    def __init__(self, c=0, t=None):
        self.c = c
        self.t = {k: v for k, v in (t or {}).items() if v != 0}

    def add(self, o, sign=1):
        t = dict(self.t)
        for k, v in o.t.items():
            t[k] = t.get(k, 0) + sign * v
        return Lin(self.c + sign * o.c, t)

    def scale(self, k):
        return Lin(self.c * k, {a: v * k for a, v in self.t.items()})

    def is_const(self):
        return not self.t

    def key(self):
        return (self.c, tuple(sorted(self.t.items(), key=str)))

    def __str__(self):
        parts = ['%s%s' % ('' if v == 1 else '%d*' % v, atom_str(a)) for a, v in sorted(self.t.items(), key=str)]
        if self.c or not parts:
            parts.append(str(self.c))
        return ' + '.join(parts)


def atom_str(a):
    if a[0] == 'field':
        return a[1]
    if a[0] == 'param':
        return 'arg%d' % a[1]
    if a[0] in ('op',):
        return '%s(%s, %s)' % (a[1], lin_str(a[2]), lin_str(a[3]))
    if a[0] == 'call':
        return '%s(%s)' % (a[1].split('::')[-1], ', '.join(lin_str(x) for x in a[2]))
    return str(a)


def lin_str(k):
    return str(Lin(k[0], dict(k[1]))) if k is not None else '?'


def atom(a):
    return Lin(0, {a: 1})


def const_int(v):
    if v.kind != 'const':
        return None
    x = v.args[0]
    if isinstance(x, bool):
        return None
    if isinstance(x, int):
        return x
    return None


def lin(prog, fn, v, env, depth=0):
    """linear form of value v of function fn; env: parameter number -> Lin | None (opaque object, e.g. `self`)"""
    v = strip(v)
    if v is None or depth > 12:
        return atom(('opaque', fn.path, -1))
    k = v.kind
    if k == 'const':
        c = const_int(v)
        return Lin(c) if c is not None else atom(('const', str(v.args)))
    if k == 'param':
        e = env.get(v.args[0])
        return e if e is not None else atom(('param', v.args[0]))
    if k == 'cast':
        return lin(prog, fn, v.args[0], env, depth + 1)
    if k in ('load', 'ref'):
        base = strip(v.args[0])
        path = tuple(p for p in v.args[1] if p != '*')
        if base is not None and base.kind == 'bin' and base.args[0].endswith('WithOverflow') and path in ((0,), ('0',)):
            return lin_bin(prog, fn, base, env, depth)
        if k == 'ref' and not path:
            return lin(prog, fn, base, env, depth + 1)
        names = tuple(str(p) for p in path if not isinstance(p, tuple))
        if names and all(not n.isdigit() and not n.startswith('as:') for n in names):
            # a field of an object reached from a parameter / call result: keyed by the field name (one layout per tree)
            return atom(('field', '.'.join(names)))
        if k == 'load' and path and all(str(p).isdigit() or str(p).startswith('as:') for p in path):
            # Option / tuple projections of a call result: transparent
            return lin(prog, fn, base, env, depth + 1)
        return atom(('opaque', fn.path, v.id))
    if k == 'bin':
        return lin_bin(prog, fn, v, env, depth)
    if k == 'call':
        t = prog.resolve(v)
        args = [lin(prog, fn, a, env, depth + 1) for a in v.args]
        if t is not None and t.info.get('mir') and len(t.body.ret_val) == 1:
            rv = strip(list(t.body.ret_val.values())[0])
            if rv is not None and rv.kind != 'phi' and not effects(t):
                env2 = {i + 1: a for i, a in enumerate(args)}
                return lin(prog, t, rv, env2, depth + 1)
        name = (t.path if t is not None else (v.extra['callee'].get('path') or 'indirect'))
        if name.split('::')[-1] in ('into', 'from') and len(args) == 1:
            return args[0]          # lossless conversion of the endpoint
        return atom(('call', name, tuple(a.key() for a in args)))
    return atom(('opaque', fn.path, v.id))


def effects(t):
    return bool(t.body.stores)


def lin_bin(prog, fn, v, env, depth):
    op = v.args[0]
    a = lin(prog, fn, v.args[1], env, depth + 1)
    b = lin(prog, fn, v.args[2], env, depth + 1)
    if op in ARITH:
        return a.add(b, ARITH[op])
    if op in MUL and (a.is_const() or b.is_const()):
        return b.scale(a.c) if a.is_const() else a.scale(b.c)
    if op == 'Shl' and b.is_const() and 0 <= b.c < 32:
        return a.scale(1 << b.c)
    return atom(('op', op, a.key(), b.key()))


def leaf_fill_calls(prog, fn, env, depth=0, seen=None):
    """(callee, [Lin of each integer argument]) for every call, reachable from fn through crate functions, of a crate
    function that returns the mask word from two integer positions and calls no crate function itself"""
    seen = seen if seen is not None else set()
    out = []
    if fn.path in seen or depth > 5:
        return out
    seen = seen | {fn.path}
    for c in fn.body.calls:
        t = prog.resolve(c)
        if t is None or not t.info.get('mir'):
            continue
        args = [lin(prog, fn, a, env) for a in c.args]
        env2 = {i + 1: a for i, a in enumerate(args)}
        sub_calls = [x for x in t.body.calls if prog.resolve(x) is not None]
        if not sub_calls and is_word_from_two_positions(t):
            out.append((t, args, c))
        else:
            out.extend(leaf_fill_calls(prog, t, env2, depth + 1, seen))
    return out


def is_word_from_two_positions(t):
    b = t.body
    tys = [b.locals[i]['ty'] for i in range(1, b.arg_count + 1)]
    return b.arg_count == 2 and all(x in ('u32', 'usize', 'u64', 'u8', 'u16') for x in tys) and b.locals[0]['ty'] == 'u64'


def run(ctx):
    prog = ctx.prog
    # the layout type: the seg ADT with integer fields only whose methods return mask words
    mask_fns = []
    for f in prog.fns.values():
        if f.family != 'seg' or not f.info.get('mir') or f.is_closure:
            continue
        b = f.body
        if b.locals[0]['ty'] != 'u64' or b.arg_count != 3:
            continue
        if not b.locals[1]['ty'].startswith('&'):
            continue
        mask_fns.append(f)
    if not mask_fns:
        ctx.anchor_missing(RULE, 'mask builders of the layout (self, min, max) -> u64', PROPS, 0, 1)
        return
    layout_ty = mask_fns[0].self_adt
    # ---- which field holds the domain maximum: the field the layout constructor fills from the argument that the tree
    # constructor derives from `range.max`
    ctor_sites = []
    for f in prog.fns.values():
        if f.family != 'seg' or not f.info.get('mir'):
            continue
        for c in f.body.calls:
            t = prog.resolve(c)
            if t is not None and t.self_adt == layout_ty and t.body.arg_count == 2 and not t.body.locals[1]['ty'].startswith('&') and f.self_adt != layout_ty:
                ctor_sites.append((f, c, t))
    max_fields = set()
    for f, c, t in ctor_sites:
        which = None
        for i, a in enumerate(c.args):
            la = lin(prog, f, a, {})
            if la.key() == atom(('field', 'max')).key():
                which = i + 1
        if which is None:
            continue
        from ssa import walk
        for rv in t.body.ret_val.values():
            for x in walk(rv):
                if x.kind == 'agg' and (x.extra.get('path') or '').split('<')[0] == layout_ty:
                    names = (x.extra.get('variant') or {}).get('fields') or []
                    for nm, a in zip(names, x.args):
                        la = lin(prog, t, a, {})
                        if la.key() == atom(('param', which)).key():
                            max_fields.add(nm)
    if len(max_fields) != 1:
        ctx.anchor_missing(RULE, 'layout field that stores the domain maximum (from range.max through the layout constructor)', PROPS, len(max_fields), 1)
        return
    max_field = atom(('field', list(max_fields)[0]))
    # ---- T: positions handed to the bit-range fill for the range endpoints, endpoint := domain maximum
    positions = []
    for mf in sorted(mask_fns, key=lambda x: x.path):
        env = {1: None, 2: max_field, 3: max_field}
        for t, args, c in leaf_fill_calls(prog, mf, env):
            for a in args:
                positions.append((mf, t, a))
    for mf in mask_fns:
        if not any(p[0] is mf for p in positions):
            # each mask builder is an anchor of its own: one that no longer shows its endpoint positions must not pass
            # as a consolidation of the other
            ctx.anchor_missing(RULE, 'endpoint positions passed to the bit-range fill by %s' % mf.name, PROPS, 0, 1)
    if not positions:
        return
    # ---- L: length of the list vector in every constructor of the tree
    n_ctor = 0
    for f in sorted(prog.fns.values(), key=lambda x: x.path):
        if f.family != 'seg' or not f.info.get('mir'):
            continue
        b = f.body
        from ssa import walk
        aggs = []
        for rv in b.ret_val.values():
            for x in walk(rv):
                if x.kind != 'agg' or x.extra.get('akind') != 'adt' or x in aggs:
                    continue
                vals = [strip(y) for y in x.args]
                has_vec = any(y is not None and 'Vec<' in (y.ty or '') for y in vals)
                has_layout = any(y is not None and any(z.kind == 'call' and prog.resolve(z) is not None and prog.resolve(z).self_adt == layout_ty for z in walk(y)) for y in vals)
                if has_vec and has_layout:
                    aggs.append(x)
        for x in aggs:
            n_ctor += 1
            vec = [strip(y) for y in x.args if strip(y) is not None and 'Vec<' in (strip(y).ty or '')][0]
            L = vec_len(prog, f, vec)
            line = (span_line(vec.span) if vec.span else 0) or f.line
            if L is None:
                ctx.add(RULE, f, 'lists-cover-domain', 'violation', 'cannot read the number of lists the constructor allocates (expected vec![..; n], resize(n, ..) or a collect over 0..n): %s' % show(vec, 4)[:120], PROPS, line)
                continue
            bad = None
            for mf, t, a in positions:
                d = L.add(a, -1).add(Lin(1), -1)
                if not d.is_const() or d.c < 0:
                    bad = (mf, t, a, d)
                    break
            if L.is_const() and L.c >= 64:
                bad = None      # a list for every bit of a 64-bit mask word
            if bad is None:
                ctx.add(RULE, f, 'lists-cover-domain', 'ok', 'number of lists = %s; every endpoint position the mask builders compute is, for the domain maximum, at most that minus one (same helpers, same endpoint)' % L, PROPS, line, nontrivial=True)
            else:
                mf, t, a, d = bad
                ctx.add(RULE, f, 'lists-cover-domain', 'violation',
                        'the constructor allocates %s lists, but %s hands position %s to %s for an endpoint equal to the domain maximum: the difference (%s) is not a non-negative constant, so allocation and addressing do not use the same mapping of the same endpoint (a mask bit can name a list that does not exist: unchecked access out of bounds)' % (L, mf.name, a, t.name, d),
                        PROPS, line, {'lists': str(L), 'position': str(a), 'difference': str(d)})
    ctx.stat(RULE, mask_builders=len(mask_fns), endpoint_positions=len(positions), constructors=n_ctor)
    if n_ctor < 1:
        ctx.anchor_missing(RULE, 'constructor of the segment tree (aggregate with the layout and the list vector)', PROPS, n_ctor, 1)


def vec_len(prog, f, vec):
    """Lin of the length of a freshly built Vec value, or None"""
    vec = strip(vec)
    if vec is None:
        return None
    if vec.kind == 'call':
        nm = (vec.extra['callee'].get('path') or '').split('::')[-1]
        if nm == 'from_elem' and len(vec.args) >= 2:
            return lin(prog, f, vec.args[1], {})
        if nm in ('collect', 'from_iter') and vec.args:
            return iter_len(prog, f, vec.args[0])
    if vec.kind == 'escaped':
        # a local Vec filled in place: empty at first (new / with_capacity), then exactly one resize / resize_with / extend
        loc = vec.args[0]
        b = f.body
        inits = [strip(d) for d in b.local_defs.get(loc, []) if strip(d) is not None]
        if not inits or not all(d.kind == 'call' and (d.extra['callee'].get('path') or '').split('::')[-1] in ('new', 'with_capacity') for d in inits):
            return None
        fills = []
        for c in b.calls:
            a0 = strip(c.args[0]) if c.args else None
            if a0 is None or a0.kind != 'ref':
                continue
            r = strip(a0.args[0])
            if r is None or r.kind != 'escaped' or r.args[0] != loc or tuple(p for p in a0.args[1] if p != '*'):
                continue
            nm = (c.extra['callee'].get('path') or '').split('::')[-1]
            if nm in ('len', 'capacity', 'is_empty', 'reserve', 'reserve_exact', 'deref', 'deref_mut', 'as_slice', 'as_mut_slice', 'iter', 'iter_mut'):
                continue
            fills.append((nm, c))
        if len(fills) != 1 or b.cfg.loops() and any(fills[0][1].point[0] in body for body in b.cfg.loops().values()):
            return None
        nm, c = fills[0]
        if nm in ('resize', 'resize_with') and len(c.args) >= 2:
            return lin(prog, f, c.args[1], {})
        if nm == 'extend' and len(c.args) >= 2:
            return iter_len(prog, f, c.args[1])
    return None


def iter_len(prog, f, it, depth=0):
    it = strip(it)
    if it is None or depth > 6:
        return None
    if it.kind == 'call':
        nm = (it.extra['callee'].get('path') or '').split('::')[-1]
        if nm in ('map', 'into_iter', 'iter', 'by_ref', 'inspect') and it.args:
            return iter_len(prog, f, it.args[0], depth + 1)
        if nm in ('take',) and len(it.args) >= 2:
            src = strip(it.args[0])
            if src is not None and src.kind == 'call' and (src.extra['callee'].get('path') or '').split('::')[-1] in ('repeat_with', 'repeat', 'repeat_n'):
                return lin(prog, f, it.args[1], {})
        if nm == 'repeat_n' and len(it.args) >= 2:
            return lin(prog, f, it.args[1], {})
        return None
    if it.kind == 'agg' and (it.extra.get('path') or '').endswith('Range') and len(it.args) == 2:
        return lin(prog, f, it.args[1], {}).add(lin(prog, f, it.args[0], {}), -1)
    return None
