"""SIZING: the segment tree allocates a list for every position its masks can name (a clause of C10).

`chunk()` / `chunk_mut()` index the list vector unchecked with the bit positions of a layout mask (UNCHECKED records that
as an assumption).  The part of that assumption that is visible in the shape of the code is an *agreement of two terms*:

  length of the list vector            L  =  the term the constructor passes as the vector's length
  position of the domain's last bucket T  =  the term the mask builders hand to the bit-range fill for a range endpoint,
                                             with the endpoint replaced by the layout's stored domain maximum

Both are computed from the layout's fields through the same private helpers; the rule evaluates both to linear forms
over opaque atoms (field reads, shifts), with pure single-expression helpers inlined, casts dropped and `x op y` with
overflow check read as `x op y`, and requires   L - (T + 1)  to be a non-negative constant.  That the last bucket is the
highest position a mask names (monotonicity of shift and of the heap numbering) is arithmetic and stays assumed (C14/C15,
declined); what is decided here is that allocation and addressing use the same mapping of the same endpoint - a floor
for a ceiling, a half-open slip, a different helper on one side all break the agreement."""
from ssa import strip, show
from engine import span_line

RULE = 'SIZING'
PROPS = ['C10']

ARITH = {'Add': 1, 'AddWithOverflow': 1, 'AddUnchecked': 1, 'Sub': -1, 'SubWithOverflow': -1, 'SubUnchecked': -1}
MUL = {'Mul', 'MulWithOverflow', 'MulUnchecked'}


class Lin:
    """c + sum(coef * atom)"""
    __slots__ = ('c', 't')

    def __init__(self, c=0, t=None):
        self.c = c
        self.t = {k: v for k, v in (t or {}).items() if v != 0}

    def add(self, o, sign=1):
        t = dict(self.t)
        for k, v in o.t.items():
            t[k] = t.get(k, 0) + sign * v
        return Lin(self.c + sign * o.c, t)

    def scale(self, k):
        return Lin(self.c * k, {a: v * k for a, v in self.t.items()})

    def is_const(self):
        return not self.t

    def key(self):
        return (self.c, tuple(sorted(self.t.items(), key=str)))

    def __str__(self):
        parts = ['%s%s' % ('' if v == 1 else '%d*' % v, atom_str(a)) for a, v in sorted(self.t.items(), key=str)]
        if self.c or not parts:
            parts.append(str(self.c))
        return ' + '.join(parts)


def atom_str(a):
    if a[0] == 'field':
        return a[1]
    if a[0] == 'param':
        return 'arg%d' % a[1]
    if a[0] in ('op',):
        return '%s(%s, %s)' % (a[1], lin_str(a[2]), lin_str(a[3]))
    if a[0] == 'call':
        return '%s(%s)' % (a[1].split('::')[-1], ', '.join(lin_str(x) for x in a[2]))
    return str(a)


def lin_str(k):
    return str(Lin(k[0], dict(k[1]))) if k is not None else '?'


def atom(a):
    return Lin(0, {a: 1})


def const_int(v):
    if v.kind != 'const':
        return None
    x = v.args[0]
    if isinstance(x, bool):
        return None
    if isinstance(x, int):
        return x
    return None


def lin(prog, fn, v, env, depth=0):
    """linear form of value v of function fn; env: parameter number -> Lin | None (opaque object, e.g. `self`)"""
    v = strip(v)
    if v is None or depth > 12:
        return atom(('opaque', fn.path, -1))
    k = v.kind
    if k == 'const':
        c = const_int(v)
        return Lin(c) if c is not None else atom(('const', str(v.args)))
    if k == 'param':
        e = env.get(v.args[0])
        return e if e is not None else atom(('param', v.args[0]))
    if k == 'cast':
        return lin(prog, fn, v.args[0], env, depth + 1)
    if k in ('load', 'ref'):
        base = strip(v.args[0])
        path = tuple(p for p in v.args[1] if p != '*')
        if base is not None and base.kind == 'bin' and base.args[0].endswith('WithOverflow') and path in ((0,), ('0',)):
            return lin_bin(prog, fn, base, env, depth)
        if k == 'ref' and not path:
            return lin(prog, fn, base, env, depth + 1)
        names = tuple(str(p) for p in path if not isinstance(p, tuple))
        if names and all(not n.isdigit() and not n.startswith('as:') for n in names):
            # a field of an object reached from a parameter / call result: keyed by the field name (one layout per tree)
            return atom(('field', '.'.join(names)))
        if k == 'load' and path and all(str(p).isdigit() or str(p).startswith('as:') for p in path):
            # Option / tuple projections of a call result: transparent
            return lin(prog, fn, base, env, depth + 1)
        return atom(('opaque', fn.path, v.id))
    if k == 'bin':
        return lin_bin(prog, fn, v, env, depth)
    if k == 'call':
        t = prog.resolve(v)
        args = [lin(prog, fn, a, env, depth + 1) for a in v.args]
        if t is not None and t.info.get('mir') and len(t.body.ret_val) == 1:
            rv = strip(list(t.body.ret_val.values())[0])
            if rv is not None and rv.kind != 'phi' and not effects(t):
                env2 = {i + 1: a for i, a in enumerate(args)}
                return lin(prog, t, rv, env2, depth + 1)
        name = (t.path if t is not None else (v.extra['callee'].get('path') or 'indirect'))
        if name.split('::')[-1] in ('into', 'from') and len(args) == 1:
            return args[0]          # lossless conversion of the endpoint
        return atom(('call', name, tuple(a.key() for a in args)))
    return atom(('opaque', fn.path, v.id))


def effects(t):
    return bool(t.body.stores)


def lin_bin(prog, fn, v, env, depth):
    op = v.args[0]
    a = lin(prog, fn, v.args[1], env, depth + 1)
    b = lin(prog, fn, v.args[2], env, depth + 1)
    if op in ARITH:
        return a.add(b, ARITH[op])
    if op in MUL and (a.is_const() or b.is_const()):
        return b.scale(a.c) if a.is_const() else a.scale(b.c)
    if op == 'Shl' and b.is_const() and 0 <= b.c < 32:
        return a.scale(1 << b.c)
    return atom(('op', op, a.key(), b.key()))


def leaf_fill_calls(prog, fn, env, depth=0, seen=None):
    """(callee, [Lin of each integer argument]) for every call, reachable from fn through crate functions, of a crate
    function that returns the mask word from two integer positions and calls no crate function itself"""
    seen = seen if seen is not None else set()
    out = []
    if fn.path in seen or depth > 5:
        return out
    seen = seen | {fn.path}
    for c in fn.body.calls:
        t = prog.resolve(c)
        if t is None or not t.info.get('mir'):
            continue
        args = [lin(prog, fn, a, env) for a in c.args]
        env2 = {i + 1: a for i, a in enumerate(args)}
        sub_calls = [x for x in t.body.calls if prog.resolve(x) is not None]
        if not sub_calls and is_word_from_two_positions(t):
            out.append((t, args, c))
        else:
            out.extend(leaf_fill_calls(prog, t, env2, depth + 1, seen))
    return out


def is_word_from_two_positions(t):
    b = t.body
    tys = [b.locals[i]['ty'] for i in range(1, b.arg_count + 1)]
    return b.arg_count == 2 and all(x in ('u32', 'usize', 'u64', 'u8', 'u16') for x in tys) and b.locals[0]['ty'] == 'u64'


def run(ctx):
    prog = ctx.prog
    # the layout type: the seg ADT with integer fields only whose methods return mask words
    mask_fns = []
    for f in prog.fns.values():
        if f.family != 'seg' or not f.info.get('mir') or f.is_closure:
            continue
        b = f.body
        if b.locals[0]['ty'] != 'u64' or b.arg_count != 3:
            continue
        if not b.locals[1]['ty'].startswith('&'):
            continue
        mask_fns.append(f)
    if not mask_fns:
        ctx.anchor_missing(RULE, 'mask builders of the layout (self, min, max) -> u64', PROPS, 0, 1)
        return
    layout_ty = mask_fns[0].self_adt
    # ---- which field holds the domain maximum: the field the layout constructor fills from the argument that the tree
    # constructor derives from `range.max`
    ctor_sites = []
    for f in prog.fns.values():
        if f.family != 'seg' or not f.info.get('mir'):
            continue
        for c in f.body.calls:
            t = prog.resolve(c)
            if t is not None and t.self_adt == layout_ty and t.body.arg_count == 2 and not t.body.locals[1]['ty'].startswith('&') and f.self_adt != layout_ty:
                ctor_sites.append((f, c, t))
    max_fields = set()
    for f, c, t in ctor_sites:
        which = None
        for i, a in enumerate(c.args):
            la = lin(prog, f, a, {})
            if la.key() == atom(('field', 'max')).key():
                which = i + 1
        if which is None:
            continue
        from ssa import walk
        for rv in t.body.ret_val.values():
            for x in walk(rv):
                if x.kind == 'agg' and (x.extra.get('path') or '').split('<')[0] == layout_ty:
                    names = (x.extra.get('variant') or {}).get('fields') or []
                    for nm, a in zip(names, x.args):
                        la = lin(prog, t, a, {})
                        if la.key() == atom(('param', which)).key():
                            max_fields.add(nm)
    if len(max_fields) != 1:
        ctx.anchor_missing(RULE, 'layout field that stores the domain maximum (from range.max through the layout constructor)', PROPS, len(max_fields), 1)
        return
    max_field = atom(('field', list(max_fields)[0]))
    # ---- T: positions handed to the bit-range fill for the range endpoints, endpoint := domain maximum
    positions = []
    for mf in sorted(mask_fns, key=lambda x: x.path):
        env = {1: None, 2: max_field, 3: max_field}
        for t, args, c in leaf_fill_calls(prog, mf, env):
            for a in args:
                positions.append((mf, t, a))
    for mf in mask_fns:
        if not any(p[0] is mf for p in positions):
            # each mask builder is an anchor of its own: one that no longer shows its endpoint positions must not pass
            # as a consolidation of the other
            ctx.anchor_missing(RULE, 'endpoint positions passed to the bit-range fill by %s' % mf.name, PROPS, 0, 1)
    if not positions:
        return
    # ---- L: length of the list vector in every constructor of the tree
    n_ctor = 0
    for f in sorted(prog.fns.values(), key=lambda x: x.path):
        if f.family != 'seg' or not f.info.get('mir'):
            continue
        b = f.body
        from ssa import walk
        aggs = []
        for rv in b.ret_val.values():
            for x in walk(rv):
                if x.kind != 'agg' or x.extra.get('akind') != 'adt' or x in aggs:
                    continue
                vals = [strip(y) for y in x.args]
                has_vec = any(y is not None and 'Vec<' in (y.ty or '') for y in vals)
                has_layout = any(y is not None and any(z.kind == 'call' and prog.resolve(z) is not None and prog.resolve(z).self_adt == layout_ty for z in walk(y)) for y in vals)
                if has_vec and has_layout:
                    aggs.append(x)
        for x in aggs:
            n_ctor += 1
            vec = [strip(y) for y in x.args if strip(y) is not None and 'Vec<' in (strip(y).ty or '')][0]
            L = vec_len(prog, f, vec)
            line = (span_line(vec.span) if vec.span else 0) or f.line
            if L is None:
                ctx.add(RULE, f, 'lists-cover-domain', 'violation', 'cannot read the number of lists the constructor allocates (expected vec![..; n], resize(n, ..) or a collect over 0..n): %s' % show(vec, 4)[:120], PROPS, line)
                continue
            bad = None
            for mf, t, a in positions:
                d = L.add(a, -1).add(Lin(1), -1)
                if not d.is_const() or d.c < 0:
                    bad = (mf, t, a, d)
                    break
            if L.is_const() and L.c >= 64:
                bad = None      # a list for every bit of a 64-bit mask word
            if bad is None:
                ctx.add(RULE, f, 'lists-cover-domain', 'ok', 'number of lists = %s; every endpoint position the mask builders compute is, for the domain maximum, at most that minus one (same helpers, same endpoint)' % L, PROPS + ['C14'], line, nontrivial=True)
            else:
                mf, t, a, d = bad
                ctx.add(RULE, f, 'lists-cover-domain', 'violation',
                        'the constructor allocates %s lists, but %s hands position %s to %s for an endpoint equal to the domain maximum: the difference (%s) is not a non-negative constant, so allocation and addressing do not use the same mapping of the same endpoint (a mask bit can name a list that does not exist: unchecked access out of bounds)' % (L, mf.name, a, t.name, d),
                        PROPS + ['C14'], line, {'lists': str(L), 'position': str(a), 'difference': str(d)})
    # ---- the exponent: the shift is taken from the bit length of a value that is at least the largest offset ----------------
    # position(v) = (v - min) >> scale with scale = bitlen(X) - K.  Since X < 2^bitlen(X), X >= max - min gives
    # position(max) < 2^K: the domain maximum maps below the bucket count the mask builders assume.  Decided here: X, as a
    # linear form of the constructor's arguments, is (max - min) + c with c >= 0.  (That K is the builders' bucket exponent and
    # that positions are monotone is arithmetic: C14, assumed.)
    n_exp = 0
    layout_fields = {}
    done_t = set()
    for f, c, t in ctor_sites:
        if t.path in done_t:
            continue
        done_t.add(t.path)
        which_max = None
        for i, a in enumerate(c.args):
            if lin(prog, f, a, {}).key() == max_field.key():
                which_max = i + 1
        if which_max is None:
            continue
        from ssa import walk
        for rv in t.body.ret_val.values():
            for x in walk(rv):
                if not (x.kind == 'agg' and (x.extra.get('path') or '').split('<')[0] == layout_ty):
                    continue
                names = (x.extra.get('variant') or {}).get('fields') or []
                vals = dict(zip(names, x.args))
                min_param = None
                for nm, a in vals.items():
                    la = lin(prog, t, a, {})
                    if len(la.t) == 1 and la.c == 0 and list(la.t)[0][0] == 'param' and list(la.t)[0][1] != which_max and list(la.t.values())[0] == 1:
                        min_param = list(la.t)[0][1]
                others = [nm for nm, a in vals.items() if lin(prog, t, a, {}).key() not in (atom(('param', which_max)).key(), atom(('param', min_param)).key() if min_param else None)]
                if min_param is None or len(others) != 1:
                    continue
                n_exp += 1
                layout_fields['scale'] = others[0]
                for nm, a in vals.items():
                    if lin(prog, t, a, {}).key() == atom(('param', min_param)).key():
                        layout_fields['min'] = nm
                sc = strip(vals[others[0]])
                line = t.line
                X, why = exponent_source(prog, t, sc)
                if X is None:
                    ctx.add(RULE, t, 'exponent-covers-domain', 'violation', 'undecided: the shift amount stored in the layout is not of the form bitlen(X) - K (%s): cannot relate it to the width of the domain' % why, PROPS + ['C14'], line)
                    continue
                lx = lin(prog, t, X, {})
                d = lx.add(atom(('param', which_max)), -1).add(atom(('param', min_param)), 1)
                if d.is_const() and d.c >= 0:
                    ctx.add(RULE, t, 'exponent-covers-domain', 'ok', 'the shift is bitlen(X) - K with X = %s = (max - min) + %d >= the largest offset: the domain maximum maps below 2^K' % (lx, d.c), PROPS + ['C14'], line)
                    # C14's own clauses on the same skeleton: the width is the smallest one (X is exactly the largest offset), and
                    # construction is refused exactly when bitlen(X) < K, i.e. (K = 5) for 16 points or fewer
                    if d.c == 0:
                        ctx.add(RULE, t, 'width-is-minimal', 'ok', 'X is exactly max - min: bitlen(max - min) - K is the smallest shift under which the largest offset stays below 2^K', ['C14'], line)
                    else:
                        ctx.add(RULE, t, 'width-is-minimal', 'violation', 'X = (max - min) + %d: the shift can be one larger than needed, the buckets are then twice as wide as the smallest width that covers the domain' % d.c, ['C14'], line)
                    why_t = refusal_threshold(prog, t, sc, lx, which_max, min_param)
                    ctx.add(RULE, t, 'refusal-threshold', 'violation' if why_t else 'ok', why_t or 'construction fails exactly on the paths on which bitlen(max - min) < K (or the point count is below a constant <= 2^(K-1) + 1) and succeeds only where bitlen(max - min) >= K: with K = 5, refused for 16 points or fewer, built for 17 or more', ['C14'], line)
                else:
                    ctx.add(RULE, t, 'exponent-covers-domain', 'violation',
                            'the shift is bitlen(X) - K with X = %s, which is not (max - min) plus a non-negative constant (difference %s): for some domains the largest offset needs one bit more than X, so the domain maximum maps to bucket 2^K - a position the mask builders and the list vector do not have' % (lx, d), PROPS + ['C14'], line,
                            {'X': str(lx), 'difference': str(d)})
    # ---- the position function narrows only what it has shifted ---------------------------------------------------------------
    n_pos = 0
    WIDTH = {'u8': 8, 'i8': 8, 'u16': 16, 'i16': 16, 'u32': 32, 'i32': 32, 'u64': 64, 'i64': 64, 'usize': 64, 'isize': 64}
    for f in prog.fns.values():
        if f.self_adt != layout_ty or not f.info.get('mir') or f.is_closure:
            continue
        b = f.body
        shifts = [v for v in b._vals if v.kind == 'bin' and v.args[0].replace('Unchecked', '') == 'Shr']
        if not shifts or b.locals[0]['ty'] not in ('u32', 'usize', 'u64', 'u16', 'u8'):
            continue
        n_pos += 1
        bad = None
        for v in b._vals:
            if v.kind != 'cast':
                continue
            src = v.args[0]
            sw, tw = WIDTH.get((src.ty or '').strip()), WIDTH.get((v.ty or '').strip())
            if sw and tw and tw < sw:
                inner = src
                while inner is not None and inner.kind in ('load', 'ref') and not inner.fields():
                    inner = inner.args[0]
                if not (inner is not None and inner.kind == 'bin' and inner.args[0].replace('Unchecked', '') == 'Shr') and not (inner is not None and inner.kind == 'const'):
                    bad = (v, src)
        # the position itself: (value - minimum) >> shift, nothing else (monotone in the coordinate, 0 at the domain minimum)
        if 'min' in layout_fields and 'scale' in layout_fields and b.arg_count == 2 and len(b.ret_val) >= 1:
            want = atom(('op', 'Shr', atom(('param', 2)).add(atom(('field', layout_fields['min'])), -1).key(), atom(('field', layout_fields['scale'])).key()))
            forms = {lin(prog, f, rv, {1: None}).key() for rv in b.ret_val.values()}
            if forms == {want.key()}:
                ctx.add(RULE, f, 'position-form', 'ok', 'position(v) = (v - %s) >> %s: monotone in v, 0 at the domain minimum' % (layout_fields['min'], layout_fields['scale']), ['C14'], f.line)
            else:
                ctx.add(RULE, f, 'position-form', 'violation', 'the position function does not compute (v - %s) >> %s (it computes %s): the coordinate-to-bucket mapping is not the monotone shift of the offset from the domain minimum' % (
                    layout_fields['min'], layout_fields['scale'], '; '.join(lin_str(k) for k in sorted(forms, key=str))), ['C14'], f.line)
        if bad:
            ctx.add(RULE, f, 'narrow-after-shift', 'violation', 'the coordinate offset is narrowed to %s before it is shifted (%s): offsets of 2^%d and more lose their high bits, so distant coordinates share buckets and the position bound no longer follows from the shift' % (bad[0].ty, show(bad[1], 3), WIDTH.get(bad[0].ty, 32)), PROPS + ['C14'], f.line)
        else:
            ctx.add(RULE, f, 'narrow-after-shift', 'ok', 'the offset is shifted at full width; only the shifted position is narrowed', PROPS + ['C14'], f.line)
    ctx.stat(RULE, mask_builders=len(mask_fns), endpoint_positions=len(positions), constructors=n_ctor, exponent_sites=n_exp, position_functions=n_pos)
    if n_exp < 1:
        ctx.anchor_missing(RULE, 'layout constructor with the shift exponent (aggregate of minimum, maximum and shift)', PROPS, n_exp, 1)
    if n_pos < 1:
        ctx.anchor_missing(RULE, 'position function of the layout (shift of the coordinate offset)', PROPS, n_pos, 1)
    if n_ctor < 1:
        ctx.anchor_missing(RULE, 'constructor of the segment tree (aggregate with the layout and the list vector)', PROPS, n_ctor, 1)


def refusal_threshold(prog, t, sc, lx, which_max, min_param):
    """None if the constructor returns None exactly under bitlen(X) < K (or a small-domain guard) and Some only under >=; else why"""
    from rules.bypass import bypass_paths
    from rules.gate import edge_truth
    from evalrel import resolve_phi
    b = t.body

    def unov(v):
        v = strip(v)
        while v is not None and v.kind == 'load' and v.fields() in (('0',), (0,)) and strip(v.args[0]).kind == 'bin':
            v = strip(v.args[0])
        while v is not None and v.kind == 'cast':
            v = strip(v.args[0])
        return v
    s0 = unov(sc)
    if s0.kind == 'bin':
        P, K = unov(s0.args[1]), unov(s0.args[2])
    else:
        P, K = unov(s0.args[0]), unov(s0.args[1])
    if K.kind != 'const' or not isinstance(K.args[0], int):
        return 'undecided: K is not a constant'
    Kv = K.args[0]
    if Kv != 5:
        return 'K = %d: the layout maps the domain onto 2^%d buckets, the property speaks of 32' % (Kv, Kv)

    def classify(blk, succ):
        """'lt' : this edge establishes P < K;  'ge': P >= K;  'small': point count below a constant <= 2^(K-1)+1; None"""
        d = b.switch_discr.get(blk)
        if d is None:
            return None
        d = strip(d)
        if d.kind == 'discr' and strip(d.args[0]) is not None and strip(d.args[0]).kind == 'call' and strip(d.args[0]).callee_name() in ('checked_ilog2', 'checked_sub'):
            # the None side of `X.checked_ilog2()` is X == 0; of `len.checked_sub(c)` is len < c: a handful of points at most
            cal = strip(d.args[0])
            tt = b.mir['blocks'][blk]['term']
            none_t = [tb for v_, tb in tt.get('targets', []) if v_ == 0]
            is_none = (none_t and none_t[0] == succ) or (not none_t and tt.get('otherwise') == succ and 0 not in [v_ for v_, _ in tt.get('targets', [])])
            if is_none:
                la = lin(prog, t, cal.args[0], {})
                dd = la.add(atom(('param', which_max)), -1).add(atom(('param', min_param)), 1)
                if dd.is_const() and -8 <= dd.c <= 8:
                    return 'small'
            return None
        tr = edge_truth(b.mir['blocks'][blk]['term'], succ)
        if tr is None or d.kind != 'bin' or d.args[0] not in ('Lt', 'Le', 'Gt', 'Ge'):
            return None
        x, y = unov(d.args[1]), unov(d.args[2])
        op = d.args[0]
        if not tr:
            op = {'Lt': 'Ge', 'Le': 'Gt', 'Gt': 'Le', 'Ge': 'Lt'}[op]
        # normalise to  x op y
        def same(a, b2):
            return a is b2 or (a.kind == b2.kind == 'const' and a.args[0] == b2.args[0])
        if same(x, P) and same(y, K):
            return {'Lt': 'lt', 'Ge': 'ge'}.get(op)
        if same(y, P) and same(x, K):
            return {'Gt': 'lt', 'Le': 'ge'}.get(op)
        # point count guard:  len < c  /  len <= c
        for a, c_, o in ((x, y, op), (y, x, {'Lt': 'Gt', 'Le': 'Ge', 'Gt': 'Lt', 'Ge': 'Le'}[op])):
            if c_.kind == 'const' and isinstance(c_.args[0], int):
                la = lin(prog, t, a, {})
                dd = la.add(atom(('param', which_max)), -1).add(atom(('param', min_param)), 1)
                if dd.is_const():
                    # a = (max - min) + dd.c ; points = (max - min) + 1
                    pts_bound = None
                    if o == 'Lt':
                        pts_bound = c_.args[0] - dd.c + 1 - 1      # points - 1 + dd.c < c  ->  points <= c - dd.c
                    elif o == 'Le':
                        pts_bound = c_.args[0] - dd.c + 1
                    if pts_bound is not None and pts_bound <= 16:
                        return 'small'
                    # the other side of such a guard: a lower bound on the point count; 17 points and more have bitlen(max - min) >= 5
                    low = None
                    if o == 'Gt':
                        low = c_.args[0] - dd.c + 1 + 1            # points - 1 + dd.c > c  ->  points >= c - dd.c + 2
                    elif o == 'Ge':
                        low = c_.args[0] - dd.c + 1
                    if low is not None and low >= 17:
                        return 'ge'
        return None
    def infeasible(blk, succ):
        """an edge no execution takes: `0 <= u` false (the lower end of a range pattern on an unsigned value)"""
        d = b.switch_discr.get(blk)
        if d is None:
            return False
        d = strip(d)
        tr = edge_truth(b.mir['blocks'][blk]['term'], succ)
        if tr is None or d.kind != 'bin':
            return False
        x, y = strip(d.args[1]), strip(d.args[2])
        rawty = {id(x): (d.args[1].ty or ''), id(y): (d.args[2].ty or '')}
        uns = lambda v: (v.ty or '').strip() in ('usize', 'u64', 'u32', 'u16', 'u8') or rawty.get(id(v), '').strip() in ('usize', 'u64', 'u32', 'u16', 'u8')
        if d.args[0] == 'Le' and x.is_const(0) and uns(y):
            return not tr
        if d.args[0] == 'Ge' and y.is_const(0) and uns(x):
            return not tr
        if d.args[0] == 'Lt' and y.is_const(0) and uns(x):
            return tr
        if d.args[0] == 'Gt' and x.is_const(0) and uns(y):
            return tr
        return False
    for ret in b.cfg.returns:
        paths = bypass_paths(t, set(), ret)
        if globals().get('DEBUG'):
            print('paths', paths, [(x, y, classify(x, y)) for x in b.switch_discr for y in set(b.cfg.succ[x])])
        if paths is None:
            return 'undecided: cannot enumerate the paths of the constructor'
        for pth in paths:
            edges = set(zip(pth, pth[1:]))
            if any(infeasible(x, y) for x, y in edges):
                continue
            kinds = {classify(x, y) for x, y in edges} - {None}
            vals = resolve_phi(b.ret_val[ret], edges, {})
            for rv in vals:
                rv = strip(rv)
                vn = (rv.extra.get('variant') or {}).get('name') if rv is not None and rv.kind == 'agg' else None
                if vn == 'None':
                    if not (kinds & {'lt', 'small'}):
                        return 'a path refuses construction (returns None) without having established bitlen(max - min) < K or a point count of at most 16: some domain with more than 16 points is refused'
                elif vn == 'Some':
                    if 'ge' not in kinds:
                        return 'a path builds the layout (returns Some) without having established bitlen(max - min) >= K: some domain with 16 points or fewer gets a degenerate tree'
                else:
                    return 'undecided: the constructor returns %s' % show(rv, 3)
    return None


def exponent_source(prog, fn, sc):
    """sc = bitlen(X) - K  with bitlen(X) = ilog2(X) + 1 | BITS - leading_zeros(X): returns (X, '') or (None, why)"""
    def unov(v):
        v = strip(v)
        while v is not None and v.kind == 'load' and v.fields() in (('0',), (0,)) and strip(v.args[0]).kind == 'bin':
            v = strip(v.args[0])
        while v is not None and v.kind == 'cast':
            v = strip(v.args[0])
        return v
    sc = unov(sc)
    if sc is None or sc.kind != 'bin' or not sc.args[0].startswith('Sub'):
        if sc is not None and sc.kind == 'call' and sc.callee_name() in ('saturating_sub', 'wrapping_sub', 'checked_sub') and len(sc.args) == 2:
            P, K = unov(sc.args[0]), unov(sc.args[1])
        else:
            return None, show(sc, 3) if sc is not None else '?'
    else:
        P, K = unov(sc.args[1]), unov(sc.args[2])
    if K is None or K.kind != 'const':
        return None, 'the subtrahend %s is not a constant' % show(K, 2)
    # P = ilog2(X) + 1
    if P.kind == 'bin' and P.args[0].startswith('Add'):
        a, b2 = unov(P.args[1]), unov(P.args[2])
        for x, y in ((a, b2), (b2, a)):
            if x.kind == 'load' and 'as:Some' in [str(e_) for e_ in x.args[1]] and strip(x.args[0]) is not None and strip(x.args[0]).kind == 'call' and strip(x.args[0]).callee_name() == 'checked_ilog2':
                x = strip(x.args[0])          # `checked_ilog2()? + 1`: the payload of the Some side
            if x.kind == 'call' and x.callee_name() in ('ilog2', 'checked_ilog2') and y.kind == 'const' and y.args[0] == 1:
                return x.args[0], ''
    # P = BITS - leading_zeros(X)
    if P.kind == 'bin' and P.args[0].startswith('Sub'):
        a, b2 = unov(P.args[1]), unov(P.args[2])
        if a.kind == 'const' and a.args[0] in (32, 64) and b2.kind == 'call' and b2.callee_name() == 'leading_zeros':
            return b2.args[0], ''
    return None, 'the minuend %s is neither ilog2(X) + 1 nor BITS - leading_zeros(X)' % show(P, 3)


def vec_len(prog, f, vec):
    """Lin of the length of a freshly built Vec value, or None"""
    vec = strip(vec)
    if vec is None:
        return None
    if vec.kind == 'call':
        nm = (vec.extra['callee'].get('path') or '').split('::')[-1]
        if nm == 'from_elem' and len(vec.args) >= 2:
            return lin(prog, f, vec.args[1], {})
        if nm in ('collect', 'from_iter') and vec.args:
            return iter_len(prog, f, vec.args[0])
    if vec.kind == 'escaped':
        # a local Vec filled in place: empty at first (new / with_capacity), then exactly one resize / resize_with / extend
        loc = vec.args[0]
        b = f.body
        inits = [strip(d) for d in b.local_defs.get(loc, []) if strip(d) is not None]
        if not inits or not all(d.kind == 'call' and (d.extra['callee'].get('path') or '').split('::')[-1] in ('new', 'with_capacity') for d in inits):
            return None
        fills = []
        for c in b.calls:
            a0 = strip(c.args[0]) if c.args else None
            if a0 is None or a0.kind != 'ref':
                continue
            r = strip(a0.args[0])
            if r is None or r.kind != 'escaped' or r.args[0] != loc or tuple(p for p in a0.args[1] if p != '*'):
                continue
            nm = (c.extra['callee'].get('path') or '').split('::')[-1]
            if nm in ('len', 'capacity', 'is_empty', 'reserve', 'reserve_exact', 'deref', 'deref_mut', 'as_slice', 'as_mut_slice', 'iter', 'iter_mut'):
                continue
            fills.append((nm, c))
        if len(fills) != 1 or b.cfg.loops() and any(fills[0][1].point[0] in body for body in b.cfg.loops().values()):
            return None
        nm, c = fills[0]
        if nm in ('resize', 'resize_with') and len(c.args) >= 2:
            return lin(prog, f, c.args[1], {})
        if nm == 'extend' and len(c.args) >= 2:
            return iter_len(prog, f, c.args[1])
    return None


def iter_len(prog, f, it, depth=0):
    it = strip(it)
    if it is None or depth > 6:
        return None
    if it.kind == 'call':
        nm = (it.extra['callee'].get('path') or '').split('::')[-1]
        if nm in ('map', 'into_iter', 'iter', 'by_ref', 'inspect') and it.args:
            return iter_len(prog, f, it.args[0], depth + 1)
        if nm in ('take',) and len(it.args) >= 2:
            src = strip(it.args[0])
            if src is not None and src.kind == 'call' and (src.extra['callee'].get('path') or '').split('::')[-1] in ('repeat_with', 'repeat', 'repeat_n'):
                return lin(prog, f, it.args[1], {})
        if nm == 'repeat_n' and len(it.args) >= 2:
            return lin(prog, f, it.args[1], {})
        return None
    if it.kind == 'agg' and (it.extra.get('path') or '').endswith('Range') and len(it.args) == 2:
        return lin(prog, f, it.args[1], {}).add(lin(prog, f, it.args[0], {}), -1)
    return None
