"""LIVE: one expiry predicate per family (DESIGN section 4).

key family : live <=> expiration >  time      seg family : live <=> expiration >= time
Every branch / returned bool / retain-closure result that depends on a comparison between an
expiration (ExpiredKey/ExpiredVal::expiration, or the cached minimum) and a time is a liveness
site.  Under each of the three orderings expiration ? time the rule determines what the code
does with the tested item: expose it (return it / its payload, push its payload, keep it in
retain) or remove it (removal transaction on the same index, swap_remove, retain -> false),
and demands: exposed => live, removed => not live.  The purge-skip guard on the cached minimum
may skip only when min_exp > time."""
from ssa import strip, show, walk
from evalrel import Evaluator, region, FLIP
from engine import span_line

RULE = 'LIVE'

LIVESET = {'key': {'>'}, 'seg': {'>', '='}}
CMP = ('lt', 'le', 'gt', 'ge', 'eq', 'ne', 'cmp', 'partial_cmp')

PROPS_BY_MODULE = {
    'key/tree': ['C01', 'C06', 'C07', 'C20'],
    'key/node': ['C01', 'C06', 'C07', 'C20'],
    'key/array': ['C07'],
    'key/list': ['C13', 'C20', 'C07'],
    'seg/tree': ['C03', 'C16'],
    'seg/chunk': ['C03', 'C16'],
}


def is_dbg(v):
    sp = v.span
    return bool(sp and sp[3] and any('debug_assert' in x for x in sp[3]))


def expiration_call(prog, v):
    """the expiration() callback call a value derives from, if any"""
    for x in walk(v):
        if x.kind == 'call' and prog.classify(x) == 'callback' and prog.callback_kind(x) == 'expiration':
            return x
    return None


def cache_fields(prog):
    """self fields that are assigned a value derived from an expiration (the cached minimum)"""
    key = ('cachefields',)
    if key in prog._summ_cache:
        return prog._summ_cache[key]
    out = set()
    for fn in prog.fns.values():
        for st in fn.body.stores:
            root = strip(st.root)
            if root.kind == 'param' and root.args[0] == 1 and len(st.fields()) == 1:
                if expiration_call(prog, st.value) is not None and fn.self_adt:
                    out.add((fn.self_adt, st.fields()[0]))
    prog._summ_cache[key] = out
    return out


def cache_read(prog, fn, v):
    for x in walk(v):
        if x.kind in ('load', 'ref'):
            sf = prog.self_field(x)
            if sf and len(sf) == 1 and (fn.self_adt, sf[0]) in cache_fields(prog):
                return x
    return None


def family_of_call(call):
    tr = (call.extra['callee'].get('trait') or '').split('::')[-1]
    return 'seg' if tr == 'ExpiredVal' else 'key'


def live_sites(prog, fn):
    out = []
    for call in fn.body.calls:
        if prog.classify(call) != 'callback' or prog.callback_kind(call) != 'compare':
            continue
        if call.callee_name() not in CMP or len(call.args) != 2 or is_dbg(call):
            continue
        e = [expiration_call(prog, a) for a in call.args]
        c = [cache_read(prog, fn, a) if e[i] is None else None for i, a in enumerate(call.args)]
        subj = [x is not None or y is not None for x, y in zip(e, c)]
        if subj[0] == subj[1]:
            continue
        k = 0 if subj[0] else 1
        site = {'call': call, 'stored_arg': k, 'method': call.callee_name(), 'exp_call': e[k], 'cache': c[k] is not None,
                'time': call.args[1 - k]}
        if e[k] is not None:
            site['family'] = family_of_call(e[k])
            site['subject'] = subject_of(prog, e[k].args[0]) if e[k].args else None
        else:
            site['family'] = 'key'
            site['subject'] = None
        out.append(site)
    return out


def subject_of(prog, v):
    """the item whose expiration is read: ('acc', accessor call Val, idx Val) | ('param', k) | ('val', Val)"""
    v0 = v
    depth = 0
    while v is not None and depth < 8:
        depth += 1
        if v.kind in ('load', 'ref'):
            root = v.args[0]
            a = prog.accessor_call(root)
            if a is not None:
                return ('acc', root, strip(a[2]))
            if root.kind == 'param':
                return ('param', root.args[0])
            v = root
            continue
        if v.kind == 'param':
            return ('param', v.args[0])
        break
    return ('val', v0)


def pred_summaries(prog):
    """bool functions whose result is a function of (expiration of param k's payload) ? (param t):
    path -> {'table': {rel: bool}, 'subject_param': k, 'family': fam, 'site': site}"""
    key = ('livepred',)
    if key in prog._summ_cache:
        return prog._summ_cache[key]
    out = {}
    for fn in prog.fns.values():
        b = fn.body
        if fn.is_closure or b.locals[0]['ty'] != 'bool' or len(b.cfg.returns) != 1:
            continue
        sites = live_sites(prog, fn)
        if len(sites) != 1 or sites[0]['cache']:
            continue
        s = sites[0]
        subj_param, subj_index_param = None, None
        if s['subject'] and s['subject'][0] == 'param':
            subj_param = s['subject'][1]
        elif s['subject'] and s['subject'][0] == 'acc' and strip(s['subject'][2]).kind == 'param':
            subj_index_param = strip(s['subject'][2]).args[0]      # the item is designated by its arena index
        else:
            continue
        rv = b.ret_val[b.cfg.returns[0]]
        table = {}
        for rel in ('<', '=', '>'):
            val = Evaluator(prog, sites, rel).ev(rv)
            if not isinstance(val, bool):
                table = None
                break
            table[rel] = val
        if table:
            tparam = strip_ref_param(s['time'])
            out[fn.path] = {'table': table, 'subject_param': subj_param, 'subject_index_param': subj_index_param, 'family': s['family'], 'site': s, 'time_param': tparam, 'fn': fn}
    prog._summ_cache[key] = out
    return out


def strip_ref_param(v):
    v = strip(v)
    while v is not None and v.kind in ('ref', 'load') and not v.fields():
        v = strip(v.args[0])
    if v is not None and v.kind == 'param':
        return v.args[0]
    return None


def derives(v, targets, limit=300):
    n = 0
    ids = {t.id for t in targets if t is not None}
    for x in walk(v):
        n += 1
        if x.id in ids:
            return True
        if n > limit:
            break
    return False


def mutates(prog, fn, _stack=None):
    key = ('mutates', fn.path)
    if key in prog._summ_cache:
        return prog._summ_cache[key]
    _stack = _stack or set()
    if fn.path in _stack:
        return False
    _stack = _stack | {fn.path}
    from program import VEC_MUTATORS
    r = False
    b = fn.body
    if any(strip(st.root).kind != 'escaped' for st in b.stores):
        r = True
    for c in b.calls:
        if prog.classify(c) == 'std' and c.callee_name() in VEC_MUTATORS and c.args and (c.args[0].ty or '').startswith('&mut'):
            r = True
    if not r:
        for c, t in prog.callees(fn):
            if not t.is_closure and mutates(prog, t, _stack):
                r = True
                break
    prog._summ_cache[key] = r
    return r


def time_desc(fn, v):
    v = strip(v)
    while v is not None and v.kind in ('ref', 'load') and not v.fields():
        v = strip(v.args[0])
    if v is None:
        return '?'
    if v.kind == 'param':
        return 'param ' + fn.body.local_name(v.args[0])
    if v.kind in ('load', 'ref'):
        root = strip(v.args[0])
        f = '.'.join(x for x in v.fields())
        if root.kind == 'param':
            nm = fn.body.local_name(root.args[0])
            if f.startswith('upvar'):
                return 'captured ' + fn.body.upvar_names.get(f.split('.')[0], f)
            return '%s.%s' % (nm, f)
    return show(v, 3)


def run(ctx):
    prog = ctx.prog
    preds = pred_summaries(prog)
    n = 0
    fams = {}
    for path, p in preds.items():
        fn = p['fn']
        props = PROPS_BY_MODULE.get(fn.module, ['C20'])
        live = LIVESET[p['family']]
        want = {rel: (rel in live) for rel in ('<', '=', '>')}
        t = p['table']
        n += 1
        fams[p['family']] = fams.get(p['family'], 0) + 1
        # polarity: a predicate may be "is live" or "is expired"
        if t == want:
            ctx.add(RULE, fn, 'predicate', 'ok', 'returns true exactly when the item is live (%s family: expiration %s time)' % (p['family'], '>' if p['family'] == 'key' else '>='), props, fn.line, {'table': t})
        elif t == {r: not w for r, w in want.items()}:
            ctx.add(RULE, fn, 'predicate', 'ok', 'returns true exactly when the item is expired', props, fn.line, {'table': t})
        else:
            ctx.add(RULE, fn, 'predicate', 'violation', 'liveness predicate is not the %s-family predicate: result under expiration<time / =time / >time is %s, live is exactly %s' % (p['family'], t, sorted(live)), props, fn.line, {'table': t})
    for fn in prog.fns.values():
        b = fn.body
        sites = live_sites(prog, fn)
        pred_calls = {}
        pred_subject = {}
        for c in b.calls:
            tgt = prog.resolve(c)
            if tgt is not None and tgt.path in preds and not is_dbg(c):
                p = preds[tgt.path]
                pred_calls[c.id] = p['table']
                k = p['subject_param']
                if k is None:
                    ki = p['subject_index_param']
                    if ki - 1 < len(c.args):
                        pred_subject[c.id] = (('acc', None, strip(c.args[ki - 1])), p['family'], c)
                elif k - 1 < len(c.args):
                    pred_subject[c.id] = (subject_of(prog, c.args[k - 1]) if c.args[k - 1].kind != 'call' else
                                          (('acc', c.args[k - 1], strip(prog.accessor_call(c.args[k - 1])[2])) if prog.accessor_call(c.args[k - 1]) else ('val', c.args[k - 1])),
                                          p['family'], c)
        if not sites and not pred_calls:
            continue
        if fn.path in preds and not pred_calls:
            continue     # the predicate function itself: handled above
        props = PROPS_BY_MODULE.get(fn.module, ['C20'])
        loops = b.cfg.loops()
        # retain-style closure: the closure's result is the keep flag
        if fn.is_closure and b.locals[0]['ty'] == 'bool':
            passed_to = [c.callee_name() for c, caller in prog.callers(fn) if c.kind == 'call']
            if any(x in ('retain', 'retain_mut') for x in passed_to) and sites:
                n += 1
                fam = sites[0]['family']
                fams[fam] = fams.get(fam, 0) + 1
                live = LIVESET[fam]
                table = {}
                from evalrel import resolve_phi
                for rel in ('<', '=', '>'):
                    vals = set()
                    ev = Evaluator(prog, sites, rel)
                    blocks, edges, undec = region(b, ev, 0, None, set())
                    for rb in b.cfg.returns:
                        if rb not in blocks:
                            continue
                        for rv in resolve_phi(b.ret_val[rb], edges, {}):
                            vals.add(ev.ev(rv))
                    table[rel] = vals.pop() if len(vals) == 1 else None
                line = span_line(sites[0]['call'], fn.line)
                det = {'table': table, 'time': time_desc(fn, sites[0]['time'])}
                if any(v is None for v in table.values()):
                    ctx.add(RULE, fn, 'retain-keep', 'violation', 'undecided: keep flag of the retain closure is not a function of the expiry comparison', props, line, det)
                elif table == {rel: (rel in live) for rel in table}:
                    ctx.add(RULE, fn, 'retain-keep', 'ok', 'retain keeps exactly the live entries', props, line, det)
                else:
                    ctx.add(RULE, fn, 'retain-keep', 'violation', 'retain keep flag under expiration<time / =time / >time is %s; live is exactly %s' % (table, sorted(live)), props, line, det)
                continue
        # branch sites
        for bb, d in b.switch_discr.items():
            ev0 = Evaluator(prog, sites, '<', pred_calls)
            if not ev0.depends(d):
                continue
            term = b.mir['blocks'][bb]['term']
            if term['span'][3] and any('debug_assert' in x for x in term['span'][3]):
                continue
            if any(s2 not in b.cfg.can_return for s2 in b.cfg.succ[bb]):
                continue     # one side only panics: an assertion, not program logic
            # which site/pred feeds this switch
            feeding = [s for s in sites if derives(d, [s['call']])]
            feeding_pred = [pred_subject[cid] for cid in pred_calls if derives(d, [b._vals[cid]])]
            line = term['span'][1]
            n += 1
            if feeding and feeding[0]['cache']:
                fam = 'key'
                fams[fam] = fams.get(fam, 0) + 1
                check_cache_guard(ctx, prog, fn, bb, d, sites, pred_calls, props, line)
                continue
            if feeding:
                fam = feeding[0]['family']
                subject = feeding[0]['subject']
                tdesc = time_desc(fn, feeding[0]['time'])
            elif feeding_pred:
                subject, fam, pc = feeding_pred[0]
                tp = preds[prog.resolve(pc).path]['time_param']
                tdesc = time_desc(fn, pc.args[tp - 1]) if tp and tp - 1 < len(pc.args) else '?'
            else:
                continue
            fams[fam] = fams.get(fam, 0) + 1
            live = LIVESET[fam]
            inner = [(len(body), h) for h, body in loops.items() if bb in body]
            header = sorted(inner)[0][1] if inner else None
            problems = []
            table = {}
            subj_vals = [x for x in (subject[1:] if subject and subject[0] == 'acc' else ()) if hasattr(x, 'id')]
            for rel in ('<', '=', '>'):
                ev = Evaluator(prog, sites, rel, pred_calls)
                if ev.ev(d) is None:
                    problems.append('undecided: branch condition under expiration%stime cannot be evaluated' % rel)
                    continue
                blocks, edges, undec = region(b, ev, bb, header, loops.get(header, set()))
                exposes, removes = [], []
                for rb in b.cfg.returns:
                    if rb in blocks and rb in b.ret_val:
                        from evalrel import resolve_phi
                        keep = {x.id: x for x in subj_vals}
                        keep.update({ph.id: ph for ph in b.phis.get(header, {}).values()} if header is not None else {})
                        for rv in resolve_phi(b.ret_val[rb], edges, keep):
                            if subj_vals and derives(rv, subj_vals):
                                exposes.append('return %s' % show(rv, 2))
                for c in b.calls:
                    if c.point[0] not in blocks or c.point[0] == bb and False:
                        continue
                    nm = c.callee_name()
                    if prog.classify(c) == 'std' and nm in ('push', 'insert', 'extend', 'push_back') and subj_vals and any(derives(a, subj_vals) for a in c.args[1:]):
                        exposes.append('%s(payload)' % nm)
                    tgt = prog.resolve(c)
                    if tgt is not None and subj_vals and mutates(prog, tgt) and any(strip(a) is subj_vals[-1] for a in c.args):
                        removes.append('%s(item)' % tgt.name)
                    if prog.classify(c) == 'std' and nm in ('swap_remove', 'remove') and subj_vals and len(c.args) > 1 and strip(c.args[1]) is subj_vals[-1]:
                        removes.append('%s(item position)' % nm)
                table[rel] = {'exposes': exposes, 'removes': removes}
                if exposes and rel not in live:
                    problems.append('under expiration%stime (item expired) the item is exposed: %s' % (rel, ', '.join(sorted(set(exposes)))))
                if removes and rel in live:
                    problems.append('under expiration%stime (item live) the item is removed: %s' % (rel, ', '.join(sorted(set(removes)))))
            # completeness: a site that removes must remove under every expired ordering; a site that exposes must
            # expose under every live ordering (else an entry expiring exactly at `time` survives a purge, or a live one is dropped)
            if not problems and len(table) == 3:
                any_rem = any(t['removes'] for t in table.values())
                any_exp = any(t['exposes'] for t in table.values())
                for rel in ('<', '=', '>'):
                    if any_rem and rel not in live and not table[rel]['removes']:
                        problems.append('under expiration%stime (item expired) the item is not removed although this site purges expired items: the predicate is not the %s-family predicate' % (rel, fam))
                    if any_exp and rel in live and not table[rel]['exposes']:
                        problems.append('under expiration%stime (item live) the item is not exposed although this site exposes live items' % rel)
            if not problems and not any(t['exposes'] or t['removes'] for t in table.values()):
                problems.append('undecided: neither an exposure nor a removal of the tested item was recognised on either side of the expiry test')
            sig = 'expiry-test'
            det = {'table': table, 'family': fam, 'time': tdesc, 'subject': show(subj_vals[0], 3) if subj_vals else None}
            if problems:
                ctx.add(RULE, fn, sig, 'violation', '; '.join(problems), props, line, det)
            else:
                ctx.add(RULE, fn, sig, 'ok', 'exposed only when live, removed only when expired (%s family)' % fam, props, line, det)
    ctx.stat(RULE, sites=n, by_family=fams)
    if fams.get('key', 0) < 5:
        ctx.anchor_missing(RULE, 'key-family liveness sites', ['C01', 'C06', 'C07', 'C13', 'C20'], fams.get('key', 0), 5)
    if fams.get('seg', 0) < 1:
        ctx.anchor_missing(RULE, 'seg-family liveness site', ['C03', 'C16'], fams.get('seg', 0), 1)


def check_cache_guard(ctx, prog, fn, bb, d, sites, pred_calls, props, line):
    """`if min_exp ? time { return }`: skipping the purge is allowed only under min_exp > time"""
    b = fn.body
    problems = []
    table = {}
    from rules.gate import purge_fns
    pf = purge_fns(prog)
    purge_blocks = [c.point[0] for c in b.calls if c.callee_name() in ('retain', 'retain_mut') or (prog.resolve(c) is not None and prog.resolve(c).path in pf)]
    for rel in ('<', '=', '>'):
        ev = Evaluator(prog, sites, rel, pred_calls)
        if ev.ev(d) is None:
            problems.append('undecided: guard under min_exp%stime cannot be evaluated' % rel)
            continue
        blocks, edges, undec = region(b, ev, bb, None, set())
        # can a return be reached without passing a purge?
        skipped = False
        seen = set()
        stack = [bb]
        while stack:
            x = stack.pop()
            if x in seen:
                continue
            seen.add(x)
            if x in purge_blocks:
                continue
            if x in b.cfg.returns:
                skipped = True
                break
            for s in b.cfg.succ[x]:
                if (x, s) in edges:
                    stack.append(s)
        table[rel] = 'may skip purge' if skipped else 'purges'
        if skipped and rel != '>':
            problems.append('purge is skipped under min_exp%stime: an entry expiring exactly at / before `time` stays observable' % rel)
    det = {'table': table}
    if not purge_blocks:
        problems.append('undecided: no retain-based purge found behind the guard')
    if problems:
        ctx.add(RULE, fn, 'purge-skip-guard', 'violation', '; '.join(problems), props, line, det)
    else:
        ctx.add(RULE, fn, 'purge-skip-guard', 'ok', 'purge skipped only when min_exp > time', props, line, det)
