"""STALE: an arena index is dead once it has been handed to a removal (DESIGN section 4).

After a call of the removal transaction - directly, or through a callee that may remove - every
index value computed before the call and used after it is stale: the removed slot is on the
free list, and when the removed node had two children the slot of its in-order successor (which
can be any node of its right subtree) has been freed instead.  The one structural exception is
the *parent anchor*: a removal of a child link of node y never frees or re-labels y itself (the
freed slot is the child or a successor taken from the child's own subtree; rotations relink
without moving payloads), so y survives - but its links must be re-read."""
from ssa import strip, show, walk
from origins import origins, atom_str, LINKS
from engine import span_line

RULE = 'STALE'
PROPS_KEY = ['C01', 'C06', 'C20', 'C10', 'C11']
PROPS_OTHER = ['C10', 'C11']


def removal_fns(prog):
    from rules.pool import pool_roles, tree_pool, calls_to
    out = {}
    roles = pool_roles(prog)
    for tree in prog.tree_adts:
        pool, _ = tree_pool(prog, tree)
        if pool not in roles:
            continue
        r = roles[pool]
        from rules.pool import select_removal
        tree_fns = [f for f in prog.fns.values() if f.self_adt == tree and not f.is_closure]
        sel = select_removal(prog, tree, r, tree_fns)
        if len(sel['removal']) == 1 and not sel['bad']:
            # the removal transaction as POOL identifies it (release calls may sit in pass-through helpers), and the private
            # functions around it that also release exactly one slot on every path (a removal split into an outer part that
            # moves the payload and an inner part that unlinks and releases)
            out[sel['removal'][0].path] = sel['removal'][0]
            by_path = {f.path: f for f in tree_fns}
            for pth in sorted(set(sel['T0']) - set(sel['W'])):
                g = by_path.get(pth)
                if g is not None and not g.trait_item:
                    out[pth] = g
            continue
        for f in tree_fns:
            if f.trait_method() != 'clear' and calls_to(prog, f, r['release']):
                out[f.path] = f
    return out


def may_remove(prog, fn, removals, _stack=None):
    """summary: set of atoms describing what fn may remove, over its parameters:
       ('param', k) | ('link', ('param', k), side) | ('root',) | ('any',)"""
    key = ('mayremove', fn.path)
    if key in prog._summ_cache:
        return prog._summ_cache[key]
    _stack = _stack or set()
    if fn.path in _stack:
        return set()
    _stack = _stack | {fn.path}
    out = set()
    if fn.path in removals:
        # the removal removes its index parameter: the parameter(s) that can reach the slot it releases (a removal split
        # into helpers passes parent / child links along as well; those are not removed)
        from rules.pool import pool_roles, tree_pool
        from ssa import walk
        released = set()
        try:
            pool, _ = tree_pool(prog, fn.self_adt)
            r = pool_roles(prog).get(pool)
        except Exception:
            r = None
        if r:
            for c in fn.body.calls:
                tgt = prog.resolve(c)
                if tgt is not None and (tgt in r['release'] or tgt.self_adt == fn.self_adt) and len(c.args) >= 2:
                    if tgt in r['release']:
                        for x in walk(c.args[1]):
                            if x.kind == 'param':
                                released.add(x.args[0])
        for k in range(2, fn.body.arg_count + 1):
            if fn.body.locals[k]['ty'] == 'u32' and (not released or k in released):
                out.add(('param', k))
    else:
        for call in fn.body.calls:
            tgt = prog.resolve(call)
            if tgt is None or tgt.is_closure:
                continue
            sub = may_remove(prog, tgt, removals, _stack)
            for a in sub:
                out |= lift(prog, fn, a, call)
    prog._summ_cache[key] = out
    return out


def lift(prog, fn, atom, call):
    """express a callee's removed atom in terms of the caller's parameters"""
    if atom == ('root',) or atom == ('any',):
        return {atom}
    if atom[0] == 'param':
        k = atom[1]
        if k - 1 >= len(call.args):
            return {('any',)}
        res = set()
        ats = origins(prog, fn, call.args[k - 1])
        direct = {a[1] for a in ats if a[0] == 'param'}

        def root_param(base, depth=0):
            """the parameter a chain of links / helper results starts from, if any"""
            if depth > 6 or not hasattr(base, 'kind'):
                return None
            b0 = strip(base)
            if b0.kind == 'param':
                return b0.args[0]
            sub = origins(prog, fn, b0)
            roots = set()
            for x in sub:
                if x[0] == 'param':
                    roots.add(x[1])
                elif x[0] == 'link':
                    roots.add(root_param(x[1], depth + 1))
                else:
                    roots.add(None)
            return roots.pop() if len(roots) == 1 else None
        for a in ats:
            if a[0] == 'param':
                res.add(a)
            elif a[0] == 'root':
                res.add(('root',))
            elif a[0] == 'link' and hasattr(a[1], 'kind') and strip(a[1]).kind == 'param' and a[2] in ('left', 'right') and strip(a[1]).args[0] not in direct:
                res.add(('link', ('param', strip(a[1]).args[0]), a[2]))
            elif a[0] == 'link' and root_param(a[1]) in direct:
                continue        # a node below a parameter that is itself among the removed ones (the in-order successor)
            elif a[0] == 'link' and root_param(a[1]) is None and direct and any(x[0] == 'link' and root_param(x[1]) in direct for x in ats):
                continue        # further steps of the same walk (a helper's loop summarised): still below that parameter
            elif a[0] == 'const':
                continue
            else:
                res.add(('any',))
        return res
    if atom[0] == 'link':
        base = atom[1]
        if base[0] == 'param':
            k = base[1]
            if k - 1 < len(call.args) and strip(call.args[k - 1]).kind == 'param':
                return {('link', ('param', strip(call.args[k - 1]).args[0]), atom[2])}
        return {('any',)}
    return {('any',)}


def before(p, q):
    return p[0] == q[0] and p[1] < q[1]


def held_across(b, defpt, rpt, usept):
    """is there an execution  def@d ... removal@r ... use@u  on which d is not executed again between r and u?
    (then the value used at u is the one computed at d, before the removal)"""
    cfg = b.cfg
    (db, di), (rb, ri), (ub, ui) = defpt, rpt, usept
    if defpt == rpt:
        return False            # the value is the result of the removing call itself: computed after the removal
    # d -> r
    if not ((db == rb and di < ri) or any(rb in cfg.reachable_from(s) for s in cfg.succ[db])):
        return False
    # r -> u avoiding d
    if rb == ub and ri < ui:
        return not (db == rb and ri < di < ui)
    if db == rb and di > ri:
        return False            # d is executed again before control leaves the removal's block
    if ub == db and di < ui:
        return False            # entering the use block re-executes d before the use
    seen = set()
    stack = list(cfg.succ[rb])
    while stack:
        x = stack.pop()
        if x == ub:
            return True
        if x in seen or x == db:
            continue
        seen.add(x)
        stack.extend(cfg.succ[x])
    return False


def index_uses(prog, fn, tree_acc):
    """[(Val used as index, use point, description)]"""
    b = fn.body
    out = []
    for c in b.calls:
        tgt = prog.resolve(c)
        if tgt is None:
            continue
        if tgt.path in tree_acc:
            out.append((strip(c.args[1]), c.point, '%s(..)' % tgt.name, c))
        elif tgt.self_adt in prog.tree_adts:
            for k in range(2, tgt.body.arg_count + 1):
                if tgt.body.locals[k]['ty'] == 'u32' and k - 1 < len(c.args):
                    out.append((strip(c.args[k - 1]), c.point, 'argument of %s' % tgt.name, c))
    if b.locals[0]['ty'] == 'u32':
        from rules.gate import ret_cases
        for blk, v in ret_cases(b):
            out.append((strip(v), (blk, 10 ** 6), 'function result', None))
    # a value that flows into a loop-carried / merged index is used at the end of the predecessor block
    seen = set()
    work = [u[0] for u in out if u[0].kind == 'phi']
    while work:
        ph = work.pop()
        if ph.id in seen:
            continue
        seen.add(ph.id)
        for a, p in zip(ph.args, ph.extra['preds']):
            sa = strip(a)
            out.append((sa, (p, 10 ** 6), 'the next value of %s' % b.local_name(ph.extra['local']), None))
            if sa.kind == 'phi':
                work.append(sa)
    return out


def expand(v, _seen=None):
    """a phi stands for its operands as far as age is concerned: the youngest information is the phi itself,
    but a phi whose operand is an old value carries that old value"""
    return [v]


def run(ctx):
    prog = ctx.prog
    removals = removal_fns(prog)
    tree_acc = {p: a for p, a in prog.accessors.items() if a['fn'].body.locals[2]['ty'] == 'u32'}
    n_sites = 0
    for fam in ('map', 'set', 'key'):
        if not any(p.startswith(fam + '::') for p in removals):
            ctx.anchor_missing(RULE, 'removal transaction of the %s tree' % fam, PROPS_OTHER, 0, 1)
    for fn in prog.fns.values():
        if fn.is_closure or fn.path in removals:
            continue
        if not (fn.self_adt in prog.tree_adts):
            continue
        b = fn.body
        props = PROPS_KEY if fn.family == 'key' else PROPS_OTHER
        if any(g.trait_method() == 'into_ordered_vec' for g in prog.reaching_trait_methods(fn)):
            props = list(props) + ['C07']      # on the export path: what the export walks
        sites = []
        for call in b.calls:
            tgt = prog.resolve(call)
            if tgt is None or tgt.is_closure:
                continue
            removed = may_remove(prog, tgt, removals)
            if removed:
                sites.append((call, tgt, removed))
        if not sites:
            continue
        uses = index_uses(prog, fn, tree_acc)
        for call, tgt, removed in sites:
            n_sites += 1
            line = span_line(call, fn.line)
            # anchors: values that provably survive this call
            survivors = set()
            all_links = True
            for a in removed:
                if a[0] == 'link' and a[1][0] == 'param':
                    k = a[1][1]
                    if k - 1 < len(call.args):
                        survivors.add(strip(call.args[k - 1]).id)
                elif a[0] == 'param':
                    # the argument itself is removed; its parent (if it was read from a parent's child link) survives
                    k = a[1]
                    arg = call.args[k - 1] if k - 1 < len(call.args) else None
                    ats = origins(prog, fn, arg) if arg is not None else set()
                    for at in ats:
                        if at[0] == 'link' and at[2] in ('left', 'right') and hasattr(at[1], 'kind'):
                            survivors.add(strip(at[1]).id)
                        elif at[0] == 'const':
                            pass
                        else:
                            all_links = False
                else:
                    all_links = False
            if not all_links:
                # something other than a child link may be removed (the root, an arbitrary handle): no anchor survives
                # unless it is itself only a child-link anchor of every removed thing, which cannot be shown
                survivors = set() if any(a[0] in ('root', 'any') for a in removed) else survivors
            removed_args = set()
            for a in removed:
                if a[0] == 'param' and a[1] - 1 < len(call.args):
                    removed_args.add(strip(call.args[a[1] - 1]).id)
            problems = []
            for (v, upt, what, ucall) in uses:
                if ucall is call:
                    continue
                if v.kind == 'const':
                    continue
                if v.id in survivors and v.id not in removed_args:
                    continue
                dpt = v.point if v.point is not None else (0, -1)
                if v.kind == 'phi':
                    dpt = (v.extra['block'], -1)
                if v.kind == 'param':
                    dpt = (0, -1)
                if held_across(b, dpt, call.point, upt):
                    kind = 'the removed index itself' if v.id in removed_args else 'an index obtained before the removal'
                    problems.append((v, what, kind, upt))
            sig = 'across %s' % tgt.name
            det = {'may_remove': sorted(str(a) for a in removed), 'survivors': [show(b._vals[i], 2) for i in survivors]}
            if problems:
                v, what, kind, upt = problems[0]
                ctx.add(RULE, fn, sig + '|' + what, 'violation',
                        '%s (%s) is used as %s after %s may have removed a node: the slot may be on the free list or hold a different entry; re-read it from a surviving anchor'
                        % (kind, show(v, 3), what, tgt.name), props, line, det)
            else:
                ctx.add(RULE, fn, sig, 'ok', 'no index computed before the removal is used after it (only the parent anchor, whose links are re-read)', props, line, det)
    ctx.stat(RULE, removal_sites=n_sites)
    if n_sites < 15:
        ctx.anchor_missing(RULE, 'call sites that may remove a node', PROPS_OTHER, n_sites, 15)
