"""UNCHECKED: every get_unchecked outside the arena accessors is bounded (DESIGN section 4; C10, C13).

Lists: the position comes from Ok(i) of a binary search on the same vector, from Err(i) - 1 under i > 0, or is a
caller's handle (positions are handles by the C10 contract); decided per search outcome Ok(0)/Ok(i)/Err(0)/Err(i).
Segment tree: a bucket index comes from the bit iterator over a layout mask (that mask bits are below chunks.len()
is layout arithmetic: C14, assumed) or is guarded by `< chunks.len()`; an entry position is guarded by
`< buffer.len()` with the length read after the last mutation."""
from ssa import strip, show, walk
from engine import span_line
from rules.listsearch import SEARCHES, CASES, walk_case, buffer_of

RULE = 'UNCHECKED'


def guard_lt(prog, b, idx, call, len_field_pred, field_name_pred=None):
    """is there a dominating branch idx < len(X) (true side) for the call, X satisfying len_field_pred, with the
    length read not invalidated by a mutation between the read and the use?"""
    from rules.gate import edge_truth
    cfg = b.cfg
    for s, d in b.switch_discr.items():
        d = strip(d)
        if d.kind != 'bin' or d.args[0] not in ('Lt', 'Gt'):
            continue
        x, y = strip(d.args[1]), strip(d.args[2])
        small, big = (x, y) if d.args[0] == 'Lt' else (y, x)
        same = small is idx or (small.kind == 'load' and idx.kind == 'load' and small.args[0] is idx.args[0] and small.args[1] == idx.args[1])
        if not same:
            continue
        if not (big.kind == 'call' and big.callee_name() == 'len' and len_field_pred(big)):
            # a crate helper that returns the length of a field of its receiver (`fn len(&self) -> usize { self.buffer.len() }`)
            if not (big.kind == 'call' and helper_len_field(prog, big) is not None and field_name_pred is not None and field_name_pred(helper_len_field(prog, big))):
                # a length remembered in a field of a plain record (an iterator that keeps `chunks.len()`), of a vector whose
                # length never changes after construction
                if not (big.kind == 'load' and frozen_len_field(prog, big, len_field_pred)):
                    continue
        t = b.mir['blocks'][s]['term']
        for succ in cfg.succ[s]:
            tr = edge_truth(t, succ)
            if tr and cfg.pred[succ] == [s] and cfg.dominates(succ, call.point[0]):
                return big, s
    return None, None


def frozen_len_field(prog, v, len_field_pred):
    """v reads a field of a plain record whose every write anywhere is `X.len()` with X accepted by len_field_pred, and no
    function of the crate changes the length of a vector field of that name"""
    from origins import record_writes
    owner = v.extra.get('last_owner')
    if not owner or not v.fields():
        return False
    writes = record_writes(prog).get((owner, v.fields()[-1]))
    if not writes:
        return False
    names = set()
    for (wfn, val) in writes:
        sv = strip(val)
        if not (sv is not None and sv.kind == 'call' and sv.callee_name() == 'len' and sv.args and len_field_pred(sv)):
            return False
        base = strip(sv.args[0])
        while base.kind == 'call' and base.callee_name() in ('deref', 'deref_mut'):
            base = strip(base.args[0])
        names.add(base.fields()[-1])
    grow_shrink = ('push', 'pop', 'insert', 'remove', 'swap_remove', 'truncate', 'clear', 'retain', 'resize', 'resize_with', 'extend', 'drain', 'split_off', 'append', 'dedup', 'set_len')
    for g in prog.fns.values():
        if not g.info.get('mir'):
            continue
        for m in g.body.calls:
            if m.callee_name() in grow_shrink and m.args and prog.resolve(m) is None:
                mb = strip(m.args[0])
                if mb is not None and mb.kind in ('ref', 'load') and mb.fields()[-1:] and mb.fields()[-1] in names:
                    return False
    return True


def helper_len_field(prog, call):
    """name of the field whose length the crate function called here returns, or None"""
    tgt = prog.resolve(call)
    if tgt is None or tgt.is_closure or tgt.body.arg_count != 1 or len(tgt.body.cfg.returns) != 1:
        return None
    rv = strip(tgt.body.ret_val[tgt.body.cfg.returns[0]])
    if rv.kind != 'call' or rv.callee_name() != 'len' or prog.resolve(rv) is not None or not rv.args:
        return None
    base = strip(rv.args[0])
    while base.kind == 'call' and base.callee_name() in ('deref', 'deref_mut'):
        base = strip(base.args[0])
    if base.kind not in ('ref', 'load'):
        return None
    root = strip(base.args[0])
    f = base.fields()
    if root.kind == 'param' and root.args[0] == 1 and f:
        return f[-1]
    return None


def pred_base(v, fields):
    base = strip(v)
    while base.kind == 'call' and base.callee_name() in ('deref', 'deref_mut'):
        base = strip(base.args[0])
    if base.kind not in ('ref', 'load'):
        return False
    f = base.fields()
    return bool(f) and f[-1] == fields[-1]


def analyse_seg(prog, fn):
    """verdicts for the unchecked bucket / entry accesses of one function of the segment tree:
    [(call, key, verdict, message, props, line)]"""
    out = []
    b = fn.body
    for c in b.calls:
        tgt = prog.resolve(c)
        if tgt is None or tgt.path not in prog.accessors or prog.accessors[tgt.path]['fn'].body.locals[2]['ty'] != 'usize':
            continue
        idx = strip(c.args[1])
        fields = prog.accessors[tgt.path]['fields']
        line = span_line(c, fn.line)
        props = ['C10']
        # (a) from the bit iterator
        from_bits = any(x.kind == 'call' and x.callee_name() == 'next' and 'BitIter' in ((x.extra['callee'].get('resolved') or {}).get('path', '') + x.extra['callee'].get('self_ty', '') + ' '.join(x.extra['callee'].get('gargs') or [])) for x in walk(idx))
        if from_bits:
            out.append((c, 'seg-index(%s from mask bits)' % tgt.name, 'exception', 'bucket index is a bit of a layout mask; that every mask bit is below chunks.len() rests on SIZING (the list count covers the position of the domain maximum under the mask builders own mapping) and on layout arithmetic (monotone positions, C14 / C15: assumed)', props, line))
            continue
        def pred(lencall, fields=fields, c=c):
            base = strip(lencall.args[0])
            while base.kind == 'call' and base.callee_name() in ('deref', 'deref_mut'):
                base = strip(base.args[0])
            if base.kind not in ('ref', 'load'):
                return False
            f = base.fields()
            return bool(f) and f[-1] == fields[-1]
        lencall, sw = guard_lt(prog, b, idx, c, pred, lambda fname, fields=fields: fname == fields[-1])
        if lencall is None:
            # (c) the index is produced by iterating the range lo..len(vector): below len by construction, as long as
            #     nothing shrinks the vector inside the loop
            from rules.reset import iterator_source
            rng_ok = False
            if idx.kind == 'load' and tuple(idx.fields()) == ('as:Some', '0') and strip(idx.args[0]).kind == 'call' and strip(idx.args[0]).callee_name() == 'next':
                nx = strip(idx.args[0])
                src = iterator_source(b, nx.args[0]) if nx.args else None
                if src is not None and src.kind == 'agg' and src.extra.get('path', '').endswith('Range') and len(src.args) == 2:
                    hi = strip(src.args[1])
                    if hi.kind == 'call' and hi.callee_name() == 'len' and pred(hi):
                        loops = b.cfg.loops()
                        inl = [body for h, body in loops.items() if nx.point[0] in body]
                        body = min(inl, key=len) if inl else set()
                        shrink = [m for m in b.calls if m.point[0] in body and m.callee_name() in ('swap_remove', 'remove', 'pop', 'truncate', 'clear', 'retain', 'drain', 'split_off') and m.args and pred_base(m.args[0], fields)]
                        rng_ok = not shrink
            if rng_ok:
                out.append((c, 'seg-index(%s)' % tgt.name, 'ok', 'index iterates the range up to %s.len(), and the vector is not shrunk inside the loop' % '.'.join(fields), props, line))
                continue
            out.append((c, 'seg-index(%s)' % tgt.name, 'violation', '%s(%s) is not dominated by a bound check against %s.len()' % (tgt.name, show(idx, 3), '.'.join(fields)), props, line))
            continue
        # no mutation of that vector and no reassignment of the index between the check and the use
        bad = None
        for m in b.calls:
            if m.callee_name() in ('swap_remove', 'remove', 'pop', 'truncate', 'clear', 'retain') and m.args:
                mb = strip(m.args[0])
                if mb.kind in ('ref', 'load') and mb.fields()[-1:] == (fields[-1],):
                    if b.cfg.dominates(sw, m.point[0]) and m.point < c.point and m.point[0] in b.cfg.can_reach([c.point[0]]) and b.cfg.dominates(m.point[0], c.point[0]):
                        bad = m
        if idx.kind == 'load':
            for st in b.stores:
                if strip(st.root) is strip(idx.args[0]) and st.fields() == idx.fields() and b.cfg.dominates(sw, st.point[0]) and b.cfg.dominates(st.point[0], c.point[0]) and st.point < c.point:
                    bad = st
        # a length read before a loop that removes elements of that vector is stale inside the loop
        loops = b.cfg.loops()
        for m in b.calls:
            if m.callee_name() in ('swap_remove', 'remove', 'pop', 'truncate', 'clear', 'retain') and m.args:
                mb = strip(m.args[0])
                if mb.kind in ('ref', 'load') and mb.fields()[-1:] == (fields[-1],):
                    for h, body in loops.items():
                        if m.point[0] in body and sw in body and lencall.point[0] not in body:
                            bad = m
        if bad is not None:
            out.append((c, 'seg-index(%s)' % tgt.name, 'violation', 'the bound check is invalidated before the unchecked access (%s)' % (bad.callee_name() if hasattr(bad, 'callee_name') else 'index reassigned'), props, line))
        else:
            out.append((c, 'seg-index(%s)' % tgt.name, 'ok', 'index < %s.len() checked on every path, nothing invalidates it before the access' % '.'.join(fields), props, line))
    return out


def spliced_into(prog, caller, helper):
    """caller with every call of the private helper spliced in"""
    import copy, inline
    from program import Fn
    host = copy.deepcopy(caller.info['mir'])
    n = 0
    for c in caller.body.calls:
        if prog.resolve(c) is helper:
            t = host['blocks'][c.point[0]]['term']
            if t['k'] == 'call':
                inline.splice(host, c.point[0], helper.info['mir'], t['args'], t['dest'], t.get('target'), t['span'], helper.name)
                n += 1
    return Fn(prog, dict(caller.info, mir=host)) if n else None


def run(ctx):
    prog = ctx.prog
    n_list = n_seg = 0
    # ---- lists ----------------------------------------------------------------------------------
    for fn in prog.fns.values():
        if fn.is_closure or fn.self_adt not in prog.list_adts or fn.family == 'seg':
            continue
        b = fn.body
        # (a bounds-checked `buffer[i]` is held to the same standard: out of bounds it panics instead of reading wild, and C10 forbids both)
        reads = [c for c in b.calls if c.callee_name() in ('get_unchecked', 'get_unchecked_mut', 'index', 'index_mut') and len(c.args) == 2 and buffer_of(prog, c.args[0]) == ('buffer',)]
        if not reads:
            continue
        searches = [c for c in b.calls if c.callee_name() in SEARCHES and c.args and buffer_of(prog, c.args[0]) == ('buffer',)]
        props = ['C10', 'C13']
        decided = {}
        for r in reads:
            pos = strip(r.args[1])
            if pos.kind == 'param' and fn.trait_item:
                decided[r.id] = ('ok', 'position is the caller\'s handle (valid by contract)')
        if searches:
            s = searches[0]
            # no mutation of the buffer between the search and the reads
            muts = [c for c in b.calls if c.callee_name() in ('insert', 'remove', 'swap_remove', 'push', 'clear', 'retain', 'truncate') and c.args and buffer_of(prog, c.args[0]) == ('buffer',) and c.point > s.point]
            for case in CASES:
                res = walk_case(prog, fn, s, case, want_reads=True)
                for (r, p) in res[3]:
                    if r.id in decided and decided[r.id][0] == 'violation':
                        continue
                    ok = False
                    if case == 'OK0':
                        ok = p == 0
                    elif case == 'OKP':
                        ok = p == ('i', 0) or (isinstance(p, tuple) and p and p[0] == 'i' and p[1] in (0, -1))
                    elif case == 'ERRP':
                        ok = isinstance(p, tuple) and p and p[0] == 'i' and p[1] == -1
                    elif case == 'ERR0':
                        ok = False
                    if any(m.point < r.point for m in muts):
                        ok = False
                    if ok:
                        decided.setdefault(r.id, ('ok', 'position is in bounds in every search outcome that reaches it'))
                    else:
                        decided[r.id] = ('violation', 'under search outcome %s the unchecked read uses position %s, which may be out of bounds' % (case, p))
        for r in reads:
            n_list += 1
            v, msg = decided.get(r.id, ('violation', 'position %s of an unchecked read is neither a search result nor a caller\'s handle' % show(strip(r.args[1]), 3)))
            from rules.panicsite import sig_operand
            ctx.add(RULE, fn, 'list-read(%s)' % sig_operand(prog, fn, r.args[1]), v, msg, props, span_line(r, fn.line))
    # ---- segment tree ---------------------------------------------------------------------------
    for fn in prog.fns.values():
        if fn.family != 'seg' or fn.is_closure:
            continue
        for (c, key, verdict, msg, props, line) in analyse_seg(prog, fn):
            n_seg += 1
            if verdict == 'violation' and 'not dominated by a bound check' in msg and not fn.trait_item and fn.vis != 'Public':
                # a private helper: the check may be its callers' (a scan extracted from the loop that guards it);
                # decided on every caller with the helper spliced in
                import inline
                callers = list({cf.path: cf for _, cf in prog.callers(fn) if cf is not fn}.values())
                if callers and not inline.recursive(prog, fn):
                    oks = 0
                    for cf in callers:
                        g = spliced_into(prog, cf, fn)
                        if g is None:
                            break
                        before = sum(1 for r in analyse_seg(prog, cf))
                        res = analyse_seg(prog, g)
                        if len(res) > before - 1 and all(r[2] != 'violation' for r in res):
                            oks += 1
                    if oks == len(callers):
                        verdict, msg = 'ok', 'the bound check against the vector\'s length is made by every caller of this private helper (%s), nothing invalidates it before the access' % ', '.join(sorted(cf.name for cf in callers))
            ctx.add(RULE, fn, key, verdict, msg, props, line)
    ctx.stat(RULE, list_reads=n_list, seg_accesses=n_seg)
    if n_list < 10:
        ctx.anchor_missing(RULE, 'unchecked reads in the list modules', ['C10', 'C13'], n_list, 10)
    if n_seg < 4:
        ctx.anchor_missing(RULE, 'unchecked bucket/entry accesses in the segment tree', ['C10'], n_seg, 4)
    run_unsafe_surface(ctx)


# ---- the unsafe surface of the crate ------------------------------------------------------------------------------------------
UNSAFE_PATH_PREFIXES = ('core::ptr::', 'std::ptr::', 'core::intrinsics::', 'core::mem::transmute', 'std::mem::transmute', 'core::mem::zeroed', 'std::mem::zeroed',
                        'core::mem::uninitialized', 'std::mem::uninitialized', 'core::mem::forget', 'std::mem::forget', 'core::hint::unreachable_unchecked',
                        'core::mem::manually_drop', 'core::mem::maybe_uninit', 'core::slice::raw', 'alloc::alloc::', 'std::alloc::')
UNSAFE_NAMES = {'set_len', 'from_raw_parts', 'from_raw_parts_mut', 'from_raw', 'into_raw', 'unwrap_unchecked', 'assume_init', 'assume_init_read', 'assume_init_mut', 'assume_init_ref',
                'as_mut_ptr', 'as_ptr', 'unchecked_add', 'unchecked_sub', 'unchecked_mul', 'unchecked_shl', 'unchecked_shr', 'transmute', 'transmute_copy', 'read_unaligned', 'write_unaligned',
                'copy_nonoverlapping', 'drop_in_place', 'get_many_unchecked_mut', 'swap_unchecked', 'split_at_unchecked', 'split_at_mut_unchecked', 'leak'}
SURFACE = {'get_unchecked', 'get_unchecked_mut'}
STD_MACROS = ('"vec"', '"format_args"', '"assert', '"debug_assert', '"panic"', '"unreachable"', '"write"', '"println"', '"format"', '"matches"', '"todo"', '"unimplemented"', 'Derive', 'AstPass', 'Desugaring')


def run_unsafe_surface(ctx):
    """What the rules decide about memory rests on one unsafe idiom: unchecked element access with an index the rules account for
    (NULL / PROVENANCE / UNCHECKED).  Ownership, initialisation and lifetime of what the arenas hold are the compiler's business
    as long as nothing else unsafe touches them: a raw read or write, a transmute, a forgotten or manually dropped value, a
    length set by hand is outside everything decided here - reported as such (fail closed), whatever it is used for."""
    prog = ctx.prog
    n_surface = 0
    for fn in prog.fns.values():
        if not fn.info.get('mir'):
            continue
        b = fn.body
        for c in b.calls:
            if prog.classify(c) != 'std':
                continue
            cal = c.extra.get('callee') or {}
            path = cal.get('path') or ''
            nm = c.callee_name()
            if c.span and len(c.span) > 3 and c.span[3] and any(any(m_ in str(e_) for m_ in STD_MACROS) for e_ in c.span[3]):
                continue            # produced by a macro of the standard library (format_args!, vec!, assertions) - not by one of the crate's own
            if nm in SURFACE:
                n_surface += 1
                continue
            if path.startswith(UNSAFE_PATH_PREFIXES) or nm in UNSAFE_NAMES:
                fam_prop = {'map': ['C04'], 'set': ['C05'], 'key': ['C06'], 'seg': ['C03']}.get(fn.family, [])
                if nm in ('zeroed', 'uninitialized', 'assume_init', 'assume_init_read', 'assume_init_ref', 'assume_init_mut'):
                    # a value conjured without its constructor: invalid for types with a validity invariant (a reference, NonZero..):
                    # the standard library aborts the construction at run time
                    ctx.add(RULE, fn, 'unsafe-surface(%s)' % nm, 'violation',
                            '%s makes up a value of a caller-chosen type without constructing it: for a type that has no all-zero / uninitialised value (anything holding a reference, a NonZero, a bool-like enum without 0) the standard library panics right there' % path,
                            ['C10'], span_line(c, fn.line))
                    continue
                ctx.add(RULE, fn, 'unsafe-surface(%s)' % nm, 'violation',
                        'undecided: %s is an unsafe (or ownership-bending) operation outside the one idiom the rules account for (unchecked element access): who owns, initialises and drops what the arena holds is no longer decided by the compiler, and not by any rule here' % path,
                        ['C10', 'C11'] + fam_prop, span_line(c, fn.line))
    ctx.add(RULE, None, 'unsafe-surface', 'ok', 'unchecked element accesses: %d call sites, each decided by NULL / PROVENANCE / UNCHECKED; every other unsafe or ownership-bending operation of the crate is reported on its own' % n_surface, ['C10', 'C11'], nontrivial=True)
    if n_surface < 12:
        ctx.anchor_missing(RULE, 'unchecked element accesses', ['C10'], n_surface, 12)
