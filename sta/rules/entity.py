"""ENTITY: payloads move only as wholes, from the right slot (DESIGN section 4; C04, C05, and C01/C06 for the key tree).

 - every write to a node's payload is a whole-field assignment (no half-updated key/value pair);
 - in the removal the only payload write targets the removed index and its source is the whole payload of one other
   slot, which is the slot POOL sees released (checked there); no &mut to a stored payload is handed to foreign code
   (mem::take / swap / replace) anywhere but in the public value_by_index_mut accessor;
 - insertion stores its payload parameter whole into the fresh slot;
 - is_empty is `root == EMPTY_REF`, and root is written only by the constructor, the root-linking insert,
   replace_parents_child, the leaf-root arm of the removal, and clear."""
from ssa import strip, show, walk
from origins import origins, LINKS
from engine import span_line

RULE = 'ENTITY'
FAMILY_PROPS = {'map': ['C04'], 'set': ['C05'], 'key': ['C01', 'C06', 'C07']}


def payload_field(prog, tree):
    fam = tree.split('::')[0]
    for n in prog.node_adts:
        if n.split('::')[0] == fam:
            for f in prog.adts[n]['variants'][0]['fields']:
                if f['ty'] != 'u32' and not f['ty'].endswith('Color'):
                    return f['name']
    return None


def must_store_payload(prog, f, pf, tree, _stack=None):
    """every entry-to-return path of f passes a store into a node's payload field, directly or in a callee"""
    key = ('muststore', f.path)
    if key in prog._summ_cache:
        return prog._summ_cache[key]
    _stack = _stack or set()
    if f.path in _stack:
        return False
    _stack = _stack | {f.path}
    b = f.body
    sites = set()
    for st in b.stores:
        acc = prog.accessor_call(strip(st.root))
        fl = st.fields()
        if acc is not None and fl and fl[0] == pf:
            sites.add(st.point[0])
    for c in b.calls:
        tgt = prog.resolve(c)
        if tgt is not None and tgt.self_adt == tree and not tgt.is_closure and tgt.path not in prog.accessors and must_store_payload(prog, tgt, pf, tree, _stack):
            sites.add(c.point[0])
    cfg = b.cfg
    ok = bool(sites)
    if ok and 0 not in sites:
        for ret in cfg.returns:
            if ret in sites:
                continue
            if ret == 0 or cfg.paths_avoiding(0, ret, sites):
                ok = False
    prog._summ_cache[key] = ok
    return ok


def delete_removes_found(prog, f, tree, removals):
    """None if fine, else the reason"""
    from rules.gate import edge_truth
    b = f.body
    cfg = b.cfg
    rem_blocks = {}
    for c in b.calls:
        tgt = prog.resolve(c)
        if tgt is not None and tgt.path in removals:
            rem_blocks[c.point[0]] = c
    if not rem_blocks:
        return 'delete never runs the removal transaction: the key stays in the collection'
    found_tests = 0
    for blk, d in b.switch_discr.items():
        d = strip(d)
        t = b.mir['blocks'][blk]['term']
        value_switch = d.kind == 'call' and prog.resolve(d) is not None and prog.EMPTY_REF in [v_ for v_, _ in t.get('targets', [])]
        if value_switch:
            idx = d         # `match self.find_index(key) { EMPTY_REF => .., index => .. }`
        else:
            if d.kind == 'bin' and d.args[0] in ('Lt', 'Gt'):
                # index < EMPTY_REF (= u32::MAX) is index != EMPTY_REF
                xx, yy = strip(d.args[1]), strip(d.args[2])
                small, big = (xx, yy) if d.args[0] == 'Lt' else (yy, xx)
                if prog.is_empty_ref(big):
                    d = type('D', (), {'kind': 'bin', 'args': ('Ne', small, big)})()
            if not (d.kind == 'bin' and d.args[0] in ('Eq', 'Ne')):
                continue
            x, y = strip(d.args[1]), strip(d.args[2])
            idx = x if prog.is_empty_ref(y) else (y if prog.is_empty_ref(x) else None)
            if idx is None or idx.kind != 'call' or prog.resolve(idx) is None:
                continue
        found_tests += 1
        for succ in cfg.succ[blk]:
            if value_switch:
                empty_t = [tb for v_, tb in t['targets'] if v_ == prog.EMPTY_REF]
                nonempty = succ not in empty_t
            else:
                tr = edge_truth(t, succ)
                if tr is None:
                    continue
                nonempty = tr if d.args[0] == 'Ne' else not tr
            if not nonempty:
                continue
            for ret in cfg.returns:
                if succ in rem_blocks:
                    continue
                if succ == ret or cfg.paths_avoiding(succ, ret, set(rem_blocks)):
                    return 'the search found the key (index != EMPTY_REF) but a path returns without running the removal transaction'
        for c in rem_blocks.values():
            if strip(c.args[1]) is not idx:
                return 'the removal is run on %s, not on the index the search returned' % show(c.args[1], 2)
    if not found_tests:
        # unconditional form: the removal must then lie on every path
        for ret in cfg.returns:
            if ret not in rem_blocks and cfg.paths_avoiding(0, ret, set(rem_blocks)) and 0 not in rem_blocks:
                return 'a path through delete returns without running the removal transaction and without a test that the key was not found'
    return None


def in_order_neighbour(prog, f, src, removed):
    """None if `src` is the end of a walk along one link kind (`left`) that starts at the opposite child (`right`) of the removed
    slot - the in-order successor - or the mirror image (predecessor); otherwise the reason"""
    def walk_kind(fn, v, depth=0):
        """(start value, link kind walked or None) for a value that is the result of following one link kind from a start"""
        v = strip(v)
        if v is None or depth > 4:
            return None
        if v.kind == 'call':
            tg = prog.resolve(v)
            if tg is None or tg.is_closure or tg.path in prog.accessors or len(v.args) < 2:
                return None
            kinds, ok_ = set(), True
            k_param = None
            for rv in tg.body.ret_val.values():
                for at in origins(prog, tg, rv):
                    if at[0] == 'param':
                        k_param = at[1]
                    elif at[0] == 'link' and at[2] in ('left', 'right'):
                        kinds.add(at[2])
                    else:
                        ok_ = False
            if not ok_ or k_param is None or len(kinds) > 1 or k_param - 1 >= len(v.args):
                return None
            return strip(v.args[k_param - 1]), (kinds.pop() if kinds else None)
        if v.kind == 'phi':
            b_ = fn.body
            lp = b_.cfg.loops()
            h = v.extra.get('block')
            if h in lp:
                inits = [strip(a) for a, p_ in zip(v.args, v.extra['preds']) if p_ not in lp[h]]
                steps = [strip(a) for a, p_ in zip(v.args, v.extra['preds']) if p_ in lp[h]]
                kinds = set()
                for st_ in steps:
                    nf = prog.node_field(st_) if st_.kind == 'load' else None
                    if nf is None or len(nf[1]) != 1 or nf[1][0] not in ('left', 'right') or strip(nf[0]) is not v:
                        return None
                    kinds.add(nf[1][0])
                if len(inits) == 1 and len(kinds) == 1:
                    return inits[0], kinds.pop()
        return None
    w = walk_kind(f, src)
    if w is None:
        return None          # a shape this clause does not read (left to the sibling comparison)
    start, kind = w
    nf = prog.node_field(start) if start is not None and start.kind == 'load' else None
    if nf is None or len(nf[1]) != 1 or nf[1][0] not in ('left', 'right'):
        return None
    if strip(nf[0]) is not removed and not (strip(nf[0]).kind == removed.kind == 'param' and strip(nf[0]).args == removed.args):
        return None
    side = nf[1][0]
    if kind is None:
        return None          # the child itself (no walk): right for a child without a subtree on the near side; not decided here
    if kind == side:
        return 'it is found by walking %s links from the %s child, i.e. the far end of that subtree, not the entry next to the removed key' % (kind, side)
    return None


def counter_discipline(prog, tree, fld):
    """None if field `fld` of the tree counts its entries: 0 from every constructor, := 0 in clear, + 1 exactly once on every path
    of every function that takes a slot from the pool for an entry, - 1 exactly once on every path of the removal, written
    nowhere else.  Otherwise the reason."""
    key = ('counterdisc', tree, fld)
    if key in prog._summ_cache:
        return prog._summ_cache[key]
    from rules.pool import pool_roles, tree_pool, calls_to, release_counts
    from rules.stale import removal_fns
    res = None
    pool, _ = tree_pool(prog, tree)
    r = pool_roles(prog).get(pool)
    removals = removal_fns(prog)
    fns = [f for f in prog.fns.values() if f.self_adt == tree and not f.is_closure and f.info.get('mir')]
    if not r:
        res = 'no pool recognised'
    def steps(f):
        out = []
        for st in f.body.stores:
            if strip(st.root).kind == 'param' and st.fields() == (fld,):
                v = strip(st.value)
                if v.kind == 'load' and v.fields() in (('0',), (0,)):
                    v = strip(v.args[0])
                kind = None
                if v.kind == 'const' and v.args[0] == 0:
                    kind = 'zero'
                elif v.kind == 'bin' and v.args[0].replace('WithOverflow', '').replace('Unchecked', '') in ('Add', 'Sub'):
                    a, c = strip(v.args[1]), strip(v.args[2])
                    if a.kind == 'load' and prog.self_field(a) == (fld,) and c.kind == 'const' and c.args[0] == 1:
                        kind = 'inc' if v.args[0].startswith('Add') else 'dec'
                elif v.kind == 'call' and v.callee_name() in ('saturating_sub', 'wrapping_sub') and len(v.args) == 2 and strip(v.args[1]).is_const(1) and strip(v.args[0]).kind == 'load' and prog.self_field(strip(v.args[0])) == (fld,):
                    kind = 'dec'
                out.append((st, kind))
        return out
    for f in fns:
        if res:
            break
        ss = steps(f)
        takes = bool(calls_to(prog, f, r['alloc'])) and not (f.body.locals[0]['ty'].split('<')[0] == tree)
        removes = f.path in removals and bool(calls_to(prog, f, r['release']))
        is_clear = f.trait_method() == 'clear'
        is_ctor = f.body.locals[0]['ty'].split('<')[0] == tree
        if any(k is None for _, k in ss):
            res = '%s writes it with something other than 0 / +1 / -1' % f.name
            break
        want = 'inc' if takes else ('dec' if removes else None)
        if is_clear:
            if not any(k == 'zero' for _, k in ss) or any(k != 'zero' for _, k in ss):
                res = 'clear does not simply set it to 0'
            continue
        if is_ctor:
            if ss:
                res = 'the constructor %s writes it through a store' % f.name
            continue
        if want is None:
            if ss:
                res = '%s changes it although it neither takes a slot for an entry nor is the removal' % f.name
            continue
        per_block = {}
        for st, k in ss:
            if k != want:
                res = '%s %s it' % (f.name, {'inc': 'increments', 'dec': 'decrements', 'zero': 'zeroes'}[k])
                break
            per_block[st.point[0]] = per_block.get(st.point[0], 0) + 1
        if res:
            break
        counts = release_counts(f.body, per_block)
        for ret in f.body.cfg.returns:
            cs = counts.get(ret, {0})
            if cs != {1}:
                res = '%s %s it %s times depending on the path (an entry %s exactly once there)' % (f.name, 'increments' if want == 'inc' else 'decrements', sorted(cs), 'is added' if want == 'inc' else 'is removed')
                break
    if not res:
        # constructors: the aggregate gives it 0
        for f in fns:
            if f.body.locals[0]['ty'].split('<')[0] != tree:
                continue
            for v in f.body._vals:
                if v.kind == 'agg' and v.extra.get('akind') == 'adt' and v.extra.get('path') == tree and v.extra.get('variant'):
                    names = v.extra['variant']['fields']
                    if fld in names and len(names) == len(v.args):
                        init = strip(v.args[names.index(fld)])
                        if not (init.kind == 'const' and init.args[0] == 0):
                            res = 'the constructor %s starts it at %s' % (f.name, show(init, 2))
    prog._summ_cache[key] = res
    return res


def overwritten_before(prog, f, slot, reads, pf, own_store):
    """is the payload of node(slot) written (directly or through a helper) at a site from which one of `reads` is reachable?"""
    from summaries import node_writes
    b = f.body
    for (tgt, flds, vd, site, vv) in node_writes(prog, f):
        if not flds or flds[0] != pf or site is own_store:
            continue
        same = (tgt[0] == 'val' and tgt[1] is slot) or (tgt[0] == 'param' and slot.kind == 'param' and slot.args[0] == tgt[1])
        if not same:
            continue
        for r in reads:
            rp = r.extra.get('read_point', r.point) if r.extra else r.point
            if rp is None:
                continue
            if site.point[0] == rp[0]:
                if site.point < rp:
                    return 'by %s' % (site.callee_name() if getattr(site, 'kind', None) == 'call' else 'a store at line %s' % (site.span[1] if site.span else '?'))
            elif rp[0] in b.cfg.reachable_from(site.point[0]):
                return 'by %s' % (site.callee_name() if getattr(site, 'kind', None) == 'call' else 'a store at line %s' % (site.span[1] if site.span else '?'))
    return None


def run(ctx):
    prog = ctx.prog
    from rules.stale import removal_fns
    removals = removal_fns(prog)
    for tree in sorted(prog.tree_adts):
        fam = tree.split('::')[0]
        props = FAMILY_PROPS.get(fam, ['C04'])
        pf = payload_field(prog, tree)
        fns = [f for f in prog.fns.values() if f.self_adt == tree and not f.is_closure]
        n_writes = 0
        props_w = list(props) + ['C02']      # a key written into a node that stays where it is can break the search order
        for f in fns:
            b = f.body
            for st in b.stores:
                acc = prog.accessor_call(strip(st.root))
                if acc is None:
                    continue
                fl = st.fields()
                if not fl or fl[0] in LINKS or fl[0] == 'color':
                    if not fl:
                        n_writes += 1
                        ctx.add(RULE, f, 'payload-write(<whole node>)', 'violation', 'a whole arena node is overwritten', props_w, st.span[1] if st.span else f.line)
                    continue
                n_writes += 1
                line = st.span[1] if st.span else f.line
                sig = 'payload-write(%s)' % '.'.join(fl)
                idx = strip(acc[2])
                if fl != (pf,):
                    ctx.add(RULE, f, sig, 'violation', 'a stored payload is updated field by field (%s): key and value of one entry can come from different sources' % '.'.join(fl), props_w, line)
                    continue
                val = strip(st.value)
                if f.path in removals:
                    # source: whole payload of exactly one other slot
                    srcs = []
                    for x in walk(val):
                        nf = prog.node_field(x) if x.kind in ('load', 'ref') else None
                        if nf and nf[1] and nf[1][0] == pf:
                            srcs.append((strip(nf[0]), nf[1]))
                    ok = idx.kind == 'param' and len(srcs) == 1 and srcs[0][1] == (pf,)
                    if ok:
                        # the payload moved must be the one stored in the source slot when the removal began: no
                        # payload write to that slot (here or in a helper) may precede the read
                        over = overwritten_before(prog, f, srcs[0][0], [x for x in walk(val) if x.kind in ('load', 'ref') and prog.node_field(x) and strip(prog.node_field(x)[0]) is srcs[0][0]], pf, st)
                        if over is not None:
                            ctx.add(RULE, f, sig, 'violation', 'the payload moved into the removed slot is read from slot %s after that slot\'s own payload was overwritten (%s): the entry that was stored there is lost and another one is duplicated' % (show(srcs[0][0], 2), over), props_w, line)
                            continue
                    if ok:
                        # which other slot: the one entry that can take the removed entry's place without disturbing the key
                        # order - the leftmost entry of its right subtree (or, mirrored, the rightmost of its left subtree)
                        why_s = in_order_neighbour(prog, f, srcs[0][0], idx)
                        if why_s:
                            ctx.add(RULE, f, sig.replace('payload-write', 'payload-source'), 'violation', 'the entry moved into the removed slot is not its in-order neighbour: ' + why_s + ' (the keys around the slot are then out of order and lookups miss entries that are present)', props_w, line)
                    if ok:
                        ctx.add(RULE, f, sig, 'ok', 'the removal overwrites the removed slot with the whole payload of one other slot (%s)' % show(srcs[0][0], 3), props_w, line)
                    else:
                        ctx.add(RULE, f, sig, 'violation', 'the removal writes a payload that is not the whole payload of a single other slot (sources: %s; target %s)' % ([('.'.join(s[1]), show(s[0], 2)) for s in srcs], show(idx, 2)), props_w, line)
                else:
                    ok = val.kind == 'param'
                    fresh = all(a[0] == 'pop' for a in origins(prog, f, idx)) if origins(prog, f, idx) else False
                    if ok and fresh:
                        ctx.add(RULE, f, sig, 'ok', 'insertion stores its payload argument whole into the fresh slot', props_w, line)
                    else:
                        ctx.add(RULE, f, sig, 'violation', 'payload written outside insertion/removal, or not the whole payload argument into a fresh slot (%s into %s)' % (show(val, 2), show(idx, 2)), props_w, line)
            # &mut to a stored payload handed to foreign code
            for c in b.calls:
                if prog.classify(c) == 'crate':
                    continue
                for a in c.args:
                    sa = strip(a)
                    if sa.kind == 'ref' and sa.extra.get('mut'):
                        acc = prog.accessor_call(strip(sa.args[0]))
                        if acc is not None and sa.fields() and sa.fields()[0] == pf:
                            n_writes += 1
                            ctx.add(RULE, f, 'payload-borrowed-mut(%s)' % c.callee_name(), 'violation',
                                    'a mutable reference to a stored payload (%s) is passed to %s: the entry is altered outside insertion/removal' % ('.'.join(sa.fields()), c.extra['callee'].get('path') or 'a callback'),
                                    props, span_line(c, f.line))
        if n_writes < 2:
            ctx.anchor_missing(RULE, 'payload write sites of %s' % tree, props, n_writes, 2)
        # ---- the public operations perform their effect on every path on which they must ----
        for f in fns:
            if f.trait_method() == 'insert':
                ok = must_store_payload(prog, f, pf, tree)
                ctx.add(RULE, f, 'insert-stores-payload', 'ok' if ok else 'violation',
                        'every path through insert stores the payload into a slot of the arena' if ok else 'some path through insert returns without storing the payload anywhere: the entry is silently dropped', props, f.line)
            if f.trait_method() == 'delete':
                # the removal may be reached through a function of the same type that hands its index parameter on unchanged
                # and runs the removal on every path (the type's own delete_by_index: HANDLE holds it to exactly that)
                rem2 = dict(removals)
                for g in fns:
                    if g.path in rem2 or g is f or g.is_closure or g.body.arg_count != 2:
                        continue
                    rc = [c for c in g.body.calls if prog.resolve(c) is not None and prog.resolve(c).path in removals]
                    if len(rc) == 1 and len(rc[0].args) >= 2 and strip(rc[0].args[1]).kind == 'param' and strip(rc[0].args[1]).args[0] == 2 \
                            and (rc[0].point[0] == 0 or all(r == rc[0].point[0] or not g.body.cfg.paths_avoiding(0, r, {rc[0].point[0]}) for r in g.body.cfg.returns)):
                        rem2[g.path] = g
                why = delete_removes_found(prog, f, tree, rem2)
                ctx.add(RULE, f, 'delete-removes-found', 'violation' if why else 'ok', why or 'on every path on which the search found the key the removal transaction is run on the index found', props, f.line)
        # emptiness and root writers
        for f in fns:
            if f.trait_method() == 'is_empty':
                b = f.body
                ok = False
                for rv in b.ret_val.values():
                    rv = strip(rv)
                    if rv.kind == 'bin' and rv.args[0] == 'Eq':
                        x, y = strip(rv.args[1]), strip(rv.args[2])
                        for p, q in ((x, y), (y, x)):
                            if p.kind == 'load' and prog.self_field(p) == ('root',) and prog.is_empty_ref(q):
                                ok = True
                why_c = None
                if not ok:
                    # `match self.root { EMPTY_REF => true, _ => false }`: a switch on the root whose EMPTY_REF arm returns true
                    from evalrel import resolve_phi
                    for s0, d0 in b.switch_discr.items():
                        d0 = strip(d0)
                        if d0.kind == 'load' and prog.self_field(d0) == ('root',):
                            t0 = b.mir['blocks'][s0]['term']
                            arms = {}
                            for tv, tb in t0['targets']:
                                arms[tv] = tb
                            e_t = arms.get(prog.EMPTY_REF)
                            o_t = t0['otherwise']
                            if e_t is not None and o_t is not None and len(b.cfg.returns) >= 1:
                                # simple shape: each arm is a block that assigns a constant and jumps to the return
                                rv0 = strip(list(b.ret_val.values())[0])
                                if rv0.kind == 'phi' and len(rv0.args) == len(rv0.extra.get('preds', ())):
                                    byp = {p_: strip(a_) for a_, p_ in zip(rv0.args, rv0.extra['preds'])}
                                    ve, vo = byp.get(e_t), byp.get(o_t)
                                    if ve is not None and vo is not None and ve.kind == 'const' and vo.kind == 'const' and bool(ve.args[0]) is True and bool(vo.args[0]) is False:
                                        ok = True
                if not ok:
                    # the other sound form: a maintained entry counter compared with 0
                    for rv in b.ret_val.values():
                        rv = strip(rv)
                        if rv.kind == 'bin' and rv.args[0] == 'Eq':
                            x, y = strip(rv.args[1]), strip(rv.args[2])
                            for p, q in ((x, y), (y, x)):
                                if p.kind == 'load' and prog.self_field(p) and len(prog.self_field(p)) == 1 and q.kind == 'const' and q.args[0] == 0:
                                    why_c = counter_discipline(prog, tree, prog.self_field(p)[0])
                                    ok = why_c is None
                ctx.add(RULE, f, 'emptiness', 'ok' if ok else 'violation',
                        ('is_empty is root == EMPTY_REF, or an entry counter == 0 that is set to 0 by every constructor and by clear, stepped up once wherever a slot is taken for an entry and down once in the removal' if ok
                         else ('is_empty compares a counter with 0, but the counter does not count the entries: %s' % why_c if why_c else 'is_empty is not root == EMPTY_REF')), props, f.line)
        writers = {}
        for f in fns:
            for st in f.body.stores:
                if strip(st.root).kind == 'param' and st.fields() == ('root',):
                    v = strip(st.value)
                    kind = 'EMPTY_REF' if prog.is_empty_ref(v) else ('fresh' if all(a[0] == 'pop' for a in origins(prog, f, v)) else ('param' if v.kind == 'param' else 'other'))
                    writers.setdefault(f.name, set()).add(kind)
        bad = []
        for name, kinds in writers.items():
            fobj = [f for f in fns if f.name == name][0]
            if 'other' in kinds:
                bad.append('%s assigns root a value that is neither EMPTY_REF, a fresh slot nor its parameter' % name)
            if 'EMPTY_REF' in kinds and not (fobj.path in removals or fobj.trait_method() == 'clear'):
                bad.append('%s empties the root but is neither the removal nor clear' % name)
        f0 = [f for f in fns if f.trait_method() == 'is_empty']
        ctx.add(RULE, f0[0] if f0 else None, 'root-writers', 'violation' if bad else 'ok', '; '.join(bad) if bad else 'root is written only by %s' % sorted(writers), props, f0[0].line if f0 else 0, {'writers': {k: sorted(v) for k, v in writers.items()}})
