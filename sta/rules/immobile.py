"""IMMOBILE: insertion never moves a payload (DESIGN section 4, C17).

Let I be the call-graph closure of the public `insert` of the (non-expiring) map and set trees.
The only writes to a node's payload inside I target the slot freshly obtained from the
allocator in the same function; no element of the arena vector is moved; lookups cannot write
(they take &self and the types have no interior mutability)."""
from ssa import strip, show, walk
from origins import origins, LINKS
from engine import span_line

RULE = 'IMMOBILE'
PROPS = ['C17']
MOVERS = {'swap', 'swap_remove', 'remove', 'insert', 'truncate', 'clear', 'drain', 'retain', 'retain_mut', 'sort', 'sort_by',
          'sort_by_key', 'sort_unstable', 'reverse', 'rotate_left', 'rotate_right', 'dedup', 'dedup_by', 'dedup_by_key',
          'split_off', 'append', 'pop', 'fill', 'copy_within', 'clone_from_slice', 'copy_from_slice', 'swap_with_slice'}
INTERIOR = ('Cell<', 'RefCell<', 'UnsafeCell<', 'Mutex<', 'RwLock<', 'Atomic', 'OnceCell<', '*mut ', '*const ')


def payload_fields(prog, fn):
    return None


def is_payload_path(fields):
    return (not fields) or (fields[0] not in LINKS and fields[0] != 'color')


def run(ctx):
    prog = ctx.prog
    roots = [f for f in prog.fns.values() if f.trait_method() == 'insert' and f.self_adt in prog.tree_adts and f.family in ('map', 'set')]
    for fam in ('map', 'set'):
        if not any(f.family == fam for f in roots):
            ctx.anchor_missing(RULE, 'insert of the %s tree' % fam, PROPS, 0, 1)
    for root in roots:
        fns = prog.closure(root)
        n_writes = 0
        for fn in fns:
            b = fn.body
            for st in b.stores:
                a = prog.accessor_call(strip(st.root))
                if a is None:
                    continue
                f = st.fields()
                if not is_payload_path(f):
                    continue
                n_writes += 1
                idx = strip(a[2])
                ats = origins(prog, fn, idx)
                line = st.span[1] if st.span else fn.line
                sig = 'payload-write(%s)' % ('.'.join(f) or '<whole node>')
                fresh = bool(ats) and all(x[0] == 'pop' for x in ats)
                det = {'slot': show(idx, 3), 'reached_from': root.family + '::insert'}
                if fresh:
                    ctx.add(RULE, fn, sig, 'ok', 'payload written into the slot just taken from the allocator', PROPS, line, det)
                else:
                    ctx.add(RULE, fn, sig, 'violation', 'on the insert path a payload is written into a slot that is not the fresh one (%s): an existing handle would designate a different entry' % show(idx, 3), PROPS, line, det)
            for c in b.calls:
                if prog.classify(c) == 'crate':
                    continue
                # &mut to a payload handed to foreign code (mem::swap, ptr::write, clone_from ...)
                for a in c.args:
                    sa = strip(a)
                    if sa.kind == 'ref' and sa.extra.get('mut'):
                        acc = prog.accessor_call(strip(sa.args[0]))
                        if acc is not None and is_payload_path(sa.fields()):
                            idx = strip(acc[2])
                            ats = origins(prog, fn, idx)
                            if not (ats and all(x[0] == 'pop' for x in ats)):
                                n_writes += 1
                                ctx.add(RULE, fn, 'payload-borrowed-mut(%s)' % c.callee_name(), 'violation',
                                        'on the insert path a mutable reference to a stored payload is passed to %s' % (c.extra['callee'].get('path') or 'an indirect call'),
                                        PROPS, span_line(c, fn.line), {'slot': show(idx, 3)})
                # moving elements of the arena vector
                name = c.callee_name()
                if name in MOVERS and c.args:
                    base = strip(c.args[0])
                    seen = 0
                    while base.kind == 'call' and base.callee_name() in ('deref', 'deref_mut', 'as_mut_slice', 'as_slice') and seen < 4:
                        base = strip(base.args[0])
                        seen += 1
                    sf = prog.self_field(base)
                    if sf is not None and sf[-1] == 'buffer' and fn.self_adt in (prog.pool_adts | prog.tree_adts):
                        n_writes += 1
                        ctx.add(RULE, fn, 'arena-move(%s)' % name, 'violation', 'on the insert path elements of the arena vector are moved by %s' % name, PROPS, span_line(c, fn.line))
        ctx.add(RULE, root, 'closure', 'ok' if n_writes >= 1 else 'violation',
                '%d functions reachable from insert, %d payload write sites examined' % (len(fns), n_writes) if n_writes >= 1 else
                'anchor-missing: no payload write site found on the insert path (%d): the recogniser lost its anchors' % n_writes,
                PROPS, root.line, {'functions': sorted(f.name for f in fns)})
    # lookups cannot write: no interior mutability in the collection types
    for adt_path in sorted(prog.tree_adts | prog.pool_adts | prog.node_adts):
        if adt_path.split('::')[0] not in ('map', 'set'):
            continue
        adt = prog.adts[adt_path]
        bad = [f for v in adt['variants'] for f in v['fields'] if any(t in f['ty'] for t in INTERIOR)]
        if bad:
            ctx.add(RULE, None, 'interior-mutability(%s)' % adt_path, 'violation', 'type %s has interior mutability (%s): a &self lookup could move entries' % (adt_path, bad[0]['ty']), PROPS, adt['span'][1])
        else:
            ctx.add(RULE, None, 'interior-mutability(%s)' % adt_path, 'ok', 'no interior mutability: &self operations cannot write', PROPS, adt['span'][1], nontrivial=False)
    # &self signature of the lookups
    for fn in prog.fns.values():
        if fn.self_adt in prog.tree_adts and fn.family in ('map', 'set') and fn.trait_method() in ('get_value', 'first_index_less', 'first_index_less_by', 'value_by_index', 'index_after', 'index_before', 'is_empty'):
            ty = fn.body.locals[1]['ty']
            ok = ty.startswith('&') and not ty.startswith('&mut')
            ctx.add(RULE, fn, 'receiver', 'ok' if ok else 'violation', 'lookup takes %s' % ('&self' if ok else ty), PROPS, fn.line, nontrivial=not ok)
