"""INORDER: the export emits left subtree, node, right subtree (DESIGN section 4; C07).

Recognised idiom: an explicit stack of frames (self index, pending left child, pending right child); in each round
the top frame is examined: if its left child is pending it is consumed and pushed; otherwise the node itself is
emitted once (if pending), then the right child, if pending, is consumed and pushed, else the frame is popped.
Decided: frame field roles (by provenance of what the frame constructor stores), the emit is reachable only on the
"left consumed" side, the right child is pushed only after the emit test of the same frame, every field is cleared
when consumed, the frame examined is the top of the stack, the pop happens only when nothing is pending.
A traversal written differently is reported as undecided (fail closed)."""
from ssa import strip, show, walk
from origins import origins, record_writes, LINKS
from engine import span_line
from rules.gate import edge_truth

RULE = 'INORDER'
PROPS = ['C07']


def frame_roles(prog, owner, within):
    """{field: 'left'|'right'|'self'} from what is ever stored into the frame's fields (by the traversal and its helpers)"""
    roles = {}
    for (adt, field), writes in record_writes(prog).items():
        if adt != owner:
            continue
        kinds = set()
        for (wfn, val) in writes:
            if wfn.path not in within:
                continue
            sv = strip(val)
            if prog.is_empty_ref(sv):
                continue
            if sv.kind == 'load' and len(sv.fields()) == 1 and sv.fields()[0] in ('left', 'right'):
                kinds.add(sv.fields()[0])
            elif sv.kind == 'param':
                kinds.add('self')
            else:
                kinds.add('other')
        if len(kinds) == 1:
            roles[field] = kinds.pop()
        else:
            roles[field] = 'mixed:%s' % sorted(kinds)
    return roles


def run(ctx):
    prog = ctx.prog
    roots = [f for f in prog.fns.values() if f.trait_method() == 'into_ordered_vec' and f.self_adt in prog.tree_adts]
    if not roots:
        ctx.anchor_missing(RULE, 'tree implementation of into_ordered_vec', PROPS, 0, 1)
        return
    for root in roots:
        cands = [f for f in prog.closure(root) if any(c.callee_name() == 'push' for c in f.body.calls) and f.body.cfg.loops()]
        if not cands:
            ctx.add(RULE, root, 'traversal', 'violation', 'undecided: no loop that pushes into the result vector', PROPS, root.line)
            continue
        fn = cands[0]
        b = fn.body
        cfg = b.cfg
        problems = []
        # the frame reference: result of index_mut / last_mut on a local stack
        frames = [c for c in b.calls if c.callee_name() in ('index_mut', 'index', 'last_mut', 'last') and strip_ref(c.args[0]).kind == 'escaped']
        if len(frames) != 1:
            alt = classic_walk(prog, fn)
            if alt is not None:
                verdict, msg = alt
                ctx.add(RULE, fn, 'traversal', verdict, msg, PROPS, fn.line)
                continue
            ctx.add(RULE, fn, 'traversal', 'violation', 'undecided: the traversal does not examine exactly one frame of an explicit stack per round (%d candidates)' % len(frames), PROPS, fn.line)
            continue
        fr = frames[0]
        stack_local = strip_ref(fr.args[0]).args[0]
        line = span_line(fr, fn.line)
        # top of stack
        if fr.callee_name() in ('index_mut', 'index'):
            ix = strip(fr.args[1])
            if ix.kind == 'load' and ix.fields() == ('0',):
                ix = strip(ix.args[0])
            top = ix.kind == 'bin' and ix.args[0].startswith('Sub') and strip(ix.args[2]).is_const(1) and strip(ix.args[1]).kind == 'call' and strip(ix.args[1]).callee_name() == 'len' \
                and strip_ref(strip(ix.args[1]).args[0]).kind == 'escaped' and strip_ref(strip(ix.args[1]).args[0]).args[0] == stack_local
            if not top:
                problems.append('the frame examined is not the top of the stack (len - 1)')
        # frame fields and roles
        loads = [v for v in b._vals if v.kind == 'load' and ffield(v, fr) is not None and v.ty == 'u32']
        owner = None
        for v in loads:
            owner = v.extra.get('last_owner') or owner
        roles = frame_roles(prog, owner, {g.path for g in prog.closure(root)} | {fn.path}) if owner else {}
        by_role = {}
        for f, r in roles.items():
            by_role.setdefault(r, []).append(f)
        for r in ('left', 'right', 'self'):
            if len(by_role.get(r, [])) != 1:
                problems.append('undecided: cannot identify the frame field holding the %s (%s)' % ({'left': 'pending left child', 'right': 'pending right child', 'self': 'node itself'}[r], roles))
        if problems:
            ctx.add(RULE, fn, 'traversal', 'violation', '; '.join(problems[:2]), PROPS, line)
            continue
        FL, FR, FS = by_role['left'][0], by_role['right'][0], by_role['self'][0]

        # ---- per-block state of the three frame fields: 'P' pending (!= EMPTY_REF), 'C' consumed (== EMPTY_REF), '?' ----
        fields = (FL, FS, FR)
        tests = {}      # switch block -> (field, op)
        for sblk, d in b.switch_discr.items():
            d = strip(d)
            if d.kind == 'bin' and d.args[0] in ('Ne', 'Eq'):
                x, y = strip(d.args[1]), strip(d.args[2])
                for p_, q_ in ((x, y), (y, x)):
                    if p_.kind == 'load' and ffield(p_, fr) in fields and prog.is_empty_ref(q_):
                        tests[sblk] = (ffield(p_, fr), d.args[0])
        clears = {}
        for st in b.stores:
            if ffield(st, fr) in fields:
                clears.setdefault(st.point[0], []).append((st.point, ffield(st, fr), 'C' if prog.is_empty_ref(st.value) else '?'))
        start = fr.point[0]
        state_in = {start: None}
        init = {f: '?' for f in fields}
        order = [x for x in cfg.rpo if cfg.dominates(start, x)]
        st_in = {x: None for x in order}
        for succ0 in cfg.succ[start]:
            st_in[succ0] = dict(init)
        changed = True
        out_state = {}
        while changed:
            changed = False
            for x in order:
                if x == start or st_in[x] is None:
                    continue
                cur = dict(st_in[x])
                for (_, f, v) in sorted(clears.get(x, [])):
                    cur[f] = v
                out_state[x] = cur
                for succ in cfg.succ[x]:
                    if succ == start or succ not in st_in:
                        continue
                    nxt = dict(cur)
                    if x in tests:
                        f, op = tests[x]
                        tr = edge_truth(b.mir['blocks'][x]['term'], succ)
                        if tr is not None:
                            ne = tr if op == 'Ne' else not tr
                            nxt[f] = 'P' if ne else 'C'
                    old = st_in[succ]
                    merged = nxt if old is None else {f: (old[f] if old[f] == nxt[f] else '?') for f in fields}
                    if merged != old:
                        st_in[succ] = merged
                        changed = True

        def state_at(call):
            """state just before the call: block-in state plus the clears that precede it in the block"""
            cur = dict(st_in.get(call.point[0]) or init)
            for (pt, f, v) in sorted(clears.get(call.point[0], [])):
                if pt < call.point:
                    cur[f] = v
            return cur

        def state_at_point(pt):
            cur = dict(st_in.get(pt[0]) or init)
            for (p2, f, v) in sorted(clears.get(pt[0], [])):
                if p2 < pt:
                    cur[f] = v
            return cur

        def state_before_clears(call):
            """state at the moment the frame field used by this push was read"""
            used = [x for x in walk(call.args[1]) if x.kind == 'load' and ffield(x, fr) is not None and x.point]
            if used:
                pt = min(x.extra.get('read_point', x.point) for x in used)
                return state_at_point(pt)
            return dict(st_in.get(call.point[0]) or init)
        emits = []
        child_push = {}
        for c in b.calls:
            if c.callee_name() != 'push' or strip_ref(c.args[0]).kind != 'escaped':
                continue
            tgt_local = strip_ref(c.args[0]).args[0]
            arg = c.args[1]
            used = [x for x in walk(arg) if x.kind == 'load' and ffield(x, fr) is not None]
            flds = {ffield(x, fr) for x in used}
            if tgt_local == stack_local:
                for f in flds:
                    child_push.setdefault(f, []).append(c)
            else:
                emits.append((c, flds))
        if not emits:
            problems.append('undecided: no emission of a node payload')
        for c, flds in emits:
            if flds != {FS}:
                problems.append('the value emitted belongs to %s, not to the frame\'s own node' % sorted(flds))
            s0 = state_before_clears(c)
            if s0[FL] != 'C':
                problems.append('a node is emitted although its left subtree may still be pending')
            if s0[FS] != 'P':
                problems.append('a node may be emitted twice (emit not guarded by "node still pending")')
        for c in child_push.get(FL, []):
            if state_before_clears(c)[FL] != 'P':
                problems.append('the left child is pushed although it is not known to be pending')
        for c in child_push.get(FR, []):
            s0 = state_before_clears(c)
            if s0[FL] != 'C':
                problems.append('the right child is pushed while the left subtree may still be pending')
            if s0[FR] != 'P':
                problems.append('the right child is pushed although it is not known to be pending')
            if s0[FS] != 'C':
                # the node must have been dealt with (emitted or skipped as expired) in this or an earlier round
                if not any(cfg.dominates(t_, c.point[0]) for t_, (f_, _) in tests.items() if f_ == FS):
                    problems.append('the right child is pushed before the node itself was dealt with')
        if not child_push.get(FL) or not child_push.get(FR):
            problems.append('a child direction is never descended (left pushes: %d, right pushes: %d)' % (len(child_push.get(FL, [])), len(child_push.get(FR, []))))
        if set(child_push) - {FL, FR}:
            problems.append('a frame is pushed for something that is not a pending child')
        # every use consumes its field before the round ends
        for f, cs in list(child_push.items()) + [(FS, [c for c, _ in emits])]:
            for c in cs:
                end = out_state.get(c.point[0]) or {}
                cleared_before = any(pt < c.point and ff == f and v == 'C' for (pt, ff, v) in clears.get(c.point[0], []))
                dom_clear = any(ff == f and v == 'C' and cfg.dominates(blk, c.point[0]) for blk, lst in clears.items() for (pt, ff, v) in lst)
                if not (cleared_before or dom_clear or end.get(f) == 'C'):
                    problems.append('frame field %s is not cleared when it is consumed (it would be processed again)' % f)
        # pop only when nothing is pending
        for c in b.calls:
            if c.callee_name() in ('pop', 'truncate', 'remove', 'swap_remove') and strip_ref(c.args[0]).kind == 'escaped' and strip_ref(c.args[0]).args[0] == stack_local:
                s0 = state_at(c)
                if s0[FL] != 'C' or s0[FR] != 'C':
                    problems.append('a frame is popped while a child may still be pending')
        # a frame with nothing pending must be popped before the next round (otherwise the walk never ends)
        pops = [c for c in b.calls if c.callee_name() in ('pop', 'truncate', 'remove', 'swap_remove') and strip_ref(c.args[0]).kind == 'escaped' and strip_ref(c.args[0]).args[0] == stack_local]
        loops_ = cfg.loops()
        headers = [h for h, body_ in loops_.items() if start in body_]
        for x, (f_, op) in tests.items():
            for succ in cfg.succ[x]:
                tr = edge_truth(b.mir['blocks'][x]['term'], succ)
                if tr is None:
                    continue
                ne = tr if op == 'Ne' else not tr
                cur = dict(out_state.get(x) or st_in.get(x) or init)
                cur[f_] = 'P' if ne else 'C'
                if all(cur[ff] == 'C' for ff in fields):
                    # every way back to the loop header passes a pop
                    for h in headers:
                        avoid = {p_.point[0] for p_ in pops}
                        if succ in avoid:
                            continue
                        if succ == h or cfg.paths_avoiding(succ, h, avoid):
                            problems.append('a frame with nothing left pending is not popped on every path back to the next round: the traversal would examine it forever')
        # the child pushed is built from the link it was read from: new(index, node(index))
        for f, cs in child_push.items():
            for c in cs:
                arg = strip(c.args[1])
                if arg.kind == 'call' and len(arg.args) == 2:
                    a0 = strip(arg.args[0])
                    acc = prog.accessor_call(strip(arg.args[1]))
                    if acc is not None and not same(a0, strip(acc[2])):
                        problems.append('a child frame is built for one node but initialised from another')
        if problems:
            ctx.add(RULE, fn, 'traversal', 'violation', '; '.join(sorted(set(problems))[:3]), PROPS, line, {'roles': roles})
        else:
            ctx.add(RULE, fn, 'traversal', 'ok', 'explicit-stack traversal emits left subtree, node, right subtree: emit only on the left-consumed side, once; right child after the emit test; fields cleared when consumed; pop only when nothing is pending', PROPS, line, {'roles': roles})


def classic_walk(prog, fn):
    """the textbook iterative in-order walk over a stack of plain indices:
         loop { while cur != EMPTY { stack.push(cur); cur = node(cur).left }  let Some(i) = stack.pop() else break;
                visit(i); cur = node(i).right }
    returns (verdict, message) if the function has this shape (stack of indices pushed from a cursor), else None"""
    from rules.gate import known_empty
    b = fn.body
    pushes, pops, emits = [], [], []
    for c in b.calls:
        nm = c.callee_name()
        if nm == 'push' and len(c.args) == 2 and strip_ref(c.args[0]).kind == 'escaped':
            pushes.append(c)
        elif nm == 'pop' and len(c.args) == 1 and strip_ref(c.args[0]).kind == 'escaped':
            pops.append(c)
    stacks = {strip_ref(c.args[0]).args[0] for c in pops}
    if len(stacks) != 1:
        return None
    S = stacks.pop()
    spush = [c for c in pushes if strip_ref(c.args[0]).args[0] == S]
    emits = [c for c in pushes if strip_ref(c.args[0]).args[0] != S]
    if not spush or not emits or (b.locals[S]['ty'] or '').find('u32') < 0:
        return None
    problems = []
    cursors = {strip(c.args[1]).id: strip(c.args[1]) for c in spush}
    if len(cursors) != 1 or list(cursors.values())[0].kind != 'phi':
        return None
    C = list(cursors.values())[0]
    popped = []
    for v in b._vals:
        if v.kind == 'load' and strip(v.args[0]).kind == 'call' and strip(v.args[0]) in pops and tuple(v.fields()) == ('as:Some', '0'):
            popped.append(v)
    if not popped:
        return None
    popped_ids = {v.id for v in popped}
    # (a) what is emitted belongs to a popped index
    for e in emits:
        idxs = []
        for x in walk(e.args[1]):
            nf = prog.node_field(x) if x.kind in ('load', 'ref') else None
            if nf:
                idxs.append(strip(nf[0]))
        if not idxs or any(i.id not in popped_ids for i in idxs):
            problems.append('the value emitted does not belong to the index just popped from the stack')
    # (b) the cursor: starts at the root, advances to the left link of what was pushed, restarts at the right link of what
    #     was popped
    def all_args(ph, seen):
        out = []
        for a in ph.args:
            a = strip(a)
            if a.kind == 'phi' and not a.extra.get('anyof'):
                if a.id not in seen:
                    seen.add(a.id)
                    out += all_args(a, seen)
            else:
                out.append(a)
        return out
    seen = {C.id}
    srcs = all_args(C, seen)
    saw_left = saw_right = False
    for a in srcs:
        if a.kind == 'load' and prog.self_field(a) == ('root',):
            continue
        nf = prog.node_field(a) if a.kind == 'load' else None
        if nf and nf[1] == ('left',) and strip(nf[0]).id in seen:
            saw_left = True
            continue
        if nf and nf[1] == ('right',) and strip(nf[0]).id in popped_ids:
            saw_right = True
            continue
        if nf and nf[1] == ('right',) and strip(nf[0]).id in seen:
            problems.append('after pushing a node the walk follows its right link: the node would be emitted before its right subtree but after nothing of its left subtree (descending order)')
            continue
        if nf and nf[1] == ('left',) and strip(nf[0]).id in popped_ids:
            problems.append('after emitting a node the walk continues with its left subtree instead of its right subtree')
            continue
        problems.append('the cursor of the walk is assigned %s, which is neither the root, the left link of the node just pushed nor the right link of the node just popped' % show(a, 3))
    if not saw_left:
        problems.append('the walk never follows the left link of a pushed node')
    if not saw_right:
        problems.append('the walk never continues with the right link of a popped node')
    # (c) a node is popped (and emitted) only when the way down to the left is exhausted
    for pc in pops:
        if not any(known_empty(prog, b, ph, pc.point[0]) for ph in [C] + [b._vals[i] for i in seen if i != C.id and i < len(b._vals)]):
            problems.append('a node is popped although the cursor may still designate an unvisited left subtree')
    if problems:
        return 'violation', '; '.join(sorted(set(problems))[:3])
    return 'ok', 'textbook explicit-stack in-order walk: push and follow left until empty, pop, emit, continue with the right link'


def ffield(x, fr):
    """name of the frame field a load / store rooted at the frame reference designates (looking through the Option
    wrapper of last()/last_mut()), or None"""
    root = x.root if hasattr(x, 'root') else x.args[0]
    sr = strip(root)
    if sr is not None and sr is not fr and sr.kind == 'call' and sr.callee_name() in ('unwrap', 'expect', 'unwrap_unchecked') and sr.args and strip(sr.args[0]) is fr:
        sr = fr                 # `stack.last_mut().unwrap()`: the same frame, the Option taken off by a call
    if sr is not fr:
        return None
    f = list(x.fields())
    if f[:2] == ['as:Some', '0']:
        f = f[2:]
    return f[0] if len(f) == 1 else None


def same(a, b):
    if a is b:
        return True
    return a.kind == b.kind == 'load' and a.args[1] == b.args[1] and strip(a.args[0]) is strip(b.args[0])


def strip_ref(v):
    v = strip(v)
    while True:
        if v.kind == 'ref' and not v.fields():
            v = strip(v.args[0])
        elif v.kind == 'call' and v.callee_name() in ('deref', 'deref_mut', 'as_mut_slice', 'as_slice') and len(v.args) == 1:
            v = strip(v.args[0])
        else:
            return v
