"""LINKPAIR, NILSTATE, COLOR (DESIGN section 4; C02, C11).

LINKPAIR  child and parent links are written in pairs: a write node(X).left|right := Y (Y not a constant) needs
          node(Y).parent := X, and a write node(Y).parent := X needs the child-side write (or root := Y when X is
          empty).  Writes whose both ends are parameters / the return value are exported to the callers as pending
          and must be matched there; at the complete transactions nothing may stay pending.
NILSTATE  the sentinel slot (NIL_INDEX) is linked by exactly one function and unlinked by exactly one; in the
          removal the unlink post-dominates the link; NIL_INDEX is never released, never made the root, never
          stored as somebody's child/parent outside these two helpers and create_nil_node; the free list receives
          indices only from the release function (whose arguments are never NIL_INDEX) and from arena growth.
COLOR     a freshly linked non-root node is red."""
from ssa import strip, show, walk
from origins import origins, LINKS, atom_str
from engine import span_line

PROPS = ['C02']


def vkey(prog, v):
    """identity of an index value for pairing: ('param',k) | ('ret',) | ('const',name) | ('val', id)"""
    v = strip(v)
    if v.kind == 'param':
        return ('param', v.args[0])
    if v.kind == 'const':
        if prog.is_empty_ref(v):
            return ('const', 'EMPTY_REF')
        if prog.is_nil_index(v):
            return ('const', 'NIL_INDEX')
        return ('const', v.args[0])
    return ('val', v.id)


def link_writes(prog, fn, _stack=None):
    """(child_writes, parent_writes, root_writes) of fn including instantiated callee summaries.
       child write: (X, side, Y); parent write: (Y, X); root write: Y   (keys from vkey; 'ret' for the return value)"""
    key = ('linkwrites', fn.path)
    if key in prog._summ_cache:
        return prog._summ_cache[key]
    _stack = _stack or set()
    if fn.path in _stack:
        return (set(), set(), set(), [])
    _stack = _stack | {fn.path}
    b = fn.body
    rets = {strip(v).id for v in b.ret_val.values()}

    def k(v):
        kk = vkey(prog, v)
        if kk[0] == 'val' and kk[1] in rets:
            return ('ret',)
        return kk
    C, P, R = set(), set(), set()
    sites = []
    for st in b.stores:
        acc = prog.accessor_call(strip(st.root))
        f = st.fields()
        if acc is not None and len(f) == 1 and f[0] in ('left', 'right'):
            C.add((k(acc[2]), f[0], k(st.value)))
            sites.append(st)
        elif acc is not None and f == ('parent',):
            P.add((k(acc[2]), k(st.value)))
            sites.append(st)
        elif strip(st.root).kind == 'param' and f == ('root',):
            R.add(k(st.value))
    # callee summaries (pending writes only), instantiated
    for call, tgt in prog.callees(fn):
        if call.kind != 'call' or tgt.is_closure or tgt.path in prog.accessors:
            continue
        cC, cP, cR, _ = link_writes(prog, tgt, _stack)
        pend_c, pend_p = pending(cC, cP, cR)

        def inst(kk):
            if kk[0] == 'param':
                i = kk[1]
                return k(call.args[i - 1]) if i - 1 < len(call.args) else ('val', -1)
            if kk == ('ret',):
                return k(call)
            return kk
        for (x, side, y) in pend_c:
            if exportable(x) and exportable(y):
                C.add((inst(x), side, inst(y)))
        for (y, x) in pend_p:
            if exportable(x) and exportable(y):
                P.add((inst(y), inst(x)))
    prog._summ_cache[key] = (C, P, R, sites)
    return C, P, R, sites


def pending(C, P, R):
    """writes without their partner"""
    pc = set()
    pp = set()
    for (x, side, y) in C:
        if y == ('const', 'EMPTY_REF') or (y[0] == 'const' and y[1] != 'NIL_INDEX'):
            continue
        if (y, x) not in P:
            pc.add((x, side, y))
    for (y, x) in P:
        if x == ('const', 'EMPTY_REF'):
            if y not in R:
                pp.add((y, x))
            continue
        if not any(cx == x and cy == y for (cx, side, cy) in C):
            # root case: the parent may be empty and then the root is set
            pp.add((y, x))
    return pc, pp


def exportable(kk):
    return kk[0] in ('param', 'const') or kk == ('ret',)


def run(ctx):
    prog = ctx.prog
    from rules.pool import pool_roles, tree_pool, calls_to
    roles = pool_roles(prog)
    n_pair = 0
    for tree in sorted(prog.tree_adts):
        pool, _ = tree_pool(prog, tree)
        r = roles.get(pool)
        fns = [f for f in prog.fns.values() if f.self_adt == tree and not f.is_closure]
        # ---------------- LINKPAIR ----------------
        for f in fns:
            C, P, R, sites = link_writes(prog, f)
            if not C and not P:
                continue
            pc, pp = pending(C, P, R)
            callers = [c for _, c in prog.callers(f) if c.self_adt == tree]
            is_entry = bool(f.trait_item) or not callers
            problems = []
            for (x, side, y) in sorted(pc, key=str):
                if exportable(x) and exportable(y) and not is_entry and any(kk[0] == 'param' or kk == ('ret',) for kk in (x, y)):
                    continue        # the callers must complete it
                problems.append('node(%s).%s := %s has no matching node(%s).parent := %s' % (kstr(f, x), side, kstr(f, y), kstr(f, y), kstr(f, x)))
            for (y, x) in sorted(pp, key=str):
                if exportable(x) and exportable(y) and not is_entry and any(kk[0] == 'param' or kk == ('ret',) for kk in (x, y)):
                    continue
                problems.append('node(%s).parent := %s has no matching child link (or root) write' % (kstr(f, y), kstr(f, x)))
            n_pair += 1
            line = sites[0].span[1] if sites and sites[0].span else f.line
            if problems:
                ctx.add('LINKPAIR', f, 'pairing', 'violation', '; '.join(problems[:3]), PROPS, line)
            else:
                ctx.add('LINKPAIR', f, 'pairing', 'ok', '%d child-link and %d parent-link writes are paired%s' % (len(C), len(P), ' (some completed by the callers)' if (pc or pp) else ''), PROPS, line,
                        {'pending_for_callers': [str(x) for x in sorted(pc | pp, key=str)]})
        # ---------------- NILSTATE ----------------
        origin_link, origin_unlink, other = set(), set(), []
        problems = []
        for f in fns:
            ev = nil_events(prog, f)
            for (kind, site, origin) in ev['sites']:
                if origin:
                    (origin_link if kind == 'link' else origin_unlink).add(f.name)
            for (f2, st) in ev['bad']:
                other.append((f2, st))
            callers = [c for _, c in prog.callers(f) if c.self_adt == tree and not c.is_closure]
            is_entry = bool(f.trait_item) or not callers
            if is_entry:
                for (kind, site) in ev['unmatched']:
                    if kind == 'link':
                        problems.append('in %s the sentinel is linked but not unlinked on every path to the return' % f.name)
                    else:
                        problems.append('in %s the sentinel is unlinked without having been linked' % f.name)
        lf, uf = sorted(origin_link), sorted(origin_unlink)
        if not lf:
            problems.append('the sentinel is linked as a child by [] (no site found: the removal\'s black-leaf case is not recognised)')
        if not uf:
            problems.append('the sentinel is unlinked by [] (no site writes EMPTY_REF into the child link of the sentinel\'s parent)')
        if other:
            problems.append('NIL_INDEX is stored into a parent link in %s' % sorted({f.name for f, _ in other}))
        # roots / releases never NIL
        for f in fns:
            for st in f.body.stores:
                if strip(st.root).kind == 'param' and st.fields() == ('root',) and prog.is_nil_index(st.value):
                    problems.append('NIL_INDEX is made the root in %s' % f.name)
            if r:
                for c in calls_to(prog, f, r['release']):
                    ats = origins(prog, f, c.args[1])
                    if any(a == ('const', 'NIL_INDEX') for a in ats):
                        problems.append('the sentinel slot can be released in %s' % f.name)
        problems = list(dict.fromkeys(problems))
        tfn = [f for f in fns if f.name == 'new' or f.body.locals[0]['ty'].split('<')[0] == tree]
        ctx.add('NILSTATE', tfn[0] if tfn else None, 'sentinel(%s)' % tree.split('::')[0], 'violation' if problems else 'ok',
                '; '.join(problems[:3]) if problems else 'sentinel linked (in %s) and unlinked (in %s) in strict pairs on every path; never released, rooted or stored as a parent' % ('/'.join(lf), '/'.join(uf)),
                PROPS + ['C11'], tfn[0].line if tfn else 0)
        # ---------------- COLOR ----------------
        if r:
            for f in fns:
                for c in calls_to(prog, f, r['alloc']):
                    if f.body.locals[0]['ty'].split('<')[0] == tree:
                        continue
                    returned = any(strip(rv) is c for rv in f.body.ret_val.values())
                    rooted = any(strip(st.root).kind == 'param' and st.fields() == ('root',) and strip(st.value) is c for st in f.body.stores)
                    from summaries import writes_to
                    cols = [(vd, site) for (flds, vd, site, vv) in writes_to(prog, f, c) if flds == ('color',)]
                    if rooted:
                        continue        # the root's colour is deliberately unconstrained
                    if not returned:
                        continue
                    line = span_line(c, f.line)
                    if len(cols) != 1:
                        ctx.add('COLOR', f, 'fresh-node', 'violation', 'the colour of a fresh non-root node is written %d times' % len(cols), PROPS, line)
                        continue
                    vd = cols[0][0]
                    name = vd[1] if vd[0] == 'variant' else str(vd)
                    if vd[0] == 'param':
                        # the colour is the helper's parameter: take what every call site passes; a call site that makes
                        # the fresh slot the root is unconstrained
                        names = set()
                        for call2, caller in prog.callers(f):
                            if call2.kind != 'call' or vd[1] - 1 >= len(call2.args):
                                names.add('?')
                                continue
                            rooted2 = any(strip(st.root).kind == 'param' and st.fields() == ('root',) and strip(st.value) is call2 for st in caller.body.stores)
                            if rooted2:
                                continue
                            a = strip(call2.args[vd[1] - 1])
                            from summaries import val_desc
                            d2 = val_desc(prog, caller, a)
                            names.add(d2[1] if d2[0] == 'variant' else str(d2))
                        name = names.pop() if len(names) == 1 else ('Red' if not names else '/'.join(sorted(names)))
                    if name == 'Red':
                        ctx.add('COLOR', f, 'fresh-node', 'ok', 'a freshly linked non-root node is red (black heights unchanged by the insertion itself)', PROPS, line)
                    else:
                        ctx.add('COLOR', f, 'fresh-node', 'violation', 'a freshly linked non-root node is coloured %s: the path through it gets one more black node than its siblings' % name, PROPS, line)
    # ---------------- CLIMB (child / parent cursor pairs of upward loops) ----------------
    n_climb = 0
    for tree in sorted(prog.tree_adts):
        for f in [f for f in prog.fns.values() if f.self_adt == tree and not f.is_closure]:
            b = f.body
            loops = b.cfg.loops()
            for h, body in sorted(loops.items()):
                phis = list(b.phis.get(h, {}).values())
                for P in phis:
                    if 'same_as' in P.extra:
                        continue
                    ins = [(strip(a), p) for a, p in zip(P.args, P.extra['preds'])]
                    steps = [a for a, p in ins if p in body]
                    inits = [a for a, p in ins if p not in body]
                    if not steps or not inits:
                        continue
                    # P advances through its own parent link
                    def parent_of(v, base):
                        nf = prog.node_field(v) if v.kind == 'load' else None
                        return nf is not None and nf[1] == ('parent',) and strip(nf[0]) is base
                    if not all(parent_of(a, P) for a in steps):
                        continue
                    for N in phis:
                        if N is P or 'same_as' in N.extra:
                            continue
                        nins = [(strip(a), p) for a, p in zip(N.args, N.extra['preds'])]
                        ninit = [a for a, p in nins if p not in body]
                        nstep = [a for a, p in nins if p in body]
                        # (N, P) start as child and parent: P0 == node(N0).parent
                        if not ninit or not all(any(parent_of(p0, n0) for n0 in ninit) for p0 in inits):
                            continue
                        n_climb += 1
                        bad = [a for a in nstep if a is not P]
                        line = f.line
                        if bad:
                            ctx.add('CLIMB', f, 'pair(%s,%s)' % (b.local_name(N.extra.get('local', 0)), b.local_name(P.extra.get('local', 0))), 'violation',
                                    'an upward loop keeps a node cursor and its parent cursor (the parent cursor follows the parent link); the node cursor must become the old parent, but it is set to %s: from the second round on the pair no longer is (child, parent)' % show(bad[0], 3),
                                    PROPS + ['C10'], line)
                        else:
                            ctx.add('CLIMB', f, 'pair(%s,%s)' % (b.local_name(N.extra.get('local', 0)), b.local_name(P.extra.get('local', 0))), 'ok',
                                    'the (node, parent) cursor pair of the upward loop stays a child/parent pair: node := old parent, parent := its parent link', PROPS + ['C10'], line)
    ctx.stat('CLIMB', pairs=n_climb)
    ctx.stat('LINKPAIR', functions=n_pair)
    if n_pair < 15:
        ctx.anchor_missing('LINKPAIR', 'functions that write links', PROPS, n_pair, 15)


def is_nil_parent(prog, fn, v):
    ats = origins(prog, fn, v)
    return bool(ats) and all(a[0] == 'link' and a[2] == 'parent' and hasattr(a[1], 'kind') and prog.is_nil_index(a[1]) for a in ats)


def nil_events(prog, fn, _stack=None):
    """sentinel link / unlink events of fn, through helpers.
    link   = a child link receives NIL_INDEX;   unlink = the child link of node(NIL_INDEX).parent receives EMPTY_REF.
    Helpers whose written value / target node are parameters are kept as templates and resolved at their call sites.
    Within a function a link is matched by an unlink that post-dominates it, an unlink by a link that dominates it;
    what stays unmatched is handed to the callers (the call site then is the event's site).
    returns {'sites': [(kind, site, is_origin)], 'unmatched': [(kind, site)], 'templates': [(tv, tt)], 'bad': [...]}"""
    key = ('nilevents', fn.path)
    if key in prog._summ_cache:
        return prog._summ_cache[key]
    _stack = _stack or set()
    empty = {'sites': [], 'unmatched': [], 'templates': [], 'bad': []}
    if fn.path in _stack:
        return empty
    _stack = _stack | {fn.path}
    b = fn.body
    sites, templates, bad = [], [], []

    def tv_of(v):
        v = strip(v)
        if prog.is_nil_index(v):
            return ('const', 'NIL')
        if prog.is_empty_ref(v):
            return ('const', 'EMPTY')
        if v.kind == 'param':
            return ('param', v.args[0])
        if v.kind == 'phi' and any(prog.is_nil_index(strip(x)) for x in v.args):
            return ('const', 'NIL')
        return ('other',)

    def tt_of(v):
        v = strip(v)
        if v.kind == 'param':
            return ('param', v.args[0])
        if is_nil_parent(prog, fn, v):
            return ('nilparent',)
        return ('other',)

    def resolve(tv, tt, site, origin):
        if tv == ('const', 'NIL'):
            sites.append(('link', site, origin))
        elif tv == ('const', 'EMPTY'):
            if tt == ('nilparent',):
                sites.append(('unlink', site, origin))
            elif tt[0] == 'param':
                templates.append((tv, tt))
        elif tv[0] == 'param':
            templates.append((tv, tt))

    for st in b.stores:
        acc = prog.accessor_call(strip(st.root))
        fl = st.fields()
        if acc is None or len(fl) != 1 or fl[0] not in LINKS:
            continue
        if fl[0] == 'parent':
            if prog.is_nil_index(st.value):
                bad.append((fn, st))
            continue
        resolve(tv_of(st.value), tt_of(acc[2]), st, True)
    for call, tgt in prog.callees(fn):
        if call.kind != 'call' or tgt.is_closure or tgt.path in prog.accessors:
            continue
        ev = nil_events(prog, tgt, _stack)
        bad += ev['bad']
        for (kind, _site) in ev['unmatched']:
            sites.append((kind, call, False))
        for (tv, tt) in ev['templates']:
            ntv, ntt = tv, tt
            if tv[0] == 'param':
                ntv = tv_of(call.args[tv[1] - 1]) if tv[1] - 1 < len(call.args) else ('other',)
            if tt[0] == 'param':
                ntt = tt_of(call.args[tt[1] - 1]) if tt[1] - 1 < len(call.args) else ('other',)
            was_const = tv[0] == 'const' and tt[0] != 'param'
            resolve(ntv, ntt, call, not was_const)
    cfg = b.cfg

    def after(x, y):
        """site y comes after site x and lies on every path from x to a return"""
        if x.point[0] == y.point[0]:
            return y.point > x.point
        return cfg.postdominates(y.point[0], x.point[0])

    def before(x, y):
        if x.point[0] == y.point[0]:
            return x.point < y.point
        return cfg.dominates(x.point[0], y.point[0])
    links = [s for k, s, o in sites if k == 'link']
    unlinks = [s for k, s, o in sites if k == 'unlink']
    unmatched = []
    for l in links:
        if not any(after(l, u) for u in unlinks):
            unmatched.append(('link', l))
    for u in unlinks:
        if not any(before(l, u) for l in links):
            unmatched.append(('unlink', u))
    res = {'sites': sites, 'unmatched': unmatched, 'templates': sorted(set(templates)), 'bad': bad}
    prog._summ_cache[key] = res
    return res


def kstr(fn, kk):
    if kk[0] == 'param':
        return fn.body.local_name(kk[1])
    if kk[0] == 'const':
        return str(kk[1])
    if kk == ('ret',):
        return '<result>'
    v = fn.body._vals[kk[1]] if kk[0] == 'val' and 0 <= kk[1] < len(fn.body._vals) else None
    return show(v, 2) if v is not None else '?'
