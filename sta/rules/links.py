"""LINKPAIR, NILSTATE, COLOR (DESIGN section 4; C02, C11).

LINKPAIR  child and parent links are written in pairs: a write node(X).left|right := Y (Y not a constant) needs
          node(Y).parent := X, and a write node(Y).parent := X needs the child-side write (or root := Y when X is
          empty).  Writes whose both ends are parameters / the return value are exported to the callers as pending
          and must be matched there; at the complete transactions nothing may stay pending.
NILSTATE  the sentinel slot (NIL_INDEX) is linked by exactly one function and unlinked by exactly one; in the
          removal the unlink post-dominates the link; NIL_INDEX is never released, never made the root, never
          stored as somebody's child/parent outside these two helpers and create_nil_node; the free list receives
          indices only from the release function (whose arguments are never NIL_INDEX) and from arena growth.
COLOR     a freshly linked non-root node is red."""
from ssa import strip, show, walk
from origins import origins, LINKS, atom_str
from engine import span_line

PROPS = ['C02']


def vkey(prog, v):
    """identity of an index value for pairing: ('param',k) | ('ret',) | ('const',name) | ('val', id)"""
    v = strip(v)
    if v.kind == 'param':
        return ('param', v.args[0])
    if v.kind == 'const':
        if prog.is_empty_ref(v):
            return ('const', 'EMPTY_REF')
        if prog.is_nil_index(v):
            return ('const', 'NIL_INDEX')
        return ('const', v.args[0])
    return ('val', v.id)


def link_writes(prog, fn, _stack=None):
    """(child_writes, parent_writes, root_writes) of fn including instantiated callee summaries.
       child write: (X, side, Y); parent write: (Y, X); root write: Y   (keys from vkey; 'ret' for the return value)"""
    key = ('linkwrites', fn.path)
    if key in prog._summ_cache:
        return prog._summ_cache[key]
    _stack = _stack or set()
    if fn.path in _stack:
        return (set(), set(), set(), [])
    _stack = _stack | {fn.path}
    b = fn.body
    rets = {strip(v).id for v in b.ret_val.values()}

    def k(v):
        kk = vkey(prog, v)
        if kk[0] == 'val' and kk[1] in rets:
            return ('ret',)
        return kk
    C, P, R = set(), set(), set()
    sites = []
    for st in b.stores:
        acc = prog.accessor_call(strip(st.root))
        f = st.fields()
        if acc is not None and len(f) == 1 and f[0] in ('left', 'right'):
            C.add((k(acc[2]), f[0], k(st.value)))
            sites.append(st)
        elif acc is not None and f == ('parent',):
            P.add((k(acc[2]), k(st.value)))
            sites.append(st)
        elif strip(st.root).kind == 'param' and f == ('root',):
            R.add(k(st.value))
    # callee summaries (pending writes only), instantiated
    for call, tgt in prog.callees(fn):
        if call.kind != 'call' or tgt.is_closure or tgt.path in prog.accessors:
            continue
        cC, cP, cR, _ = link_writes(prog, tgt, _stack)
        pend_c, pend_p = pending(cC, cP, cR)

        def inst(kk):
            if kk[0] == 'param':
                i = kk[1]
                return k(call.args[i - 1]) if i - 1 < len(call.args) else ('val', -1)
            if kk == ('ret',):
                return k(call)
            return kk
        for (x, side, y) in pend_c:
            if exportable(x) and exportable(y):
                C.add((inst(x), side, inst(y)))
        for (y, x) in pend_p:
            if exportable(x) and exportable(y):
                P.add((inst(y), inst(x)))
    prog._summ_cache[key] = (C, P, R, sites)
    return C, P, R, sites


def pending(C, P, R):
    """writes without their partner"""
    pc = set()
    pp = set()
    for (x, side, y) in C:
        if y == ('const', 'EMPTY_REF') or (y[0] == 'const' and y[1] != 'NIL_INDEX'):
            continue
        if (y, x) not in P:
            pc.add((x, side, y))
    for (y, x) in P:
        if x == ('const', 'EMPTY_REF'):
            if y not in R:
                pp.add((y, x))
            continue
        if not any(cx == x and cy == y for (cx, side, cy) in C):
            # root case: the parent may be empty and then the root is set
            pp.add((y, x))
    return pc, pp


def exportable(kk):
    return kk[0] in ('param', 'const') or kk == ('ret',)


def run(ctx):
    prog = ctx.prog
    from rules.pool import pool_roles, tree_pool, calls_to
    roles = pool_roles(prog)
    n_pair = 0
    for tree in sorted(prog.tree_adts):
        pool, _ = tree_pool(prog, tree)
        r = roles.get(pool)
        fns = [f for f in prog.fns.values() if f.self_adt == tree and not f.is_closure]
        # ---------------- LINKPAIR ----------------
        for f in fns:
            C, P, R, sites = link_writes(prog, f)
            if not C and not P:
                continue
            pc, pp = pending(C, P, R)
            callers = [c for _, c in prog.callers(f) if c.self_adt == tree]
            is_entry = bool(f.trait_item) or not callers
            problems = []
            for (x, side, y) in sorted(pc, key=str):
                if exportable(x) and exportable(y) and not is_entry and any(kk[0] == 'param' or kk == ('ret',) for kk in (x, y)):
                    continue        # the callers must complete it
                problems.append('node(%s).%s := %s has no matching node(%s).parent := %s' % (kstr(f, x), side, kstr(f, y), kstr(f, y), kstr(f, x)))
            for (y, x) in sorted(pp, key=str):
                if exportable(x) and exportable(y) and not is_entry and any(kk[0] == 'param' or kk == ('ret',) for kk in (x, y)):
                    continue
                problems.append('node(%s).parent := %s has no matching child link (or root) write' % (kstr(f, y), kstr(f, x)))
            n_pair += 1
            line = sites[0].span[1] if sites and sites[0].span else f.line
            if problems:
                ctx.add('LINKPAIR', f, 'pairing', 'violation', '; '.join(problems[:3]), PROPS, line)
            else:
                ctx.add('LINKPAIR', f, 'pairing', 'ok', '%d child-link and %d parent-link writes are paired%s' % (len(C), len(P), ' (some completed by the callers)' if (pc or pp) else ''), PROPS, line,
                        {'pending_for_callers': [str(x) for x in sorted(pc | pp, key=str)]})
        # ---------------- NILSTATE ----------------
        origin_link, origin_unlink, other = set(), set(), []
        problems = []
        for f in fns:
            ev = nil_events(prog, f)
            for (kind, site, origin) in ev['sites']:
                if origin:
                    (origin_link if kind == 'link' else origin_unlink).add(f.name)
            for (f2, st) in ev['bad']:
                other.append((f2, st))
            callers = [c for _, c in prog.callers(f) if c.self_adt == tree and not c.is_closure]
            is_entry = bool(f.trait_item) or not callers
            if is_entry:
                for (kind, site) in ev['unmatched']:
                    if kind == 'link':
                        problems.append('in %s the sentinel is linked but not unlinked on every path to the return' % f.name)
                    else:
                        problems.append('in %s the sentinel is unlinked without having been linked' % f.name)
        lf, uf = sorted(origin_link), sorted(origin_unlink)
        if not lf:
            problems.append('the sentinel is linked as a child by [] (no site found: the removal\'s black-leaf case is not recognised)')
        if not uf:
            problems.append('the sentinel is unlinked by [] (no site writes EMPTY_REF into the child link of the sentinel\'s parent)')
        if other:
            problems.append('NIL_INDEX is stored into a parent link in %s' % sorted({f.name for f, _ in other}))
        # roots / releases never NIL
        for f in fns:
            for st in f.body.stores:
                if strip(st.root).kind == 'param' and st.fields() == ('root',) and prog.is_nil_index(st.value):
                    problems.append('NIL_INDEX is made the root in %s' % f.name)
            if r:
                for c in calls_to(prog, f, r['release']):
                    ats = origins(prog, f, c.args[1])
                    if any(a == ('const', 'NIL_INDEX') for a in ats):
                        problems.append('the sentinel slot can be released in %s' % f.name)
        problems = list(dict.fromkeys(problems))
        tfn = [f for f in fns if f.name == 'new' or f.body.locals[0]['ty'].split('<')[0] == tree]
        ctx.add('NILSTATE', tfn[0] if tfn else None, 'sentinel(%s)' % tree.split('::')[0], 'violation' if problems else 'ok',
                '; '.join(problems[:3]) if problems else 'sentinel linked (in %s) and unlinked (in %s) in strict pairs on every path; never released, rooted or stored as a parent' % ('/'.join(lf), '/'.join(uf)),
                PROPS + ['C11'], tfn[0].line if tfn else 0)
        # ---------------- COLOR ----------------
        if r:
            for f in fns:
                for c in calls_to(prog, f, r['alloc']):
                    if f.body.locals[0]['ty'].split('<')[0] == tree:
                        continue
                    returned = any(strip(rv) is c for rv in f.body.ret_val.values())
                    rooted = any(strip(st.root).kind == 'param' and st.fields() == ('root',) and strip(st.value) is c for st in f.body.stores)
                    from summaries import writes_to
                    cols = [(vd, site) for (flds, vd, site, vv) in writes_to(prog, f, c) if flds == ('color',)]
                    if rooted:
                        continue        # the root's colour is deliberately unconstrained
                    if not returned:
                        continue
                    line = span_line(c, f.line)
                    if len(cols) != 1:
                        ctx.add('COLOR', f, 'fresh-node', 'violation', 'the colour of a fresh non-root node is written %d times' % len(cols), PROPS, line)
                        continue
                    vd = cols[0][0]
                    name = vd[1] if vd[0] == 'variant' else str(vd)
                    if vd[0] == 'param':
                        # the colour is the helper's parameter: take what every call site passes; a call site that makes
                        # the fresh slot the root is unconstrained
                        names = set()
                        for call2, caller in prog.callers(f):
                            if call2.kind != 'call' or vd[1] - 1 >= len(call2.args):
                                names.add('?')
                                continue
                            rooted2 = any(strip(st.root).kind == 'param' and st.fields() == ('root',) and strip(st.value) is call2 for st in caller.body.stores)
                            if rooted2:
                                continue
                            a = strip(call2.args[vd[1] - 1])
                            from summaries import val_desc
                            d2 = val_desc(prog, caller, a)
                            names.add(d2[1] if d2[0] == 'variant' else str(d2))
                        name = names.pop() if len(names) == 1 else ('Red' if not names else '/'.join(sorted(names)))
                    if name == 'Red':
                        ctx.add('COLOR', f, 'fresh-node', 'ok', 'a freshly linked non-root node is red (black heights unchanged by the insertion itself)', PROPS, line)
                    else:
                        ctx.add('COLOR', f, 'fresh-node', 'violation', 'a freshly linked non-root node is coloured %s: the path through it gets one more black node than its siblings' % name, PROPS, line)
    # ---------------- FRESH (a slot taken from the pool enters the tree as a leaf) ----------------
    # Slots are recycled, so a fresh node's child links are whatever the slot's previous life left there unless somebody
    # resets them.  Either the allocating function writes EMPTY_REF into both child links (and some parent) on every
    # path to its return, or the reset is a discipline of the release side: the pool's filler value has EMPTY_REF there
    # and every release of a slot anywhere in the tree is dominated by a reset of that slot's link.
    n_fresh = 0
    for tree in sorted(prog.tree_adts):
        pool, _ = tree_pool(prog, tree)
        r = roles.get(pool)
        if not r:
            continue
        fns = [f for f in prog.fns.values() if f.self_adt == tree and not f.is_closure]
        for f in fns:
            for c in calls_to(prog, f, r['alloc']):
                from summaries import writes_to
                if f.body.locals[0]['ty'].split('<')[0] == tree:
                    continue        # the constructor takes the sentinel's slot (NILSTATE)
                n_fresh += 1
                w = writes_to(prog, f, c)
                line = span_line(c, f.line)
                missing = []
                for F in ('left', 'right'):
                    sites = [site for (flds, vd, site, vv) in w if flds == (F,) and vd == ('const', 'EMPTY_REF')]
                    if not any(cuts_all_returns(f.body, c.point[0], site.point[0]) for site in sites):
                        missing.append(F)
                if not any(flds == ('parent',) for (flds, vd, site, vv) in w):
                    missing.append('parent')
                if not missing:
                    ctx.add('FRESH', f, 'fresh-leaf', 'ok', 'both child links of the slot taken from the pool are set to EMPTY_REF and its parent link is written before the function returns', ['C02', 'C12'] + family_props(f), line)
                    continue
                why = release_side_resets(prog, tree, r, fns, [m for m in missing if m != 'parent']) if 'parent' not in missing else 'the parent link of the fresh node is never written'
                if why is None:
                    ctx.add('FRESH', f, 'fresh-leaf', 'ok', 'the %s link(s) are not written here; they are reset before every release of a slot and the pool is filled with nodes whose links are EMPTY_REF' % '/'.join(missing), ['C02', 'C12'] + family_props(f), line)
                else:
                    ctx.add('FRESH', f, 'fresh-leaf', 'violation', 'the slot taken from the pool keeps the %s link(s) of its previous life: not written on every path before the function returns, and %s (a recycled inner node brings its old subtree back: lookups find removed entries, the tree can become cyclic)' % ('/'.join(missing), why), ['C02', 'C12'] + family_props(f), line)
    ctx.stat('FRESH', allocations=n_fresh)
    if n_fresh < 6:
        ctx.anchor_missing('FRESH', 'allocation sites in the three trees', ['C02'], n_fresh, 6)
    # ---------------- DROP (a reference to a node is cleared only where the node is released) ----------------
    # `root = EMPTY_REF` or `node(p).left|right = EMPTY_REF` cuts a node (and what hangs below it) off the tree.  Outside
    # the constructor and `clear`, every path of the function through such a store must also pass a release of a slot
    # (directly, or in a helper that releases on all its paths); a helper that only cuts is judged at its call sites.
    from rules.pool import release_summary
    n_drop = 0
    for tree in sorted(prog.tree_adts):
        pool, _ = tree_pool(prog, tree)
        r = roles.get(pool)
        if not r:
            continue
        fns = [f for f in prog.fns.values() if f.self_adt == tree and not f.is_closure]
        S = {f.path: release_summary(prog, f, r, fns) for f in fns}

        def releasing_blocks(f):
            out = set()
            for c in f.body.calls:
                tgt = prog.resolve(c)
                if tgt is None:
                    continue
                if tgt in r['release'] or (tgt.path in S and tgt.path != f.path and 0 not in S[tgt.path]):
                    out.add(c.point[0])
            return out

        def path_without_release(f, blk, target, depth=0):
            """is there a path entry -> blk -> return of f that passes no releasing block?  If blk's function is a
            private helper and such a path exists, the question is passed on to its call sites.  `target` is the
            node whose link is cleared (None for the root): clearing a link of the slot just taken from the pool or
            of the sentinel cuts nothing off."""
            b = f.body
            rel = releasing_blocks(f)
            if blk in rel:
                return None
            t = strip(target) if target is not None else None
            if t is not None:
                if prog.is_nil_index(t) or (t.kind == 'call' and prog.resolve(t) in r['alloc']):
                    return None
            # backwards from blk to entry, forwards from blk to a return, both avoiding rel
            def reach(start, nxt, goal):
                seen, todo = {start}, [start]
                while todo:
                    x = todo.pop()
                    if goal(x):
                        return True
                    for y in nxt(x):
                        if y not in seen and y not in rel:
                            seen.add(y)
                            todo.append(y)
                return False
            back = reach(blk, lambda x: b.cfg.pred.get(x, []) if isinstance(b.cfg.pred, dict) else b.cfg.pred[x], lambda x: x == 0)
            fwd = reach(blk, lambda x: b.cfg.succ[x], lambda x: x in b.ret_val)
            if not (back and fwd):
                return None
            callers = [(c, g) for c, g in prog.callers(f) if g.self_adt == tree and c.kind == 'call' and g.path != f.path]
            if f.trait_item or f.vis == 'Public' or not callers or depth >= 3:
                return f
            for c, g in callers:
                if g.trait_method() == 'clear' or g.body.locals[0]['ty'].split('<')[0] == tree:
                    continue
                t2 = None
                if t is not None and t.kind == 'param' and t.args[0] - 1 < len(c.args):
                    t2 = c.args[t.args[0] - 1]
                w = path_without_release(g, c.point[0], t2, depth + 1)
                if w is not None:
                    return w
            return None

        for f in fns:
            if f.trait_method() == 'clear' or f.body.locals[0]['ty'].split('<')[0] == tree:
                continue
            b = f.body
            allocs = {c.id for c in calls_to(prog, f, r['alloc'])}
            for st in b.stores:
                if not prog.is_empty_ref(strip(st.value)):
                    continue
                flds = st.fields()
                what = None
                target = None
                if strip(st.root).kind == 'param' and flds == ('root',):
                    what = 'root'
                else:
                    acc = prog.accessor_call(strip(st.root))
                    if acc is not None and len(flds) == 1 and flds[0] in ('left', 'right') and strip(acc[2]).id not in allocs:
                        what = flds[0]
                        target = acc[2]
                if what is None:
                    continue
                n_drop += 1
                w = path_without_release(f, st.point[0], target)
                line = span_line(st, f.line) if hasattr(st, 'span') and st.span else f.line
                if w is None:
                    ctx.add('DROP', f, 'cut(%s)' % what, 'ok', 'every path through this `%s = EMPTY_REF` also releases a slot (here or at every call site of this helper)' % what, ['C11'], line)
                else:
                    ctx.add('DROP', f, 'cut(%s)' % what, 'violation', '`%s = EMPTY_REF` cuts a node off the tree on a path of %s that releases no slot: the node is neither in the tree nor on the free list (a slot is lost each time)' % (what, w.name), ['C11'], line)
    ctx.stat('DROP', cuts=n_drop)
    if n_drop < 6:
        ctx.anchor_missing('DROP', 'stores of EMPTY_REF into the root or a child link outside constructor and clear', ['C11'], n_drop, 6)
    # ---------------- ROOTTEST (a test that the tree's own discipline makes constant) ----------------
    # LINKPAIR establishes that whatever is stored into `root` gets EMPTY_REF as its parent.  A branch on
    # `node(self.root).parent == EMPTY_REF` is therefore always taken the same way: the other arm - typically the
    # repair the test was meant to guard, `node(n).parent` mistyped as `node(root).parent` - is dead code.  Assertions
    # (an arm that cannot return) are not branches in this sense.
    n_rt = 0
    for tree in sorted(prog.tree_adts):
        for f in sorted([f for f in prog.fns.values() if f.self_adt == tree and not f.is_closure], key=lambda x: x.path):
            b = f.body
            tests_here = bad_here = 0
            for bb, d in sorted(b.switch_discr.items()):
                d = strip(d)
                if d is None or d.kind != 'bin' or d.args[0] not in ('Eq', 'Ne'):
                    continue
                x, y = strip(d.args[1]), strip(d.args[2])
                for p, q in ((x, y), (y, x)):
                    if p is None or q is None or p.kind != 'load' or not prog.is_empty_ref(q):
                        continue
                    nf = prog.node_field(p)
                    if not nf or nf[1] != ('parent',):
                        continue
                    idx = strip(nf[0])
                    n_rt += 1
                    tests_here += 1
                    if idx.kind == 'load' and strip(idx.args[0]).kind == 'param' and idx.fields() == ('root',):
                        succ = b.cfg.succ[bb]
                        if all(s2 in b.cfg.can_return for s2 in succ):
                            line = span_line(d, f.line)
                            bad_here += 1
                            ctx.add('ROOTTEST', f, 'constant-test(root.parent)', 'violation', 'the branch tests node(self.root).parent against EMPTY_REF, which the link discipline makes always equal: one arm is dead code (if this guards a repair or a climb, it never runs, or never stops)', ['C02'], line)
            if tests_here and not bad_here:
                ctx.add('ROOTTEST', f, 'parent-tests', 'ok', 'its %d test(s) of a parent link against EMPTY_REF are on a node other than the root' % tests_here, ['C02'], f.line)
    ctx.stat('ROOTTEST', parent_tests=n_rt)
    if n_rt < 6:
        ctx.anchor_missing('ROOTTEST', 'tests of a parent link against EMPTY_REF in the trees', ['C02'], n_rt, 6)
    # ---------------- CLIMB (child / parent cursor pairs of upward loops) ----------------
    n_climb = 0
    for tree in sorted(prog.tree_adts):
        for f in [f for f in prog.fns.values() if f.self_adt == tree and not f.is_closure]:
            b = f.body
            loops = b.cfg.loops()
            for h, body in sorted(loops.items()):
                phis = list(b.phis.get(h, {}).values())
                for P in phis:
                    if 'same_as' in P.extra:
                        continue
                    ins = [(strip(a), p) for a, p in zip(P.args, P.extra['preds'])]
                    steps = [a for a, p in ins if p in body]
                    inits = [a for a, p in ins if p not in body]
                    if not steps or not inits:
                        continue
                    # P advances through its own parent link
                    def parent_of(v, base):
                        nf = prog.node_field(v) if v.kind == 'load' else None
                        return nf is not None and nf[1] == ('parent',) and strip(nf[0]) is base
                    p_follows = all(parent_of(a, P) for a in steps)
                    for N in phis:
                        if N is P or 'same_as' in N.extra:
                            continue
                        nins = [(strip(a), p) for a, p in zip(N.args, N.extra['preds'])]
                        ninit = [a for a, p in nins if p not in body]
                        nstep = [a for a, p in nins if p in body]
                        # (N, P) start as child and parent: P0 == node(N0).parent
                        if not ninit or not all(any(parent_of(p0, n0) for n0 in ninit) for p0 in inits):
                            continue
                        n_follows = bool(nstep) and all(a is P for a in nstep)
                        # the pair is recognised by either half of the step (parent := its own parent link; node := old parent)
                        if not p_follows and not n_follows:
                            continue
                        n_climb += 1
                        bad = [a for a in nstep if a is not P]
                        line = f.line
                        badp = [a for a in steps if not (parent_of(a, P) or any(parent_of(a, x) for x in nstep if x is P))]
                        if n_follows and badp:
                            ctx.add('CLIMB', f, 'pair(%s,%s)' % (b.local_name(N.extra.get('local', 0)), b.local_name(P.extra.get('local', 0))), 'violation',
                                    'an upward loop keeps a node cursor and its parent cursor (the node cursor becomes the old parent); the parent cursor must become the parent link of the new node, but it is set to %s, which is that only in the first round' % show(badp[0], 3),
                                    PROPS + ['C10'], line)
                        elif bad:
                            ctx.add('CLIMB', f, 'pair(%s,%s)' % (b.local_name(N.extra.get('local', 0)), b.local_name(P.extra.get('local', 0))), 'violation',
                                    'an upward loop keeps a node cursor and its parent cursor (the parent cursor follows the parent link); the node cursor must become the old parent, but it is set to %s: from the second round on the pair no longer is (child, parent)' % show(bad[0], 3),
                                    PROPS + ['C10'], line)
                        else:
                            ctx.add('CLIMB', f, 'pair(%s,%s)' % (b.local_name(N.extra.get('local', 0)), b.local_name(P.extra.get('local', 0))), 'ok',
                                    'the (node, parent) cursor pair of the upward loop stays a child/parent pair: node := old parent, parent := its parent link', PROPS + ['C10'], line)
    ctx.stat('CLIMB', pairs=n_climb)
    ctx.stat('LINKPAIR', functions=n_pair)
    if n_pair < 15:
        ctx.anchor_missing('LINKPAIR', 'functions that write links', PROPS, n_pair, 15)


def is_nil_parent(prog, fn, v):
    ats = origins(prog, fn, v)
    return bool(ats) and all(a[0] == 'link' and a[2] == 'parent' and hasattr(a[1], 'kind') and prog.is_nil_index(a[1]) for a in ats)


def nil_events(prog, fn, _stack=None):
    """sentinel link / unlink events of fn, through helpers.
    link   = a child link receives NIL_INDEX;   unlink = the child link of node(NIL_INDEX).parent receives EMPTY_REF.
    Helpers whose written value / target node are parameters are kept as templates and resolved at their call sites.
    Within a function a link is matched by an unlink that post-dominates it, an unlink by a link that dominates it;
    what stays unmatched is handed to the callers (the call site then is the event's site).
    returns {'sites': [(kind, site, is_origin)], 'unmatched': [(kind, site)], 'templates': [(tv, tt)], 'bad': [...]}"""
    key = ('nilevents', fn.path)
    if key in prog._summ_cache:
        return prog._summ_cache[key]
    _stack = _stack or set()
    empty = {'sites': [], 'unmatched': [], 'templates': [], 'bad': []}
    if fn.path in _stack:
        return empty
    _stack = _stack | {fn.path}
    b = fn.body
    sites, templates, bad = [], [], []

    def tv_of(v):
        v = strip(v)
        if prog.is_nil_index(v):
            return ('const', 'NIL')
        if prog.is_empty_ref(v):
            return ('const', 'EMPTY')
        if v.kind == 'param':
            return ('param', v.args[0])
        if v.kind == 'phi' and any(prog.is_nil_index(strip(x)) for x in v.args):
            return ('const', 'NIL')
        return ('other',)

    def tt_of(v):
        v = strip(v)
        if v.kind == 'param':
            return ('param', v.args[0])
        if is_nil_parent(prog, fn, v):
            return ('nilparent',)
        return ('other',)

    def resolve(tv, tt, site, origin):
        if tv == ('const', 'NIL'):
            sites.append(('link', site, origin))
        elif tv == ('const', 'EMPTY'):
            if tt == ('nilparent',):
                sites.append(('unlink', site, origin))
            elif tt[0] == 'param':
                templates.append((tv, tt))
        elif tv[0] == 'param':
            templates.append((tv, tt))

    for st in b.stores:
        acc = prog.accessor_call(strip(st.root))
        fl = st.fields()
        if acc is None or len(fl) != 1 or fl[0] not in LINKS:
            continue
        if fl[0] == 'parent':
            if prog.is_nil_index(st.value):
                bad.append((fn, st))
            continue
        resolve(tv_of(st.value), tt_of(acc[2]), st, True)
    for call, tgt in prog.callees(fn):
        if call.kind != 'call' or tgt.is_closure or tgt.path in prog.accessors:
            continue
        ev = nil_events(prog, tgt, _stack)
        bad += ev['bad']
        for (kind, _site) in ev['unmatched']:
            sites.append((kind, call, False))
        for (tv, tt) in ev['templates']:
            ntv, ntt = tv, tt
            if tv[0] == 'param':
                ntv = tv_of(call.args[tv[1] - 1]) if tv[1] - 1 < len(call.args) else ('other',)
            if tt[0] == 'param':
                ntt = tt_of(call.args[tt[1] - 1]) if tt[1] - 1 < len(call.args) else ('other',)
            was_const = tv[0] == 'const' and tt[0] != 'param'
            resolve(ntv, ntt, call, not was_const)
    cfg = b.cfg

    def after(x, y):
        """site y comes after site x and lies on every path from x to a return"""
        if x.point[0] == y.point[0]:
            return y.point > x.point
        return cfg.postdominates(y.point[0], x.point[0])

    def before(x, y):
        if x.point[0] == y.point[0]:
            return x.point < y.point
        return cfg.dominates(x.point[0], y.point[0])
    links = [s for k, s, o in sites if k == 'link']
    unlinks = [s for k, s, o in sites if k == 'unlink']
    unmatched = []
    for l in links:
        if not any(after(l, u) for u in unlinks):
            unmatched.append(('link', l))
    for u in unlinks:
        if not any(before(l, u) for l in links):
            unmatched.append(('unlink', u))
    res = {'sites': sites, 'unmatched': unmatched, 'templates': sorted(set(templates)), 'bad': bad}
    prog._summ_cache[key] = res
    return res


def kstr(fn, kk):
    if kk[0] == 'param':
        return fn.body.local_name(kk[1])
    if kk[0] == 'const':
        return str(kk[1])
    if kk == ('ret',):
        return '<result>'
    v = fn.body._vals[kk[1]] if kk[0] == 'val' and 0 <= kk[1] < len(fn.body._vals) else None
    return show(v, 2) if v is not None else '?'


def family_props(f):
    return {'map': ['C04'], 'set': ['C05'], 'key': ['C06']}.get(f.family, [])


def cuts_all_returns(b, start, blk):
    """every path from block `start` to a return passes through block `blk`"""
    if blk == start:
        return True
    seen, todo = {start}, [start]
    while todo:
        x = todo.pop()
        if x in b.ret_val:
            return False
        for y in b.cfg.succ[x]:
            if y != blk and y not in seen and y in b.cfg.can_return:
                seen.add(y)
                todo.append(y)
    return True


def release_side_resets(prog, tree, r, fns, fields):
    """None if the links `fields` of every released slot are reset on the release side; else the reason (text)"""
    from summaries import node_writes, val_desc
    from rules.pool import calls_to
    if not fields:
        return None
    # the filler value of the pool
    import re
    node_adts = [a for a in prog.node_adts if a.split('::')[0] == tree.split('::')[0]]
    filler_ok = False
    for f in prog.fns.values():
        if f.name == 'default' and f.self_adt in node_adts and f.info.get('mir'):
            from ssa import walk
            for rv in f.body.ret_val.values():
                for x in walk(rv):
                    if x.kind == 'agg' and (x.extra.get('path') or '') == f.self_adt:
                        names = (x.extra.get('variant') or {}).get('fields') or []
                        vals = dict(zip(names, x.args))
                        if all(F in vals and prog.is_empty_ref(strip(vals[F])) for F in fields):
                            filler_ok = True
    if not filler_ok:
        return 'the pool\'s filler node does not have EMPTY_REF there either'
    n_rel = 0
    for f in fns:
        rel = calls_to(prog, f, r['release'])
        if not rel:
            continue
        b = f.body
        for c in rel:
            n_rel += 1
            slot = strip(c.args[1]) if len(c.args) > 1 else None
            for F in fields:
                ok = False
                for st in b.stores:
                    acc = prog.accessor_call(strip(st.root))
                    if acc is not None and st.fields() == (F,) and strip(acc[2]) is slot and prog.is_empty_ref(strip(st.value)) and b.cfg.dominates(st.point[0], c.point[0]):
                        ok = True
                if not ok:
                    # the walk over the free list in `clear` visits every slot it has just released (POOL decides that):
                    # a reset of the slot read back from the free list, inside that loop, is the reset of the released slot
                    loops = b.cfg.loops()
                    for st in b.stores:
                        acc = prog.accessor_call(strip(st.root))
                        if acc is None or st.fields() != (F,) or not prog.is_empty_ref(strip(st.value)) or not any(st.point[0] in body for body in loops.values()):
                            continue
                        from ssa import walk
                        if any(x.kind in ('load', 'ref', 'call') and r['free'] and r['free'][-1] in ' '.join(map(str, x.fields() if x.kind in ('load', 'ref') else [])) for x in walk(acc[2])):
                            ok = True
                if not ok:
                    return '%s releases a slot without resetting its %s link' % (f.name, F)
    if n_rel == 0:
        return 'no release site found'
    return None
